"""Shared machinery for C14: design runs of Batching.tla / BatchingCollate.tla, recording sampler
proxy, real temporary data directories with provenance-encoding values, projection of batches to
the abstract records of the specifications."""
import os
import threading
import warnings

import torch

from .. import SPECS, tlc
from ..harness import MachineryError

MOD = os.path.join(SPECS, "BatchingMC.tla")
CMOD = os.path.join(SPECS, "BatchingCollateMC.tla")
TRACE_MOD = os.path.join(SPECS, "BatchingTrace.tla")
TRACE_CFG = os.path.join(SPECS, "BatchingTrace.cfg")
CTRACE_MOD = os.path.join(SPECS, "BatchingCollateTrace.tla")
CTRACE_CFG = os.path.join(SPECS, "BatchingCollateTrace.cfg")
DMOD = os.path.join(SPECS, "BatchingDir.tla")
DTRACE_MOD = os.path.join(SPECS, "BatchingDirTrace.tla")
DTRACE_CFG = os.path.join(SPECS, "BatchingDirTrace.cfg")
DISTMOD = os.path.join(SPECS, "BatchingDist.tla")
DISTTRACE_MOD = os.path.join(SPECS, "BatchingDistTrace.tla")
DISTTRACE_CFG = os.path.join(SPECS, "BatchingDistTrace.cfg")
DIST_ACTIONS = ["DoLConstruct", "DoBeginEpoch", "DoPull", "DoExhaust", "DoFlush", "DoFinish"]
DIR_ACTIONS = ["DoOpen", "DoWrite", "HFeed", "HEmitFull", "HEndFeed", "HFlush", "HFinish"]
BUCKET_ACTIONS = ["Feed", "DoEmitFull", "EndFeed", "DoFlush", "Finish"]
NFILT = 2


def run_design(ctx):
    t = ctx.tier
    jobs = [("Batching/direct", MOD, "Batching_direct_%s.cfg" % t, BUCKET_ACTIONS, 8),
            ("Batching/lengths", MOD, "Batching_lengths_%s.cfg" % t, BUCKET_ACTIONS, 8),
            ("BatchingCollate", CMOD, "BatchingCollate_%s.cfg" % t, ["Collate"], 8),
            ("BatchingDir", DMOD, "BatchingDir_%s.cfg" % t, DIR_ACTIONS, 8),
            # utterances without frames / tokens (bucket assignment + machine; collation)
            ("Batching/lengths0", MOD, "Batching_lengths0_%s.cfg" % t, BUCKET_ACTIONS, 2 if t == "quick" else 6),
            ("BatchingCollate/zero", CMOD, "BatchingCollate_zero_%s.cfg" % t, ["Collate"], 2 if t == "quick" else 6),
            # the loaders of the ranks of a torch.distributed job (DistLoader.tla reused, C14's clauses on top)
            ("BatchingDist", DISTMOD, "BatchingDist_%s.cfg" % t, DIST_ACTIONS, 6 if t == "quick" else 8)]
    results, errs = {}, []

    def job(name, mod, cfg, _actions, workers):
        try:
            results[name] = tlc.run(mod, os.path.join(SPECS, cfg), workers=workers, timeout=3000)
        except Exception as ex:
            errs.append(ex)

    threads = [threading.Thread(target=job, args=j) for j in jobs]
    for th in threads:
        th.start()
    for th in threads:
        th.join()
    if errs:
        raise errs[0]
    for name, _, _, actions, _ in jobs:
        tlc.require_ok(results[name], name)
        tlc.require_covered(results[name], actions, name)
        ctx.add_tlc(name, results[name])
    recs = []
    for name, _, _, _, _ in jobs:
        recs += results[name].records
    out = dict(case=[], done=[], collate=[], window=[], hist=[], job=[], distinfo=[], info=[])
    for r in recs:
        out[r["what"]].append(r)
    for k, v in out.items():
        if not v and k != "info":
            raise MachineryError("design runs exported no %r records" % k)
    return out


# ----------------------------------------------------------------------------- recording
class RecordingSampler:
    """Proxy around an index sampler: logs every index the batch sampler pulls and the moment the
    sampler is exhausted.  Everything else (epoch, get_samples_for_epoch, len) is forwarded."""

    def __init__(self, inner, events):
        object.__setattr__(self, "_inner", inner)
        object.__setattr__(self, "_events", events)

    def __iter__(self):
        it = iter(self._inner)
        events = self._events

        def gen():
            for x in it:
                events.append(("feed", int(x)))
                yield x
            events.append(("exhausted",))

        return gen()

    def __len__(self):
        return len(self._inner)

    def __getattr__(self, name):
        return getattr(object.__getattribute__(self, "_inner"), name)

    def __setattr__(self, name, value):
        setattr(self._inner, name, value)


def abstract_trace(tid, n, events, idx2bucket, bucket2size, drop, lens=None, nbreq=0, bsz=0, dyn=False,
                   keys=None):
    """events: [("feed", idx) | ("exhausted",) | ("yield", [idx...]) | ("stop", len or -1)] with REAL
    indices / bucket keys.  Renames indices to feed positions and bucket keys to 0..NB-1."""
    order = [e[1] for e in events if e[0] == "feed"]
    pos = {}
    for i in order:
        if i not in pos:
            pos[i] = len(pos)
    for i in sorted(idx2bucket):  # indices never fed come last
        if i not in pos:
            pos[i] = len(pos)
    real_at = dict((p, i) for i, p in pos.items())
    if keys is None:  # keys: the real bucket keys in the order of the abstract bucket numbers
        keys = sorted(bucket2size, key=lambda k: (str(type(k)), k))
    bnum = dict((k, j) for j, k in enumerate(keys))
    evs = []
    nfeed = 0
    for e in events:
        if e[0] == "feed":
            # a repeated index keeps its first position: TLC then sees a feed out of turn
            p = pos[e[1]] if order.index(e[1]) == nfeed else -1
            evs.append(dict(op="feed", a=p, items=[]))
            nfeed += 1
        elif e[0] == "exhausted":
            evs.append(dict(op="exhausted", a=0, items=[]))
        elif e[0] == "yield":
            evs.append(dict(op="yield", a=0, items=[pos.get(i, -1) for i in e[1]]))
        else:
            evs.append(dict(op="stop", a=int(e[1]), items=[]))
    npos = max(n, len(pos))
    i2b = [bnum[idx2bucket[real_at[p]]] if p in real_at else 0 for p in range(npos)]
    # ord: feed position -> real index (BatchingDirTrace reads the lengths off its own directory state)
    return dict(tid=tid, n=n, lens=[int(lens[real_at[p]]) for p in range(npos)] if lens is not None else [],
                nbreq=nbreq, bsz=bsz, dyn=bool(dyn), i2b=i2b, size=[int(bucket2size[k]) for k in keys],
                drop=bool(drop), events=evs, ord=[real_at[p] for p in range(npos) if p in real_at])


# ----------------------------------------------------------------------------- data directories
def val(u, j):
    return 100 * u + j


def feat_tensor(u, T):
    """(T, NFILT) float: frame t (1-based) of utterance u holds 10 * val(u, t) + f + 1"""
    t = torch.arange(1, T + 1).unsqueeze(1)
    f = torch.arange(1, NFILT + 1).unsqueeze(0)
    return (10 * (100 * u + t) + f).float()


def ali_tensor(u, T):
    return (100 * u + torch.arange(1, T + 1)).long()


def ref_tensor(u, R, two_d):
    v = (100 * u + torch.arange(1, R + 1)).long()
    if two_d:
        return torch.stack([v, v + 1000, v + 2000], -1)
    return v


def utt_name(i):
    return "u%02d" % i


def build_dir(root, Ts, Rs, with_ali=True, with_ref=True, two_d=False, prefix="", suffix=".pt"):
    """utterance i (0-based) gets id u = i + 1, Ts[i] frames, Rs[i] tokens"""
    os.makedirs(os.path.join(root, "feat"), exist_ok=True)
    if with_ali:
        os.makedirs(os.path.join(root, "ali"), exist_ok=True)
    if with_ref:
        os.makedirs(os.path.join(root, "ref"), exist_ok=True)
    for i, T in enumerate(Ts):
        fn = prefix + utt_name(i) + suffix
        torch.save(feat_tensor(i + 1, T), os.path.join(root, "feat", fn))
        if with_ali:
            torch.save(ali_tensor(i + 1, T), os.path.join(root, "ali", fn))
        if with_ref:
            torch.save(ref_tensor(i + 1, Rs[i], two_d), os.path.join(root, "ref", fn))
    return root


class HistDir:
    """ONE real directory path holding two renditions ("a", "b") of the same utterance ids, whose files
    the harness regenerates on request.  spect: rendition = feature sub-directory (feat/, feat_b/) of one
    SpectDataSet directory with a shared ref/; lang: rendition = file prefix (a_, b_) inside one
    LangDataSet directory.  Has the `get` of the C14 driver's DirPool (used by make_loader)."""

    def __init__(self, root, kind, n):
        self.root, self.kind, self.n = root, kind, n
        self.Rs_fixed = [1 + (i % 3) for i in range(n)]
        self.lens = {}
        self.current = None
        os.makedirs(os.path.join(root, "ref"), exist_ok=True)
        if kind == "spect":
            for i in range(n):
                torch.save(ref_tensor(i + 1, self.Rs_fixed[i], False), os.path.join(root, "ref", utt_name(i) + ".pt"))

    def extra(self, r):
        """the data-set keyword arguments that select rendition r"""
        if self.kind == "spect":
            return dict(feat_subdir="feat" if r == "a" else "feat_b")
        return dict(file_prefix=r + "_")

    def write(self, r, lens):
        """(re)generate the files of rendition r: utterance i gets lens[i] frames / tokens"""
        assert len(lens) == self.n
        self.lens[r] = [int(x) for x in lens]
        if self.kind == "spect":
            d = os.path.join(self.root, self.extra(r)["feat_subdir"])
            os.makedirs(d, exist_ok=True)
            for i, T in enumerate(lens):
                torch.save(feat_tensor(i + 1, T), os.path.join(d, utt_name(i) + ".pt"))
        else:
            for i, R in enumerate(lens):
                torch.save(ref_tensor(i + 1, R, False), os.path.join(self.root, "ref", r + "_" + utt_name(i) + ".pt"))

    def get(self, lens, variant):
        if list(lens) != self.lens[self.current]:
            raise MachineryError("history directory: rendition %r holds %r, the caller expects %r" % (
                self.current, self.lens[self.current], lens))
        return self.root, (list(self.lens[self.current]) if self.kind == "lang" else list(self.Rs_fixed))


# ----------------------------------------------------------------------------- projection
def _pad_idx():
    from pydrobert.torch import config

    return config.INDEX_PAD_VALUE


def proj_frame(x):
    """x: (F,) float -> abstract value (0 = padding, -1 = not a legal frame)"""
    x = x.tolist()
    if all(v == 0 for v in x):
        return 0
    vs = set()
    for f, v in enumerate(x):
        w = v - (f + 1)
        if w != int(w) or int(w) % 10:
            return -1
        vs.add(int(w) // 10)
    return vs.pop() if len(vs) == 1 else -1


def proj_idx(v, pad):
    v = int(v)
    return 0 if v == pad else (v if v > 0 else -1)


def proj_tok(x, pad):
    """x: scalar or (3,) long"""
    if x.dim() == 0:
        return proj_idx(x, pad)
    a, s, e = (int(q) for q in x.tolist())
    if a == pad and s == pad and e == pad:
        return 0
    return a if (a > 0 and s == a + 1000 and e == a + 2000) else -1


def rows_first(t, batch_first):
    return t if batch_first else t.transpose(0, 1)


def project_spect(batch, batch_first, has_alis, has_uttids, names=None, hint_ids=None):
    """tuple from spect_seq_to_batch / SpectDataLoader -> abstract `out` record (BatchingCollate.Out)"""
    pad = _pad_idx()
    batch = list(batch)
    feats = batch.pop(0)
    alis = batch.pop(0) if has_alis else None
    refs, fsz, rsz = batch[:3]
    uttids = batch[3] if has_uttids else None
    feats = rows_first(feats, batch_first)
    N = feats.size(0)
    frows = [[proj_frame(feats[a, t]) for t in range(feats.size(1))] for a in range(N)]
    if uttids is not None:
        ids = [names[u] for u in uttids]
    else:
        ids = [(r[0] // 100) if r and r[0] > 0 else None for r in frows]
    out = dict(ids=ids, fsz=[int(x) for x in fsz], feats=frows, hasali=alis is not None, alis=[],
               hasref=refs is not None, rsz=[], refs=[])
    if alis is not None:
        alis = rows_first(alis, batch_first)
        out["alis"] = [[proj_idx(alis[a, t], pad) for t in range(alis.size(1))] for a in range(N)]
    if refs is not None:
        refs = rows_first(refs, batch_first)
        out["rsz"] = [int(x) for x in rsz]
        out["refs"] = [[proj_tok(refs[a, r], pad) for r in range(refs.size(1))] for a in range(N)]
    if uttids is None:
        # a row without frames carries no provenance in its features: read it off the row's reference, and when
        # that is empty / absent too fill from the ids known to be in the batch (as project_lang does)
        for a in range(N):
            if ids[a] is None and out["refs"] and out["refs"][a] and out["refs"][a][0] > 0:
                ids[a] = out["refs"][a][0] // 100
        if hint_ids is not None:
            rest = [u for u in hint_ids if u not in ids]
            ids = [u if u is not None else (rest.pop(0) if rest else -1) for u in ids]
        out["ids"] = [-1 if u is None else u for u in ids]
    return out


def project_lang(batch, batch_first, has_uttids, names=None, hint_ids=None):
    pad = _pad_idx()
    refs, rsz = batch[0], batch[1]
    refs = rows_first(refs, batch_first)
    N = refs.size(0)
    rrows = [[proj_tok(refs[a, r], pad) for r in range(refs.size(1))] for a in range(N)]
    if has_uttids:
        ids = [names[u] for u in batch[2]]
    else:
        # an empty transcript carries no provenance: fill from the ids known to be in the batch
        ids = [(r[0] // 100) if r and r[0] > 0 else None for r in rrows]
        if hint_ids is not None:
            rest = [u for u in hint_ids if u not in ids]
            ids = [u if u is not None else (rest.pop(0) if rest else -1) for u in ids]
        ids = [-1 if u is None else u for u in ids]
    return dict(ids=ids, rsz=[int(x) for x in rsz], refs=rrows)


def project_window(batch, has_uttids, names=None, ids=None, sizes=None):
    pad = _pad_idx()
    wins, alis = batch[0], batch[1]
    out = dict(wins=[[proj_frame(wins[w, c]) for c in range(wins.size(1))] for w in range(wins.size(0))],
               hasali=alis is not None,
               alis=[proj_idx(a, pad) for a in alis] if alis is not None else [])
    if has_uttids:
        out["wsz"] = [int(x) for x in batch[2]]
        out["ids"] = [names[u] for u in batch[3]]
    else:
        # no sizes / ids are returned: the caller's are used for the split (stated in the trace)
        out["wsz"] = list(sizes)
        out["ids"] = list(ids)
    return out


def quiet(fn, *a, **kw):
    with warnings.catch_warnings():
        warnings.simplefilter("ignore")
        return fn(*a, **kw)
