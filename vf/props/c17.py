"""C17 -- command-line conversions invert each other and ignore the worker count.

spec -> code.  specs/Commands.tla composes TranscriptsOps (trn syntax, frame formulas), EditDistance
(all alignments) and WorkerPool (Take/Finish/Deliver) into a model of the console entry points of
pydrobert.torch.command_line: for every corpus / option case it defines the files each command
must produce (names prefix+utt+suffix, selection by prefix AND suffix) or the figures it must
print, and TLC checks -- for every interleaving of the pool -- that directory and totals at the end
are the declaratively defined ones, that names never collide, that the inverse commands compose to
the identity (times within one frame) and that batching does not change the error totals.  Every
exported case drives the real entry points IN-PROCESS (python functions with argument lists) on a
temporary directory: with --num-workers 0, and with vf/doubles/fakepool.py replaying behaviours of
WorkerPool.tla (all behaviours, up to what an in-process fake can distinguish, on the larger
corpora); thorough tier: real spawn pools as well.

Family "subrun": subset-torch-spect-data-dir run two or three times into the SAME destination while a source
directory is re-generated (in place / removed and re-written) or another source with the same utterance ids is
subset.  Commands.tla keeps the destination as state (entries: copy / symlink / hard link over a small inode
model), lets every run handle its utterances in any order and checks that after every run that is not refused
the requested files read as the source does now and nothing unrequested is there; os.link / os.symlink refusing
an existing name is the explicit outcome "raises".  The exported histories are replayed run by run; a writer
that leaves existing files alone (SubRunFault) must be rejected by TLC.

Literal names and the order of ids.  A naming of Commands.tla is prefix, suffix, the ids of the corpus and the name
of the directory the data live in, all sequences of characters.  GlobNamings put [ ] * ? into prefix, suffix and
directory (every conversion command is replayed on them, with a file in the input directory that only a reading of
prefix*suffix as a shell pattern would select); IdNamings hold ids whose order differs from the order of their file
names (r < r-a < r0 but r-a.pt < r.pt < r0.pt): the subset criteria are defined over the order of the IDS (SubOK:
every chosen id is smaller / greater as a string than every id left behind) and the error-rate command is modelled
with incomplete directories under --warn-missing -- two listings ascending by id walked in step (ErMerge) keep exactly
the utterances in both directories (ErMergeOK), over which the totals are taken.  Two deliberately wrong definitions
(CommandsMC: SelectsGlob, ListKeyFileName) must be rejected by TLC (Naming; SubOK and ErMergeOK).

Line order of a ctm file and the integer ids of the error-rate command.  A ctm case holds its input FILE as a sequence
of lines (utterances grouped, interleaved, backwards, all lines by start time -- with the maps of --wc2utt / --utt2wc
sending the two channels of one recording to two utterances); its meaning "utterance -> segments sorted by start" does
not depend on that order (CtmOrderFree: the exported file and, for files of up to four lines, every permutation of the
lines); the file is written as given and ctm -> directory -> ctm is replayed on the directory the first command
really made.  The error-rate figures do not depend on the integer ids the tokens are stored under (ErIdFree, id
tables with -1, -2, -3): tiny corpora x every option x every id table are run with and without --id2token."""
import contextlib
import io
import json
import math
import os
import shutil
import sys
import warnings

from ..harness import main, MachineryError
from ..doubles import fakepool
from .. import SPECS, tlc
from . import _tr

PROP = "C17"
CM_MOD = os.path.join(SPECS, "CommandsMC.tla")
FAMS = ["ali", "trn", "ctm", "tg", "er", "sub", "subrun", "mom", "momr"]
if os.environ.get("VF_C17_FAMS"):  # debugging aid only: restrict the run to some families
    FAMS = [f for f in FAMS if f in os.environ["VF_C17_FAMS"].split(",")]
POOL_FAMS = {"ali", "trn", "ctm", "tg", "sub", "subrun", "mom", "momr"}
NO_INTERLEAVE = {"subrun"}  # (its per-item work is that of "sub")
IDS = {0: 11, 1: 4, 2: 7, 3: 23}  # abstract token -> integer id (0 = the unknown symbol)
UNK = "<unk>"
TG_SUFFIXES = [".TextGrid", ".tg"]


def J(chars):
    return "".join(chars)


def _cl():
    from pydrobert.torch import command_line

    return command_line


class CommandFailed(Exception):
    pass


class CommandRaised(Exception):
    """the command raised an exception the caller declared as a modelled outcome"""


class Env:
    """one exported case on one scratch directory, under one worker mode"""

    def __init__(self, ctx, rec, idx, mode, schedules, pool_cls=fakepool.FakePool):
        self.ctx, self.rec, self.idx, self.mode, self.schedules = ctx, rec, idx, mode, schedules
        self.pool_cls = pool_cls
        self.base = os.path.join(_tr.fast_scratch(ctx, "c17"), "case")
        shutil.rmtree(self.base, ignore_errors=True)
        # (the naming's directory: every directory of the case lives in it; its name is part of the case)
        self.dir = J(rec.get("dir", []))
        self.root = os.path.join(self.base, self.dir) if self.dir else self.base
        os.makedirs(self.root)
        self.tt = _tr.TOKEN_TABLES[idx % len(_tr.TOKEN_TABLES)]
        self.pre, self.suf = J(rec["pre"]), J(rec["suf"])
        self.names = [J(x) for x in rec["names"]]
        self.utts = [J(x) for x in rec["utts"]]
        self.distractors = [J(x) for x in rec["distractors"]]
        self.plans = []
        # the spec's order of strings (CodeTable) must be python's
        for key, strs in (("idorder", self.utts), ("fileorder", self.names)):
            if key in rec and [strs[i - 1] for i in rec[key]] != sorted(strs):
                raise MachineryError("Commands.tla orders %r as %r; python sorts them as %r"
                                     % (strs, [strs[i - 1] for i in rec[key]], sorted(strs)))

    def p(self, *a):
        return os.path.join(self.root, *a)

    def case(self, **kw):
        d = dict(fam=self.rec["fam"], rec=self.rec, idx=self.idx, mode=list(self.mode))
        d.update(kw)
        return d

    def naming_args(self):
        return ["--file-prefix", self.pre, "--file-suffix", self.suf]

    def worker_args(self, chunk=True):
        m = self.mode
        if m[0] == "serial":
            return ["--num-workers", "0"]
        a = ["--num-workers", str(m[1])]
        if chunk:
            a += ["--mp-chunk-size", str(m[2])]
        return a

    def violation(self, site, kind, detail, **extra):
        sig = dict(site=site, kind=kind)
        sig.update({k: v for k, v in extra.items() if k in ("cls",)})
        self.ctx.violation(sig, detail, self.case(site=site))

    def run(self, site, fn, args, uses_pool=True, allow=()):
        """call a console entry point in-process.  Returns (stdout, stderr).  Raises CommandFailed
        after reporting when the command raises / exits non-zero; an exception of a class in `allow` is an
        outcome the specification models: CommandRaised, nothing reported."""
        args = [str(a) for a in args]
        out, err = io.StringIO(), io.StringIO()
        plan = None
        cm = contextlib.nullcontext()
        if self.mode[0] == "fake" and uses_pool:
            plan = fakepool.Plan(self.schedules, self.mode[3])
            if _RECORD is not None:
                from ..doubles.fsrecorder import FsRecorder

                plan.recorder = FsRecorder(self.root)
                _RECORD.append((site, plan))
            cm = fakepool.installed(plan, self.pool_cls)
        try:
            with warnings.catch_warnings():
                warnings.simplefilter("ignore")
                with cm, contextlib.redirect_stdout(out), contextlib.redirect_stderr(err):
                    rc = fn(args)
        except fakepool.FakePoolError as ex:
            raise MachineryError("FakePool: %s" % ex)
        except Exception as ex:
            if allow and isinstance(ex, tuple(allow)):
                raise CommandRaised(type(ex).__name__)
            cls = type(ex).__name__
            if isinstance(ex, ZeroDivisionError):
                cls = "ZeroDivisionError"
            self.violation(site, "exception", "%s(%s) raised %r" % (site, " ".join(args), ex), cls=cls)
            raise CommandFailed()
        if plan is not None:
            self.plans.append(plan)
            for c in plan.calls:
                self.ctx.count("pool_calls_" + c["method"])
                if c["context"] != "spawn":
                    self.ctx.count("informational_pool_context_" + str(c["context"]))
        if rc == 2:
            raise MachineryError("%s rejected its arguments %r: %s" % (site, args, err.getvalue()[-500:]))
        if rc not in (0, None):
            self.violation(site, "exit_code", "%s(%s) returned %r: %s" % (site, " ".join(args), rc, err.getvalue()[-300:]))
            raise CommandFailed()
        return out.getvalue(), err.getvalue()


def _save(path, value):
    import torch

    torch.save(value, path)


def _load_dir(d):
    import torch

    out = {}
    if not os.path.isdir(d):
        return out
    for f in sorted(os.listdir(d)):
        out[f] = torch.load(os.path.join(d, f)).tolist()
    return out


def compare_dir(env, site, got, want, what="file"):
    """got / want: dict name -> content.  Missing, extra and wrong files are different findings."""
    missing = sorted(set(want) - set(got))
    extra = sorted(set(got) - set(want))
    ok = True
    if missing:
        cls = "nothing_converted" if not got else "some_missing"
        if cls == "nothing_converted" and any(c in env.pre + env.suf + env.dir for c in "[]*?"):
            cls = "nothing_converted_pattern_characters"  # (prefix / suffix / directory are literal strings)
        elif cls == "nothing_converted" and env.pre:
            cls = "nothing_converted_with_prefix"
        env.violation(site, "files_missing", "%s: %ss %r were not produced (produced: %r; prefix %r suffix %r directory %r)"
                      % (site, what, missing, sorted(got), env.pre, env.suf, env.dir), cls=cls)
        ok = False
    if extra:
        cls = "other"
        if all(x in env.distractors for x in extra):
            cls = "unselected_file_converted"
        env.violation(site, "files_extra", "%s: unexpected %ss %r (prefix %r suffix %r; files that must not be "
                      "selected: %r)" % (site, what, extra, env.pre, env.suf, env.distractors), cls=cls)
        ok = False
    for k in sorted(set(got) & set(want)):
        if got[k] != want[k]:
            reordered = (isinstance(got[k], list) and isinstance(want[k], list) and
                         sorted(map(repr, got[k])) == sorted(map(repr, want[k])))
            env.violation(site, "order" if reordered else "value",
                          "%s: %s %r holds %r, expected %r" % (site, what, k, got[k], want[k]),
                          **(dict(cls="entries_reordered") if reordered else {}))
            ok = False
            break
    return ok


def write_token_map(env, with_unk, oov=True):
    """token2id file (token id per line); tokens 1, 2 (and the unknown symbol) -- token 3 is not in it"""
    path = env.p("token2id.txt")
    with open(path, "w") as f:
        for t in (1, 2):
            f.write("%s %d\n" % (env.tt[t], IDS[t]))
        if with_unk:
            f.write("%s %d\n" % (UNK, IDS[0]))
    return path


def tok_name(env, t):
    return UNK if t == 0 else env.tt[t]


# =============================================================================================
# ali <-> ref
def fam_ali(env):
    import torch

    cl, rec = _cl(), env.rec
    ali_dir = env.p("ali")
    os.makedirs(ali_dir)
    ids = lambda seq: [IDS[t] for t in seq]
    for nm, a in zip(env.names, rec["data"]):
        _save(os.path.join(ali_dir, nm), torch.tensor(ids(a)))
    for dn in env.distractors:
        _save(os.path.join(ali_dir, dn), torch.tensor(ids(rec["distractor"])))
    want_ref = {nm: [[IDS[r[0]], r[1], r[2]] for r in rows] for nm, rows in zip(env.names, rec["ref"])}
    want_ali = {nm: ids(a) for nm, a in zip(env.names, rec["data"])}
    obs = {}
    s1 = "torch-ali-data-dir-to-torch-token-data-dir"
    try:
        env.run(s1, cl.torch_ali_data_dir_to_torch_token_data_dir,
                [ali_dir, env.p("ref")] + env.naming_args() + env.worker_args())
        obs["ref"] = _load_dir(env.p("ref"))
        compare_dir(env, s1, obs["ref"], want_ref)
    except CommandFailed:
        pass
    # the inverse, from the directory the specification prescribes (plus files that must be left alone)
    ref_dir = env.p("ref_spec")
    os.makedirs(ref_dir)
    for nm, rows in want_ref.items():
        _save(os.path.join(ref_dir, nm), torch.tensor(rows))
    for dn in env.distractors:
        _save(os.path.join(ref_dir, dn), torch.tensor([[IDS[r[0]], r[1], r[2]] for r in rec["distractor_ref"]]))
    s2 = "torch-token-data-dir-to-torch-ali-data-dir"
    extra = []
    if env.idx % 3 == 0:  # with the optional length check against features
        feat_dir = env.p("feat")
        os.makedirs(feat_dir)
        for nm, a in zip(env.names, rec["data"]):
            _save(os.path.join(feat_dir, nm), torch.zeros(len(a), 2))
        for dn in env.distractors:
            _save(os.path.join(feat_dir, dn), torch.zeros(len(rec["distractor"]), 2))
        extra = ["--feat-dir", feat_dir]
    try:
        env.run(s2, cl.torch_token_data_dir_to_torch_ali_data_dir,
                [ref_dir, env.p("ali2")] + extra + env.naming_args() + env.worker_args())
        obs["ali2"] = _load_dir(env.p("ali2"))
        compare_dir(env, s2, obs["ali2"], want_ali)
    except CommandFailed:
        pass
    # composition on the real intermediate directory (only meaningful if the first step was right)
    if obs.get("ref") == want_ref:
        try:
            env.run(s2, cl.torch_token_data_dir_to_torch_ali_data_dir,
                    [env.p("ref"), env.p("ali3")] + env.naming_args() + env.worker_args())
            obs["ali3"] = _load_dir(env.p("ali3"))
            if obs["ali3"] != want_ali:
                env.violation("ali->ref->ali", "roundtrip", "alignments %r came back as %r" % (want_ali, obs["ali3"]))
        except CommandFailed:
            pass
    return obs


# =============================================================================================
# trn <-> token dir
def _map_content(content, sizing):
    if sizing == "skip":
        return [IDS[t] for t in content]
    return [[IDS[r[0]]] + list(r[1:]) for r in content]


def fam_trn(env):
    import torch

    cl, rec, data = _cl(), env.rec, __import__("pydrobert.torch.data", fromlist=["x"])
    trn = env.p("in.trn")
    with open(trn, "w") as f:
        for u, lex in zip(env.utts, rec["lex"]):
            f.write(_tr.trn_line_text(lex, u, env.tt))
    t2i = write_token_map(env, rec["unk"])
    args = [trn, t2i, env.p("dir")] + env.naming_args() + env.worker_args()
    if rec["first"]:
        args += ["--alt-handler", "first"]
    if rec["unk"]:
        args += ["--unk-symbol", UNK]
    if rec["sizing"] == "skip":
        args += ["--skip-frame-times"]
    elif rec["sizing"] == "feat":
        args += ["--feat-sizing"]
    want = {nm: _map_content(c, rec["sizing"]) for nm, c in zip(env.names, rec["content"])}
    obs = {}
    s1 = "trn-to-torch-token-data-dir"
    try:
        env.run(s1, cl.trn_to_torch_token_data_dir, args)
        obs["dir"] = _load_dir(env.p("dir"))
        compare_dir(env, s1, obs["dir"], want)
    except CommandFailed:
        pass
    # back, from the prescribed directory plus unselected files
    d2 = env.p("dir_spec")
    os.makedirs(d2)
    shape = {"skip": (0,), "feat": (0, 1), "none": (0, 3)}[rec["sizing"]]
    for nm, c in want.items():
        _save(os.path.join(d2, nm), torch.tensor(c, dtype=torch.long).reshape(shape) if not c else torch.tensor(c))
    for dn in env.distractors:
        _save(os.path.join(d2, dn), torch.tensor(_map_content([1] if rec["sizing"] == "skip" else
                                                             ([[1]] if rec["sizing"] == "feat" else [[1, -1, -1]]), rec["sizing"])))
    t2i_all = write_token_map(env, True)  # ids of out-of-vocabulary tokens read back as the unknown symbol
    s2 = "torch-token-data-dir-to-trn"
    nw = ["--num-workers", "0"] if env.mode[0] != "real" else ["--num-workers", str(env.mode[1])]
    try:
        env.run(s2, cl.torch_token_data_dir_to_trn, [d2, t2i_all, env.p("out.trn"), "--swap"] + env.naming_args() + nw,
                uses_pool=False)
        got = dict(data.read_trn(env.p("out.trn"), warn=False))
        obs["trn"] = got
        want_trn = {u: [tok_name(env, t) for t in toks] for u, toks in zip(env.utts, rec["toks"])}
        compare_dir(env, s2, got, want_trn, what="utterance")
    except CommandFailed:
        pass
    return obs


# =============================================================================================
# ctm <-> token dir
def _ctm_maps(env):
    """concrete waveform/channel of every utterance for the case's map kind"""
    kind = env.rec["kind"]
    wt = _tr.WAVE_TABLES[env.idx % 2]
    if kind == "default":
        return {u: (u, "A") for u in env.utts}
    if kind == "chan":
        return {u: (u, "B") for u in env.utts}
    return {u: (wt[(j // 2) % len(wt)], "AB"[j % 2]) for j, u in enumerate(env.utts)}


def _within(back_ms, tr, shift):
    return (len(back_ms) == len(tr) and
            all(b[0] == x["tok"] and abs(b[1] - x["s"]) <= shift + 1e-6 and abs(b[2] - (x["s"] + x["d"])) <= shift + 1e-6
                for b, x in zip(back_ms, tr)))


def fam_ctm(env):
    import torch

    cl, rec, data = _cl(), env.rec, __import__("pydrobert.torch.data", fromlist=["x"])
    wc = _ctm_maps(env)
    kind, shift = rec["kind"], rec["shift"]
    ctm = env.p("in.ctm")
    with open(ctm, "w") as f:  # the LINES of the specification's file, in its order (utterances need not be grouped)
        for ln in rec.get("file") or [dict(u=i + 1, x=x) for i, tr in enumerate(rec["data"]) for x in tr]:  # (cases saved earlier: grouped)
            u, x = env.utts[ln["u"] - 1], ln["x"]
            f.write("%s %s %s %s %s\n" % (wc[u][0], wc[u][1], repr(x["s"] / 1000.0), repr(x["d"] / 1000.0), env.tt[x["tok"]]))
    t2i = write_token_map(env, False)
    margs = []
    if kind in ("wc2utt", "utt2wc"):
        mp = env.p(kind + ".txt")
        with open(mp, "w") as f:
            for u in env.utts:
                f.write(("%s %s %s\n" % (wc[u][0], wc[u][1], u)) if kind == "wc2utt" else ("%s %s %s\n" % (u, wc[u][0], wc[u][1])))
        margs = ["--" + kind, mp]
    want = {nm: [[IDS[r[0]], r[1], r[2]] for r in rows] for nm, rows in zip(env.names, rec["rows"])}
    obs = {}
    s1 = "ctm-to-torch-token-data-dir"
    before = len(env.ctx.violations) + sum(env.ctx.known_hits.values())
    try:
        env.run(s1, cl.ctm_to_torch_token_data_dir,
                [ctm, t2i, env.p("dir"), "--frame-shift-ms", shift] + margs + env.naming_args() + env.worker_args())
        obs["dir"] = _load_dir(env.p("dir"))
        if obs["dir"] != want and set(obs["dir"]) == set(want) and all(
                _within([(r[0], r[1] * shift, r[2] * shift) for r in obs["dir"][nm]],
                        [dict(x, tok=IDS[x["tok"]]) for x in srt], shift) for nm, srt in zip(env.names, rec["sorted"])):
            env.ctx.count("informational_ctm_frames_differ_from_documented_formula")  # still within one frame
        else:
            compare_dir(env, s1, obs["dir"], want)
    except CommandFailed:
        pass
    d2 = env.p("dir_spec")
    os.makedirs(d2)
    for nm, rows in want.items():
        _save(os.path.join(d2, nm), torch.tensor(rows))
    for dn in env.distractors:
        _save(os.path.join(d2, dn), torch.tensor([[IDS[1], 0, 1]]))
    s2 = "torch-token-data-dir-to-ctm"
    bargs = list(margs) if margs else (["--channel", "B"] if kind == "chan" else [])
    # the composition ctm -> directory -> ctm on the directory the first command really made (if nothing was found
    # wrong with it above): every utterance comes back with its segments, times within one frame
    if "dir" in obs and len(env.ctx.violations) + sum(env.ctx.known_hits.values()) == before:
        try:
            env.run(s2, cl.torch_token_data_dir_to_ctm,
                    [env.p("dir"), t2i, env.p("rt.ctm"), "--swap", "--frame-shift-ms", shift] + bargs + env.naming_args(),
                    uses_pool=False)
            inv = {v: k for k, v in wc.items()}
            got = dict(data.read_ctm(env.p("rt.ctm"), inv if kind in ("wc2utt", "utt2wc") else None))
            tinv = _tr.inv_table(env.tt)
            with open(ctm) as f:
                written = f.read()
            for u, srt, ordered in zip(env.utts, rec["sorted"], rec["ordered"]):
                g = [(tinv.get(x[0]), x[1] * 1000.0, x[2] * 1000.0) for x in got.get(u, [])]
                if not ordered and len(g) == len(srt):
                    continue
                if not _within(g, srt, shift):
                    env.violation("ctm->dir->ctm", "roundtrip_segments" if len(g) != len(srt) else "roundtrip_beyond_one_frame",
                                  "utterance %r: the ctm file %r (map %s) holds the segments %r for it; after ctm -> token "
                                  "directory -> ctm it has %r (ms), frame shift %r ms" % (u, written, kind, srt, g, shift),
                                  **(dict(cls="lines_not_grouped") if rec.get("scattered") else {}))
                    break
        except CommandFailed:
            pass
    try:
        env.run(s2, cl.torch_token_data_dir_to_ctm,
                [d2, t2i, env.p("out.ctm"), "--swap", "--frame-shift-ms", shift] + bargs + env.naming_args(), uses_pool=False)
        with open(env.p("out.ctm")) as f:
            text = f.read()
        obs["ctm"] = text
        chans = {ln.split()[1] for ln in text.splitlines() if ln.strip()}
        want_ch = {wc[u][1] for u, tr in zip(env.utts, rec["data"]) if tr}
        inv = {v: k for k, v in wc.items()}
        got = dict(data.read_ctm(env.p("out.ctm"), inv if kind in ("wc2utt", "utt2wc") else None))
        tinv = _tr.inv_table(env.tt)
        if set(got) != set(env.utts):
            env.violation(s2, "utterances", "ctm lists utterances %r, expected %r" % (sorted(got), env.utts))
        elif chans != want_ch:
            env.violation(s2, "channel", "ctm uses channels %r, expected %r" % (sorted(chans), sorted(want_ch)))
        else:
            for u, srt, bk, ordered in zip(env.utts, rec["sorted"], rec["back"], rec["ordered"]):
                g = [(tinv.get(x[0]), x[1] * 1000.0, x[2] * 1000.0) for x in got[u]]
                if not ordered:  # several tokens inside one frame: their order in the ctm is not determined
                    env.ctx.count("informational_ctm_tokens_share_a_frame_order_not_judged")
                    continue
                if not _within(g, srt, shift):
                    env.violation("ctm->dir->ctm", "roundtrip_beyond_one_frame",
                                  "utterance %r: written %r, came back as %r (ms), frame shift %r ms" % (u, srt, g, shift))
                    break
                if any(abs(a[1] - b[1]) > 1e-6 or abs(a[2] - b[2]) > 1e-6 for a, b in zip(g, bk)):
                    env.ctx.count("informational_ctm_times_differ_from_documented_formula")
    except CommandFailed:
        pass
    return obs


# =============================================================================================
# TextGrid dir <-> token dir
def fam_tg(env):
    import torch

    cl, rec, data = _cl(), env.rec, __import__("pydrobert.torch.data", fromlist=["x"])
    shift = rec["shift"]
    tgs = TG_SUFFIXES[env.idx % 2]
    tier = [None, "phones"][(env.idx // 2) % 2]
    tg_dir = env.p("tg")
    os.makedirs(tg_dir)

    def write(path, tr, kind):
        with open(path, "w") as f:
            kw = dict(point_tier=(kind == "point"), precision=3)
            if tier:
                kw["tier_name"] = tier
            data.write_textgrid([(env.tt[x["tok"]], x["s"] / 1000.0, (x["s"] + x["d"]) / 1000.0) for x in tr], f, **kw)

    for u, tr, kind in zip(env.utts, rec["data"], rec["tier"]):
        write(os.path.join(tg_dir, env.pre + u + tgs), tr, kind)
    # files that must not be selected: wrong prefix / wrong TextGrid suffix
    others = []
    if env.pre:
        others.append("q" + env.utts[0] + tgs)
    others.append(env.pre + "zz" + tgs + ".bak")
    for o in others:
        write(os.path.join(tg_dir, o), rec["data"][0], rec["tier"][0])
    t2i = write_token_map(env, False)
    targs = ["--textgrid-suffix", tgs] + (["--tier-name", tier] if tier else [])
    want = {nm: [[IDS[r[0]], r[1], r[2]] for r in rows] for nm, rows in zip(env.names, rec["rows"])}
    obs = {}
    s1 = "textgrids-to-torch-token-data-dir"
    try:
        env.run(s1, cl.textgrids_to_torch_token_data_dir,
                [tg_dir, t2i, env.p("dir"), "--frame-shift-ms", shift] + targs + env.naming_args() + env.worker_args())
        obs["dir"] = _load_dir(env.p("dir"))
        if obs["dir"] != want and set(obs["dir"]) == set(want) and all(
                _within([(r[0], r[1] * shift, r[2] * shift) for r in obs["dir"][nm]],
                        [dict(x, tok=IDS[x["tok"]]) for x in tr], shift) for nm, tr in zip(env.names, rec["data"])):
            env.ctx.count("informational_tg_frames_differ_from_documented_formula")
        else:
            compare_dir(env, s1, obs["dir"], want)
    except CommandFailed:
        pass
    d2 = env.p("dir_spec")
    os.makedirs(d2)
    for nm, rows in want.items():
        _save(os.path.join(d2, nm), torch.tensor(rows))
    for dn in env.distractors:
        _save(os.path.join(d2, dn), torch.tensor([[IDS[1], 0, 1]]))
    s2 = "torch-token-data-dir-to-textgrids"
    largs = ["--infer"]
    if env.idx % 3 == 1:
        feat_dir = env.p("feat")
        os.makedirs(feat_dir)
        for nm, rows in list(want.items()) + [(dn, [[0, 0, 1]]) for dn in env.distractors]:
            _save(os.path.join(feat_dir, nm), torch.zeros(max(r[2] for r in rows) + 2, 3))
        largs = ["--feat-dir", feat_dir]
    try:
        env.run(s2, cl.torch_token_data_dir_to_textgrids,
                [d2, t2i, env.p("tg2"), "--swap", "--frame-shift-ms", shift, "--precision", 4] + largs + targs
                + env.naming_args() + env.worker_args())
        got_files = sorted(os.listdir(env.p("tg2"))) if os.path.isdir(env.p("tg2")) else []
        want_files = {env.pre + u + tgs: u for u in env.utts}
        obs["tg2"] = {}
        tinv = _tr.inv_table(env.tt)
        if compare_dir(env, s2, {f: 0 for f in got_files}, {f: 0 for f in want_files}):
            for (fn, u), tr, bk, kind in zip(sorted(want_files.items(), key=lambda kv: env.utts.index(kv[1])),
                                             rec["data"], rec["back"], rec["tier"]):
                got, _, _ = data.read_textgrid(os.path.join(env.p("tg2"), fn), tier if tier else 0)
                with open(os.path.join(env.p("tg2"), fn)) as f:
                    obs["tg2"][fn] = f.read()
                # (chronological order restored here: what is judged is the command's file, not the order in
                # which read_textgrid lists its entries -- that is C11's business)
                g = sorted([(tinv.get(x[0]), x[1] * 1000.0, x[2] * 1000.0) for x in got], key=lambda x: (x[1], x[2]))
                if not _within(g, tr, shift):
                    env.violation("textgrids->dir->textgrids", "roundtrip_beyond_one_frame",
                                  "utterance %r (%s tier): written %r, came back as %r (ms), frame shift %r ms"
                                  % (u, kind, tr, g, shift))
                    break
                if any(abs(a[1] - b[1]) > 1e-6 or abs(a[2] - b[2]) > 1e-6 for a, b in zip(g, bk)):
                    env.ctx.count("informational_tg_times_differ_from_documented_formula")
    except CommandFailed:
        pass
    return obs


# =============================================================================================
# error rates
def fam_er(env):
    import torch

    cl, rec = _cl(), env.rec
    if not rec["defined"]:
        env.ctx.count("er_undefined_figure_not_run")
        return {}
    ids = dict(zip((1, 2), rec.get("ids") or (IDS[1], IDS[2])))  # the integer ids the abstract tokens are stored under (may be negative)
    i2t = rec.get("i2t", False)
    name = (lambda t: env.tt[t]) if i2t else (lambda t: str(ids[t]))  # how the replace / ignore lists name a token
    present = {"ref": rec.get("inref") or [True] * len(env.names), "hyp": rec.get("inhyp") or [True] * len(env.names)}
    kept = [env.utts[i - 1] for i in rec["kept"]] if "kept" in rec else list(env.utts)  # in both directories
    for sub, k in (("ref", 0), ("hyp", 1)):
        os.makedirs(env.p(sub))
        for nm, pair, there in zip(env.names, rec["data"], present[sub]):
            if not there:
                continue
            seq = pair[k]
            t = torch.tensor([ids[x] for x in seq], dtype=torch.long)
            if env.idx % 2:  # (R, 3) tensors with segment times are accepted too
                t = torch.stack([t, torch.arange(len(seq)), torch.arange(len(seq)) + 1], -1) if len(seq) else t.reshape(0, 3)
            _save(os.path.join(env.p(sub), nm), t)
        for dn in env.distractors[:1 + k]:
            _save(os.path.join(env.p(sub), dn), torch.tensor([ids[1], ids[2]]))
    args = [env.p("ref"), env.p("hyp"), env.p("out.txt"), "--quiet", "--batch-size", rec["bs"]] + env.naming_args()
    if i2t:
        with open(env.p("id2token.txt"), "w") as f:
            for t in (1, 2):
                f.write("%d %s\n" % (ids[t], env.tt[t]))
        args += ["--id2token", env.p("id2token.txt")]
    c = rec["costs"]
    args += ["--nist-costs"] if (c == [3, 3, 4] and env.idx % 2) else ["--costs", c[0], c[1], c[2]]
    if rec["rep"]:
        with open(env.p("replace.txt"), "w") as f:
            f.write("%s %s\n" % (name(rec["rep"][0]), name(rec["rep"][1])))
        args += ["--replace", env.p("replace.txt")]
    if rec["ign"]:
        with open(env.p("ignore.txt"), "w") as f:
            f.write(" ".join(name(x) for x in rec["ign"]) + "\n")
        args += ["--ignore", env.p("ignore.txt")]
    if rec["dist"]:
        args += ["--distances"]
    if rec["perutt"]:
        args += ["--per-utt"]
    if rec.get("warn"):
        args += ["--warn-missing"]
    incomplete = sorted(u for u in env.utts if u not in kept)
    site = "compute-torch-token-data-dir-error-rates"
    try:
        env.run(site, cl.compute_torch_token_data_dir_error_rates, args, uses_pool=False)
    except CommandFailed:
        return {}
    with open(env.p("out.txt")) as f:
        text = f.read()
    eps = 1e-9
    idcls = dict(cls="negative_ids") if min(ids.values()) < 0 else {}
    try:
        if rec["perutt"]:
            got = {ln.split()[0]: float(ln.split()[1]) for ln in text.splitlines() if ln.strip()}
            if sorted(got) != sorted(kept):
                dropped = sorted(set(kept) - set(got))
                env.violation(site, "utterances", "printed utterances %r, expected %r: those in both directories (only one "
                              "directory holds %r; the ids sorted: %r, the file names sorted: %r)"
                              % (sorted(got), sorted(kept), incomplete, sorted(env.utts), sorted(env.names)),
                              **(dict(cls="utterance_in_both_directories_dropped") if dropped and set(got) <= set(kept) else {}))
                return {}
            for u, lo, hi, rl in zip(env.utts, rec["lo"], rec["hi"], rec["reflen"]):
                if u not in got:
                    continue
                den = 1 if rec["dist"] else rl
                if not (lo - eps <= got[u] * den <= hi + eps):
                    env.violation(site, "value", "utterance %r: printed %r; edits of a minimum-cost alignment are in "
                                  "[%d, %d], reference length %d (pairs %r stored under the ids %r, options %r)"
                                  % (u, got[u], lo, hi, rl, rec["data"], ids, args[3:]), **idcls)
                    break
        else:
            v = float(text.strip())
            den = len(kept) if rec["dist"] else rec["totlen"]
            if not (rec["totlo"] - eps <= v * den <= rec["tothi"] + eps):
                env.violation(site, "value", "printed %r; total edits in [%d, %d] over %s %d (pairs %r stored under the ids %r, options %r%s)"
                              % (v, rec["totlo"], rec["tothi"], "utterances" if rec["dist"] else "reference tokens", den,
                                 rec["data"], ids, args[3:],
                                 "; utterances %r, of which only one directory holds %r" % (env.utts, incomplete) if incomplete else ""),
                              **(dict(cls="incomplete_directories") if incomplete else idcls))
    except (ValueError, IndexError):
        env.violation(site, "format", "cannot parse the output %r" % (text[:200],))
    return dict(out=text)


# =============================================================================================
# subsets
RATIO = {(0, 1): "0", (1, 2): "0.5", (3, 4): "0.75", (1, 1): "1"}


def fam_sub(env):
    import torch

    cl, rec = _cl(), env.rec
    src = env.p("src")
    made = {}
    for sub in ("feat", "ali", "ref"):
        if not any(h[sub] for h in rec["has"]):
            continue
        os.makedirs(os.path.join(src, sub))
        for j, (nm, T, h) in enumerate(zip(env.names, rec["data"], rec["has"])):
            if not h[sub]:
                continue
            if sub == "feat":
                v = torch.arange(T * 2, dtype=torch.float).reshape(T, 2) + j
            elif sub == "ali":
                v = torch.full((T,), j)
            else:
                v = torch.tensor([[j, 0, T]])
            _save(os.path.join(src, sub, nm), v)
            made[(sub, nm)] = v
    for dn in env.distractors:
        _save(os.path.join(src, "feat", dn), torch.zeros(1, 2))
    crit = rec["crit"]
    if crit["kind"] == "utt-list":
        if env.idx % 2:
            with open(env.p("list.txt"), "w") as f:
                f.write("".join(J(x) + "\n" for x in rec["listnames"]))
            cargs = ["--utt-list-file", env.p("list.txt")]
        else:
            cargs = ["--utt-list"] + [J(x) for x in rec["listnames"]]
    elif crit["kind"].endswith("-ratio"):
        cargs = ["--" + crit["kind"], RATIO[(crit["num"], crit["den"])]]
    else:
        cargs = ["--" + crit["kind"], crit["num"]]
    style = [[], ["--copy"], ["--symlink"]][env.idx % 3]
    site = "subset-torch-spect-data-dir"
    # (--utt-list takes all following words: keep it last)
    try:
        env.run(site, cl.subset_torch_spect_data_dir,
                [src, env.p("dest")] + style + env.naming_args() + env.worker_args() + cargs)
    except CommandFailed:
        return {}
    got = {}
    for sub in ("feat", "ali", "ref"):
        d = os.path.join(env.p("dest"), sub)
        if os.path.isdir(d):
            for f in os.listdir(d):
                got[sub + "/" + f] = 0
    want = {x[0] + "/" + J(x[1]): 0 for x in rec["files"]}
    # the one mistake the specification names: the utterances listed by FILE NAME instead of by id (SubChosenByFile)
    byfile = {sub + "/" + env.names[i - 1]: 0 for i in rec.get("byfile", []) for sub in ("feat", "ali", "ref") if rec["has"][i - 1][sub]}
    if "byfile" in rec and got != want and got == byfile:
        env.violation(site, "selection_order", "%s %s selected %r; listed by id (%r) the utterances to select are %r -- what was "
                      "selected is what comes first when the FILE NAMES are sorted (%r)"
                      % (site, " ".join(map(str, cargs)), sorted(got), sorted(env.utts), sorted(want), sorted(env.names)),
                      cls="by_file_name")
    elif compare_dir(env, site, got, want):
        for k in want:
            sub, nm = k.split("/", 1)
            v = torch.load(os.path.join(env.p("dest"), sub, nm))
            if not torch.equal(v, made[(sub, nm)]):
                env.violation(site, "value", "%s differs from the source file" % k)
                break
    return dict(files=sorted(got))


# =============================================================================================
# subsets, run repeatedly into the same destination
def _subrun_tensor(sub, j, T, s, v):
    import torch

    tag = j + 10 * s + 100 * v  # utterance, source directory, version of its contents
    if sub == "feat":
        return torch.arange(T * 2, dtype=torch.float).reshape(T, 2) + tag
    if sub == "ali":
        return torch.full((T,), tag)
    return torch.tensor([[tag, 0, T]])


def _subrun_generate(env, made, s, v, how):
    """(re-)generate source directory s with contents of version v: "new" directory, "inplace" (the files are
    overwritten: same inode) or "replace" (removed and written anew)"""
    rec = env.rec
    src = env.p("src%d" % s)
    for sub in ("feat", "ali", "ref"):
        if not any(h[sub] for h in rec["has"]):
            continue
        os.makedirs(os.path.join(src, sub), exist_ok=True)
        for j, (nm, T, h) in enumerate(zip(env.names, rec["data"], rec["has"])):
            if not h[sub]:
                continue
            path = os.path.join(src, sub, nm)
            if how == "replace":
                os.remove(path)
            t = _subrun_tensor(sub, j, T, s, v)
            _save(path, t)
            made[(s, v, sub, nm)] = t
    if how == "new":
        for dn in env.distractors:
            _save(os.path.join(src, "feat", dn), _subrun_tensor("feat", 7, 1, s, v))
    return src


def _subrun_read_dest(env, made):
    """dest as a map "sub/name" -> (source, version) of the contents it reads as (None: unknown contents)"""
    import torch

    out = {}
    for sub in ("feat", "ali", "ref"):
        d = os.path.join(env.p("dest"), sub)
        if not os.path.isdir(d):
            continue
        for f in sorted(os.listdir(d)):
            t = torch.load(os.path.join(d, f))
            hit = [(s, v) for (s, v, sb, nm), m in made.items() if sb == sub and nm == f and m.shape == t.shape and torch.equal(m, t)]
            out[sub + "/" + f] = list(hit[0]) if hit else None
    return out


def fam_subrun(env):
    cl, rec = _cl(), env.rec
    site = "subset-torch-spect-data-dir"
    made = {}
    srcs = {1: _subrun_generate(env, made, 1, 1, "new"), 2: _subrun_generate(env, made, 2, 2, "new")}  # (Dst0 of the spec)
    style = {"copy": ["--copy"], "symlink": ["--symlink"], "link": []}[rec["style"]]
    key = lambda k: k[0] + "/" + J(k[1])
    obs = []
    for r_no, run in enumerate(rec["runs"], 1):
        s, v = run["cur"]
        if run["regen"] != "none":
            _subrun_generate(env, made, s, v, run["regen"])
        crit = run["crit"]
        cargs = ["--" + crit["kind"], RATIO[(crit["num"], crit["den"])] if crit["kind"].endswith("-ratio") else crit["num"]]
        what = "run %d of %d (%s, source %d%s, %s %s)" % (
            r_no, len(rec["runs"]), rec["style"], s, "" if run["regen"] == "none" else " re-generated " + run["regen"],
            crit["kind"], crit["num"])
        try:
            env.run(site, cl.subset_torch_spect_data_dir,
                    [srcs[s], env.p("dest")] + style + env.naming_args() + env.worker_args() + cargs,
                    allow=(FileExistsError,))
            outcome = "ok"
        except CommandRaised:
            outcome = "raises"
        except CommandFailed:
            return obs
        if outcome == "raises":
            obs.append(["raises"])
            if run["outcome"] != "raises":
                env.violation(site, "exception", "%s raised FileExistsError although no requested file was in the destination"
                              % what, cls="FileExistsError")
            return obs  # (a refused run ends the history, in the specification as well)
        got = _subrun_read_dest(env, made)
        obs.append(["ok", got])
        chosen = sorted(key(k) for k in run["chosen"])
        requested = set(key(k) for k in run["requested"])
        missing = [k for k in chosen if k not in got]
        extra = sorted(set(got) - requested)
        if missing:
            env.violation(site, "files_missing", "%s: requested files %r are not in the destination (%r)" % (what, missing, sorted(got)),
                          cls="after_rerun")
            return obs
        if extra:
            env.violation(site, "files_extra", "%s: the destination holds %r which no run requested" % (what, extra), cls="after_rerun")
            return obs
        stale = [(k, got[k]) for k in chosen if got[k] != [s, v]]
        if stale:
            known = all(x[1] is not None for x in stale)
            env.violation(site, "stale_after_rerun" if known else "value",
                          "%s: requested files differ from the source files of this run: %s (the source holds [directory, "
                          "version] = %r)" % (what, ", ".join("%s reads as %r" % x for x in stale), [s, v]),
                          cls="kept_existing_file" if known else "other")
            return obs
        if run["outcome"] == "raises":  # a link style that replaces instead of refusing: the clause holds, fine
            env.ctx.count("informational_subrun_no_refusal_files_identical")
            return obs
        want = {key(k): val for k, val in run["dest"]}
        if got != want:
            env.ctx.count("informational_subrun_unrequested_files_read_differently")
    return obs


# =============================================================================================
# length moments
def fam_mom(env):
    import torch

    cl, rec = _cl(), env.rec
    d = env.p("dir")
    os.makedirs(d)
    ali = rec["kind"] == "ali"
    for nm, x in zip(env.names, rec["data"]):
        _save(os.path.join(d, nm), torch.tensor([IDS[t] for t in x]) if ali else torch.tensor([[IDS[r[0]], r[1], r[2]] for r in x]))
    for dn in env.distractors:
        _save(os.path.join(d, dn), torch.tensor([IDS[1]] * 7) if ali else torch.tensor([[IDS[1], 0, 7]]))
    prec = [3, 1, 5][env.idx % 3]
    args = [d, env.p("out.txt"), "--precision", prec] + env.naming_args() + env.worker_args()
    if rec["bessel"]:
        args += ["--bessel"]
    if rec["std"]:
        args += ["--std"]
    if not ali:
        args += ["--quiet"]
    if rec["excl"]:
        args += ["--exclude-ids"] + [IDS[x] for x in rec["excl"]] + ([99] if env.idx % 2 else [])
    site = "print-torch-%s-data-dir-length-moments" % ("ali" if ali else "ref")
    fn = cl.print_torch_ali_data_dir_length_moments if ali else cl.print_torch_ref_data_dir_length_moments
    try:
        env.run(site, fn, args)
    except CommandFailed:
        return {}
    with open(env.p("out.txt")) as f:
        text = f.read()
    s, ss, c = rec["triple"]
    tol = 0.5 * 10 ** (-prec) + 1e-9
    parts = text.strip().replace("(", " ").replace(")", " ").split()
    ok = len(parts) == 2
    if ok and c == 0:
        ok = parts == ["n/a", "n/a"]
    elif ok:
        try:
            ok = abs(float(parts[0]) - s / c) <= tol
            if rec["bessel"] and c == 1:
                ok = ok and parts[1] == "n/a"
            else:
                num, den = ss * c - s * s, c * c  # pooled variance as a fraction
                if rec["bessel"]:
                    den = c * (c - 1)
                v = num / den
                ok = ok and abs(float(parts[1]) - (math.sqrt(v) if rec["std"] else v)) <= tol
        except ValueError:
            ok = False
    if not ok:
        env.violation(site, "value", "printed %r; pooled (sum, sum of squares, count) = %r, bessel=%r std=%r precision=%d"
                      % (text, rec["triple"], rec["bessel"], rec["std"], prec))
    return dict(out=text)


HANDLERS = dict(ali=fam_ali, trn=fam_trn, ctm=fam_ctm, tg=fam_tg, er=fam_er, sub=fam_sub, subrun=fam_subrun, mom=fam_mom,
                momr=fam_mom)


def n_items(rec):
    if rec["fam"] == "sub":
        return len(rec["chosen"])
    if rec["fam"] == "subrun":  # under a pool only the histories in which no run is refused
        if any(r["outcome"] != "ok" for r in rec["runs"]):
            return 0
        return max(len({J(k[1]) for k in r["chosen"]}) for r in rec["runs"])
    return len(rec["data"])


def run_case(ctx, rec, idx, mode, schedules, pool_cls=fakepool.FakePool):
    env = Env(ctx, rec, idx, mode, schedules, pool_cls)
    try:
        return HANDLERS[rec["fam"]](env)
    finally:
        shutil.rmtree(env.base, ignore_errors=True)


def check_worker_free(ctx, rec, idx, mode, schedules, base, pool_cls=fakepool.FakePool):
    """same case under another worker mode: outputs must be identical to the serial ones"""
    before = len(ctx.violations) + sum(ctx.known_hits.values())
    obs = run_case(ctx, rec, idx, mode, schedules, pool_cls)
    if len(ctx.violations) + sum(ctx.known_hits.values()) == before and obs != base:
        keys = sorted(k for k in set(obs) | set(base) if obs.get(k) != base.get(k))
        ctx.violation(dict(site=rec["fam"], kind="worker_dependence"),
                      "outputs %r differ between --num-workers 0 and %r: %r vs %r"
                      % (keys, mode, {k: base.get(k) for k in keys}, {k: obs.get(k) for k in keys}),
                      dict(fam=rec["fam"], rec=rec, idx=idx, mode=list(mode), base=True))
    return obs


_RECORD = None  # list of (site, plan) while per-item file-system operations are being recorded


def interleavings(ctx, recs, schedules, maxn):
    """WorkerPool.tla treats an item's work as atomic.  Here the per-item work of every pool command is opened up:
    the file-system operations each item performed (recorded while FakePool ran the real function) are interleaved
    in every possible way by TLC (WorkerPoolFs.tla, 3 workers, first 3 items of every pool call); the directory and
    everything read must come out as in the serial run."""
    global _RECORD
    mod = os.path.join(SPECS, "WorkerPoolFs.tla")
    res = tlc.run(mod, os.path.join(SPECS, "WorkerPoolFs_shared.cfg"), workers=2, timeout=600, coverage=False)
    if res.ok:
        raise MachineryError("WorkerPoolFs: two items sharing a scratch file do not violate Deterministic (vacuous)")
    ctx.add_tlc("WorkerPoolFs/shared scratch file (expected violation)", res, count_states=False)
    res = tlc.run(mod, os.path.join(SPECS, "WorkerPoolFs_private.cfg"), workers=2, timeout=600)
    tlc.require_ok(res, "WorkerPoolFs/private")
    tlc.require_covered(res, ["Take", "Step", "Finish"], "WorkerPoolFs/private")
    ctx.add_tlc("WorkerPoolFs/private scratch files", res)
    programs, meta = [], {}
    for fam in FAMS:
        if fam not in POOL_FAMS or fam in NO_INTERLEAVE:
            continue
        chosen = [(idx, rec) for idx, rec in enumerate(recs[fam]) if rec is not None and 2 <= n_items(rec) <= maxn and len(rec["data"]) <= maxn
                  and not (fam == "sub" and rec["crit"]["kind"].startswith(("shortest", "longest")))]
        chosen.sort(key=lambda t: -n_items(t[1]))
        for idx, rec in chosen[:2 if ctx.quick else 8]:
            _RECORD = []
            try:
                before = len(ctx.violations) + sum(ctx.known_hits.values())
                run_case(ctx, rec, idx, ("fake", 2, 1, 0), schedules)
                recorded = _RECORD
            finally:
                _RECORD = None
            if len(ctx.violations) + sum(ctx.known_hits.values()) != before:
                continue
            for site, plan in recorded:
                by_call = {}
                for (call, k), ops in plan.recorder.items.items():
                    by_call.setdefault(call, {})[k] = ops
                for call, items in sorted(by_call.items()):
                    ks = sorted(items)[:3]
                    if len(ks) < 2:
                        continue
                    tid = len(programs) + 1
                    programs.append(dict(tid=tid, items=[items[k] for k in ks]))
                    meta[tid] = dict(site=site, fam=fam, rec=rec, idx=idx, call=call,
                                     paths={v: os.path.relpath(k, plan.recorder.root) for k, v in plan.recorder.paths.items()})
    if not programs:
        raise MachineryError("no per-item file-system programs were recorded")
    path = os.path.join(ctx.workdir, "fs_programs.json")
    with open(path, "w") as f:
        json.dump(programs, f)
    res = tlc.run(mod, os.path.join(SPECS, "WorkerPoolFs_file.cfg"), workers=4, timeout=1800, env={"TRACE_FILE": path},
                  coverage=False)
    tlc.require_ok(res, "WorkerPoolFs/recorded programs")
    ctx.add_tlc("WorkerPoolFs/recorded programs", res)
    explored = {r["tid"] for r in res.records if r.get("done")}
    bad = {}
    for r in res.records:
        if not r.get("done"):
            bad.setdefault(r["tid"], r)
    for prog in programs:
        tid = prog["tid"]
        m = meta[tid]
        nops = sum(len(x) for x in prog["items"])
        writes = sum(1 for x in prog["items"] for o in x if o[0] != "r")
        ctx.case(key=("interleave", m["site"], m["idx"], m["call"]), nontrivial=writes >= 2, n=1,
                 sample=dict(site=m["site"], program=prog["items"], paths=m["paths"]) if tid in (1, len(programs)) else None)
        ctx.traces += 1
        if tid not in explored:
            raise MachineryError("WorkerPoolFs did not explore program %d to the end" % tid)
        if tid in bad:
            ctx.violation(dict(site=m["site"], kind="interleaving_dependent_output"),
                          "the per-item work of two items interferes through the file system: with the operations %r "
                          "(paths %r) some interleaving of the workers ends with %r where the serial run gives %r"
                          % (prog["items"], m["paths"], bad[tid].get("fs"), bad[tid].get("serial")),
                          dict(fam=m["fam"], rec=m["rec"], idx=m["idx"], mode=["fake", 2, 1, 0], interleave=True,
                               program=prog["items"], paths=m["paths"]))
    ctx.extra["interleaved_programs"] = len(programs)
    ctx.extra["interleaved_ops"] = sum(len(x) for pr in programs for x in pr["items"])


def dedupe(behaviours):
    """behaviours an in-process fake can tell apart: the order of finish and deliver events"""
    seen, out = set(), []
    for i, ev in enumerate(behaviours):
        key = tuple((e[0], e[1]) for e in ev if e[0] != "take")
        if key not in seen:
            seen.add(key)
            out.append(i)
    return out


def commands_jobs(ctx):
    cfg = "Commands_quick.cfg" if ctx.quick else "Commands_thorough.cfg"
    with open(os.path.join(SPECS, cfg)) as f:
        txt = f.read()
    jobs = []
    for fam in FAMS:
        p = os.path.join(ctx.subdir("cfg"), "%s_%s" % (fam, cfg))
        with open(p, "w") as f:
            f.write(txt.replace("Fams <- AllFams", 'Fams = {"%s"}' % fam))
        jobs.append(("Commands/" + fam, CM_MOD, p, dict(workers=2, timeout=2400)))
    if "subrun" in FAMS:
        # non-vacuity of the repeated-run invariants: a writer that leaves an existing destination file alone
        # (SubRunFault) must be rejected by SubRunIdentical (always on the quick universe: a counterexample is enough)
        with open(os.path.join(SPECS, "Commands_quick.cfg")) as f:
            qtxt = f.read()
        if "SubRunFault = FALSE" not in qtxt:
            raise MachineryError("unexpected cfg layout in Commands_quick.cfg")
        p = os.path.join(ctx.subdir("cfg"), "subrun_fault_Commands_quick.cfg")
        with open(p, "w") as f:
            f.write(qtxt.replace("Fams <- AllFams", 'Fams = {"subrun"}').replace("SubRunFault = FALSE", "SubRunFault = TRUE"))
        jobs.append(("CommandsFault/subrun", CM_MOD, p, dict(workers=2, timeout=600, coverage=False)))
    # non-vacuity of the naming / ordering universes: a selection that reads prefix*suffix as a shell pattern and a
    # listing by file name must be rejected (CommandsMC.tla; always on the quick universe)
    for fam, (override, _) in sorted(FAULTS.items()):
        if fam.split("-")[0] not in FAMS:
            continue
        with open(os.path.join(SPECS, "Commands_quick.cfg")) as f:
            qtxt = f.read()
        if "  KeepHist = FALSE\n" not in qtxt:
            raise MachineryError("unexpected cfg layout in Commands_quick.cfg")
        p = os.path.join(ctx.subdir("cfg"), "%s_fault_Commands_quick.cfg" % fam)
        with open(p, "w") as f:
            f.write(qtxt.replace("Fams <- AllFams", 'Fams = {"%s"}' % fam.split("-")[0])
                    .replace("  KeepHist = FALSE\n", "  KeepHist = FALSE\n  %s <- %s\n" % override))
        jobs.append(("CommandsFault/" + fam, CM_MOD, p, dict(workers=1, timeout=600, coverage=False)))
    return jobs


# deliberately wrong definition -> the invariant that must reject it
FAULTS = {"ali-glob": (("Selects", "SelectsGlob"), "Naming"),
          "sub-filename": (("ListKey", "ListKeyFileName"), "SubOK"),
          "er-filename": (("ListKey", "ListKeyFileName"), "ErMergeOK")}


def run(ctx):
    import torch

    torch.set_num_threads(1)
    ctx.rule = ("every case exported by TLC from Commands.tla (corpora of 1-4 utterances x default / non-default "
                "prefix and suffix -- also prefixes, suffixes and directory names holding [ ] * ?, and ids whose order is not "
                "that of their file names -- x the commands' option universes, with files in the input directories that must "
                "not be selected; ctm files with their lines in grouped / interleaved / reversed / time order; error rates also with "
                "incomplete directories under --warn-missing, with tokens stored under negative ids and with --id2token) drives the real console entry points in-process: serially, under a FakePool "
                "behaviour of WorkerPool.tla chosen round-robin, and -- on the larger corpora -- under every "
                "behaviour an in-process pool can distinguish; histories of 2-3 subset runs into one destination with "
                "the source data changing in between are replayed run by run.  Non-trivial: >= 2 utterances, a non-default prefix "
                "or suffix, or a non-default option (alternates, unk, maps, replace/ignore, unequal costs, "
                "exclusions, a criterion selecting a proper non-empty subset)")
    ctx.assumptions += [
        "entry points are called in-process through their python functions with argument lists",
        "times are multiples of 125 ms or of the frame shift, frame shifts integer ms (float arithmetic exact); the "
        "documented frame formulas are compared informationally, verdicts use the one-frame bound",
        "ctm: the segments of one utterance start at different times (equal starts keep the order of their lines: not judged)",
        "error rates: missing utterances only together with --warn-missing (without it the command refuses: not judged); "
        "ids are free of white space (the per-utterance output separates id and figure by a space)",
        "error rates: per-utterance figures and totals with a zero denominator are not defined and not run; for "
        "unequal costs any edit count of a minimum-cost alignment is accepted (C02)",
        "TextGrid round trips use tiers that are all intervals of positive length or all points, precision >= 3",
        "repeated subset runs: a run refused with FileExistsError (link styles, file already in the destination) is a "
        "modelled outcome and ends the history; a link style that replaced the file instead would be accepted if the "
        "requested files are identical to the source; files of earlier runs that the last run did not request are "
        "compared informationally",
        "subset: --only, --rand-* are not modelled; length criteria are run with extra workers only for a few cases with tied lengths (6 quick / 60 thorough)",
        "commands that read through a DataLoader (token dir -> trn / ctm) get real worker processes only in the "
        "thorough tier; the error-rate command has no worker option",
        "FakePool runs initializers and tasks in-process (module globals of command_line are shared)",
    ]
    # (the pool's own design check on larger instances -- WorkerPool_design.cfg -- runs with C11; the
    # schedule export below re-checks every pool invariant on the instances that are replayed)
    res = _tr._run_parallel(commands_jobs(ctx) + _tr.pool_jobs(ctx, with_design=not ctx.quick))
    recs = {}
    for name, r in sorted(res.items()):
        if name == "CommandsFault/subrun":
            if r.ok or "Invariant SubRunIdentical is violated" not in (r.error or ""):
                raise MachineryError("%s: a writer that keeps existing destination files was not rejected by "
                                     "SubRunIdentical (%s)" % (name, r.error))
            ctx.add_tlc(name + " (expected violation of SubRunIdentical)", r, count_states=False)
            continue
        if name.startswith("CommandsFault/"):
            want = FAULTS[name.split("/")[1]][1]
            if r.ok or ("Invariant %s is violated" % want) not in (r.error or ""):
                raise MachineryError("%s: the deliberately wrong definition %s was not rejected by %s (%s)"
                                     % (name, FAULTS[name.split("/")[1]][0][1], want, r.error))
            ctx.add_tlc("%s (expected violation of %s)" % (name, want), r, count_states=False)
            continue
        tlc.require_ok(r, name)
        ctx.add_tlc(name, r)
        if name.startswith("Commands/"):
            fam = name.split("/")[1]
            tlc.require_covered(r, ["Init"] + (["BeginRun", "DoItem", "EndRun"] if fam == "subrun" else
                                               ["Take", "Finish", "Deliver"] if fam in POOL_FAMS else []), name)
            recs[fam] = sorted(r.records, key=repr)
            if fam == "subrun":
                # a history ending in a refused run is exported once per order in which the utterances before the
                # refusal were handled (the logs are equal: SubRunLogFree)
                uniq = {}
                for x in recs[fam]:
                    uniq.setdefault(repr(x), x)
                recs[fam] = [uniq[k] for k in sorted(uniq)]
                if not any(x["runs"][-1]["outcome"] == "raises" for x in recs[fam]) or \
                        not any(all(y["outcome"] == "ok" for y in x["runs"]) and x["style"] != "copy" for x in recs[fam]):
                    raise MachineryError("the subrun universe lacks refused runs / link-style histories without a refusal")
            if not recs[fam]:
                raise MachineryError("no cases exported for " + name)
            glob_ = [x for x in recs[fam] if any(c in J(x["pre"]) + J(x["suf"]) + J(x["dir"]) for c in "[]*?")]
            if fam in ("ali", "trn", "ctm", "tg", "sub", "er") and not (any(x["dir"] for x in glob_) and any(x["pre"] for x in glob_)):
                raise MachineryError("%s: no naming with [ ] * ? in prefix / suffix and in the directory" % name)
            if fam in ("sub", "er") and not any(x["idorder"] != x["fileorder"] and len(x["data"]) >= 3 for x in recs[fam]):
                raise MachineryError("%s: no corpus whose ids and file names sort differently" % name)
            if fam == "er" and not any(x["warn"] and not all(x["inhyp"]) for x in recs[fam]):
                raise MachineryError("%s: no incomplete hypothesis directory" % name)
            if fam == "er":
                for i2t in (False, True):
                    for bs in {x["bs"] for x in recs[fam]}:
                        if not any(x["i2t"] == i2t and x["bs"] == bs and x["defined"] and -1 in [x["ids"][t - 1] for p in x["data"] for q in p
                                   for t in q if t not in x["ign"] and not (x["rep"] and x["rep"][0] == t)] for x in recs[fam]):
                            raise MachineryError("%s: no case (id2token %r, batch size %r) with the id -1 surviving --replace / --ignore"
                                                 % (name, i2t, bs))
            if fam == "ctm":
                for kinds in (("default", "chan"), ("wc2utt",), ("utt2wc",)):
                    if not any(x["scattered"] and x["kind"] in kinds and any(len(d) >= 2 for d in x["data"]) for x in recs[fam]):
                        raise MachineryError("%s: no ctm file (map %r) in which the lines of an utterance are apart" % (name, kinds))
        else:
            tlc.require_covered(r, _tr.WP_ACTIONS, name)
    schedules = _tr.group_schedules(res["WorkerPool/schedules"].records)
    maxn = max(k[0] for k in schedules)
    ctx.exhaustive = True
    import time

    phases = {}
    swept = 0
    len_budget = [6 if ctx.quick else 60]
    for fam in FAMS:
        t0 = time.time()
        big = max(len(r["data"]) for r in recs[fam])
        sweep_left = 1  # one larger corpus per family is swept under every distinguishable behaviour
        for idx, rec in enumerate(recs[fam]):
            nd = (rec["pre"] != [] or J(rec["suf"]) != ".pt" or rec["dir"] != [] or rec["idorder"] != rec["fileorder"])
            ctx.case(key=(fam, rec), nontrivial=len(rec["data"]) >= 2 or nd,
                     sample={k: v for k, v in rec.items() if k not in ("distractors",)} if idx == len(recs[fam]) // 3 else None)
            before = len(ctx.violations) + sum(ctx.known_hits.values())
            base = run_case(ctx, rec, idx, ("serial",), schedules)
            ctx.traces += 1
            failed = len(ctx.violations) + sum(ctx.known_hits.values()) != before
            if fam not in POOL_FAMS or failed:
                continue
            n = n_items(rec)
            if fam == "sub" and rec["crit"]["kind"].startswith(("shortest", "longest")):
                # these also start real DataLoader workers (slow): only a few cases, those with a tie in length (the cut
                # may fall inside it), under the behaviour whose completion order is the most out of order
                lens_ = [T for T, h in zip(rec["data"], rec["has"]) if h["feat"]]
                if len(set(lens_)) < len(lens_) and 2 <= len(rec["data"]) <= maxn and len_budget[0] > 0:
                    len_budget[0] -= 1
                    Wl = 2
                    lst = schedules[(len(rec["data"]), min(Wl, len(rec["data"])), "unordered")]

                    def disorder(ev):
                        fo = [e[1] for e in ev if e[0] == "deliver"]
                        return sum(1 for a in range(len(fo)) for b in range(a + 1, len(fo)) if fo[a] > fo[b])

                    pick = max(range(len(lst)), key=lambda i: disorder(lst[i]))
                    check_worker_free(ctx, rec, idx, ("fake", Wl, 1, pick), schedules, base)
                    ctx.traces += 1
                    ctx.evaluations += 1
                continue
            if n == 0:
                continue
            W, chunk = 1 + (idx // 2) % 3, 1 + (idx // 6) % 2
            nch = (n + chunk - 1) // chunk
            if nch > maxn:
                continue
            is_big = len(rec["data"]) == big and n == big
            if not ctx.quick or idx % 2 == 0 or is_big:  # quick: every other case (and all larger corpora)
                check_worker_free(ctx, rec, idx, ("fake", W, chunk, idx), schedules, base)
                ctx.traces += 1
                ctx.evaluations += 1
            # every distinguishable behaviour, on the larger corpora
            if is_big and sweep_left > 0:
                sweep_left -= 1
                for chunk in (1, 2):
                    nch = (n + chunk - 1) // chunk
                    for W in (1, 2, 3):
                        lst = schedules[(nch, min(W, nch), "unordered")]
                        for pick in dedupe(lst):
                            check_worker_free(ctx, rec, idx, ("fake", W, chunk, pick), schedules, base)
                            ctx.traces += 1
                            ctx.evaluations += 1
                            swept += 1
        phases[fam] = round(time.time() - t0, 1)
    ctx.extra["phase_wall_s"] = phases
    ctx.extra["schedule_sweep_runs"] = swept
    ctx.extra["cases_by_family"] = {k: len(v) for k, v in recs.items()}
    interleavings(ctx, recs, schedules, maxn)
    if not ctx.quick and not os.environ.get("VF_C17_FAMS"):
        real_pools(ctx, recs, schedules)
        selftest(ctx, recs, schedules)
    elif ctx.quick and not os.environ.get("VF_C17_FAMS"):
        stress_real_pool(ctx)  # one real pool (about 5 s) even in the quick tier


def selftest(ctx, recs, schedules):
    """binding self-test: corrupted expectations and a pool that loses a task must be caught"""
    import copy

    from ..harness import Context

    def caught(fn):
        sh = Context(PROP, ctx.tier, ctx.seed, ctx.level)
        try:
            fn(sh)
            return len(sh.violations) + sum(sh.known_hits.values()) > 0
        finally:
            shutil.rmtree(sh.workdir, ignore_errors=True)

    out = {}
    idx, rec = next((i, r) for i, r in enumerate(recs["trn"]) if len(r["data"]) >= 2 and r["toks"][0])
    bad = copy.deepcopy(rec)
    bad["content"][0] = bad["content"][0][:-1]  # the spec now "expects" one token less in the first file
    out["corrupted_trn_directory_caught"] = caught(lambda sh: run_case(sh, bad, idx, ("serial",), schedules))
    idx, rec = next((i, r) for i, r in enumerate(recs["mom"]) if len(r["data"]) >= 2 and r["triple"][2] > 1)
    bad = copy.deepcopy(rec)
    bad["triple"][0] += 3 * bad["triple"][2]  # mean off by 3
    out["corrupted_moments_caught"] = caught(lambda sh: run_case(sh, bad, idx, ("serial",), schedules))
    idx, rec = next((i, r) for i, r in enumerate(recs["er"]) if r["defined"] and r["totlen"] > 0 and not r["perutt"] and not r["dist"])
    bad = copy.deepcopy(rec)
    bad["totlo"], bad["tothi"] = bad["totlo"] + 1, bad["tothi"] + 1
    out["corrupted_error_total_caught"] = caught(lambda sh: run_case(sh, bad, idx, ("serial",), schedules))
    for fam in ("mom", "trn"):
        # (mom: printed with at least 3 decimals -- the precision cycles with the index -- so that a lost file shows)
        idx, rec = next((i, r) for i, r in enumerate(recs[fam]) if len(r["data"]) >= 3 and
                        (fam != "mom" or (not r["excl"] and len({repr(x) for x in r["data"]}) > 1 and i % 3 != 1)))

        def lost_task(sh, fam=fam, idx=idx, rec=rec):
            base = run_case(sh, rec, idx, ("serial",), schedules)
            check_worker_free(sh, rec, idx, ("fake", 2, 1, 0), schedules, base, pool_cls=fakepool.WrongFakePool)

        out["pool_losing_a_task_caught_" + fam] = caught(lost_task)
    ctx.extra["selftest"] = out
    if not all(out.values()):
        raise MachineryError("binding self-test failed: %r" % (out,))


def real_pools(ctx, recs, schedules):
    """thorough: a few runs with real spawn workers (about 3 s per pool)"""
    runs = 0
    for fam in ("ali", "mom", "trn"):
        big = max(len(r["data"]) for r in recs[fam])
        cands = [(i, r) for i, r in enumerate(recs[fam]) if len(r["data"]) == big]
        for (idx, rec) in cands[:1]:
            before = len(ctx.violations) + sum(ctx.known_hits.values())
            base = run_case(ctx, rec, idx, ("serial",), schedules)
            if len(ctx.violations) + sum(ctx.known_hits.values()) != before:
                continue
            for W in (1, 3):
                ctx.case(key=("real", fam, W), nontrivial=True)
                check_worker_free(ctx, rec, idx, ("real", W, 1, 0), schedules, base)
                runs += 1
    ctx.extra["real_spawn_pool_runs"] = runs
    stress_real_pool(ctx)


def stress_real_pool(ctx):
    """thorough: many utterances, chunk size 1, four real workers busy at the same time -- the only way a race
    INSIDE the per-item work (e.g. workers sharing a scratch file) can show; output must equal the serial run."""
    import torch

    from pydrobert.torch import command_line as cl

    d = ctx.subdir("stress_pool")
    n = 600
    toks = ["a", "b", "c", "d", "e"]
    trn = os.path.join(d, "ref.trn")
    with open(trn, "w") as f:
        for i in range(n):
            words = [toks[(i * 7 + j * 3) % 5] for j in range(1 + i % 4)]
            f.write("%s (utt%04d)\n" % (" ".join(words), i))
    t2i = os.path.join(d, "token2id.txt")
    with open(t2i, "w") as f:
        for i, t in enumerate(toks):
            f.write("%s %d\n" % (t, i + 3))
    outs = {}
    for name, extra in (("serial", ["--num-workers", "0"]), ("pool", ["--num-workers", "4", "--mp-chunk-size", "1"])):
        out = os.path.join(d, name)
        try:
            with warnings.catch_warnings():
                warnings.simplefilter("ignore")
                cl.trn_to_torch_token_data_dir([trn, t2i, out] + extra)
        except BaseException as ex:
            ctx.violation(dict(site="trn-to-torch-token-data-dir", kind="exception_real_pool"),
                          "%s run over %d utterances raised %r" % (name, n, ex), dict(type="stress_real_pool", mode=name))
            return
        outs[name] = {fn: torch.load(os.path.join(out, fn)).tolist() for fn in sorted(os.listdir(out))}
    ctx.case(key=("stress_real_pool", n), nontrivial=True, n=n)
    ctx.count("stress_real_pool_utterances", n)
    if outs["serial"] != outs["pool"]:
        diff = [fn for fn in sorted(set(outs["serial"]) | set(outs["pool"])) if outs["serial"].get(fn) != outs["pool"].get(fn)]
        ctx.violation(dict(site="trn-to-torch-token-data-dir", kind="worker_dependence_real_pool"),
                      "%d of %d output files differ between --num-workers 0 and 4 real workers (chunk size 1), e.g. %r" % (len(diff), n, diff[:3]),
                      dict(type="stress_real_pool", differing=diff[:10]))


def replay(ctx, case):
    import torch

    torch.set_num_threads(1)
    rec, idx, mode = case["rec"], case["idx"], tuple(case["mode"])
    schedules = None
    if mode[0] == "fake":
        res = _tr._run_parallel(_tr.pool_jobs(ctx, with_design=False))
        schedules = _tr.group_schedules(res["WorkerPool/schedules"].records)
    if case.get("interleave"):
        # record the per-item operations of this one case again and let TLC interleave them
        maxn = max(k[0] for k in schedules)
        global FAMS
        saved, FAMS = FAMS, [rec["fam"]]
        try:
            interleavings(ctx, {rec["fam"]: [None] * idx + [rec]}, schedules, maxn)
        finally:
            FAMS = saved
    elif case.get("base"):
        base = run_case(ctx, rec, idx, ("serial",), schedules)
        check_worker_free(ctx, rec, idx, mode, schedules, base)
    else:
        run_case(ctx, rec, idx, mode, schedules)
    print("replayed one %s case under %r: %s" % (rec["fam"], mode, "still failing" if ctx.violations else "passes now"))


if __name__ == "__main__":
    sys.exit(main(PROP, "model_checking", run, replay))
