"""C12 -- data-directory validation accepts exactly well-formed directories; fixes stick; the
statistics are the recount; sos/eos go around every transcript and come off again.

DataDir.tla: the documented conditions (WellFormed), the documented fixes applied pointwise
(Repair) and the recount (InfoDecl) against the code-shaped single pass (feature -> alignment ->
reference per utterance, carried feat_dtype / num_filts / ref_is_2d, per-tensor write-back) and the
accumulating InfoCode; TLC checks strict <=> WellFormed, fix k <=> WellFormed(Repair), accepted fix
leaves exactly Repair(d, k), idempotence, InfoCode = InfoDecl, for every single defect and every
pair of defects on 5 base directories and validate/fix/validate histories - under every VIEW the
data set handed to the validator may have of a stored reference (sos / eos around it, tokens_only):
the repairs of the presented tensor are the presentation of the repairs of the stored one
(RepairCommutesWithView), a tensor without a defect keeps its stored content (UndamagedUntouched).
DataDirIO.tla: sos/eos wrapping and stripping by every route the symbols can take to the data set
(parameter object, sos= / eos= keyword arguments, parameter object changed after construction),
utterance discovery.

spec -> code: every exported history is replayed on a real temporary directory:
validate_spect_data_set on a SpectDataSet configured with the history's view (or, plain view, the
in-process get-torch-spect-data-dir-info --strict / --fix N) must raise ValueError exactly when the specification's pass raises; after every pass the stored tensors
are re-read, projected and compared (judged only after accepted passes); the statistics command is
compared with Info on every well-formed directory; dataset[i] / write_hyp against ReadRef / WriteHyp;
SpectDataSet.utt_ids against Discover."""
import os
import sys

import torch

from ..harness import main
from . import _datadir as DD

PROP = "C12"
V_SITE = "validate_spect_data_set"
I_SITE = "get-torch-spect-data-dir-info"


def _dataset(root, **kw):
    from pydrobert.torch.data import SpectDataSet

    kw.setdefault("suppress_alis", False)
    kw.setdefault("tokens_only", False)
    return DD.quiet(SpectDataSet, root, **kw)


PLAIN = dict(sos=-1, eos=-1, tokens_only=False)


def view_kwargs(view):
    """constructor arguments of a SpectDataSet that presents references through `view`"""
    from pydrobert.torch.data import SpectDataParams

    view = view or PLAIN
    if view == PLAIN:
        return dict()
    return dict(params=SpectDataParams(sos=None if view["sos"] < 0 else view["sos"],
                                       eos=None if view["eos"] < 0 else view["eos"]),
                tokens_only=view["tokens_only"])


def run_pass(root, fix, via_cli, out_path, view=None):
    """-> ('ok' | 'raises' | 'exception', detail, info dict or None)"""
    from pydrobert.torch import command_line
    from pydrobert.torch.data import validate_spect_data_set

    try:
        if via_cli:
            args = [root, out_path] + (["--strict"] if fix < 0 else ["--fix", str(fix)])
            rc = DD.quiet(command_line.get_torch_spect_data_dir_info, args)
            if rc != 0:
                return "exception", "command returned %r" % (rc,), None
            return "ok", "", DD.parse_info(out_path)
        DD.quiet(validate_spect_data_set, _dataset(root, **view_kwargs(view)), None if fix < 0 else fix)
        return "ok", "", None
    except ValueError as ex:
        return "raises", str(ex)[:200], None
    except Exception as ex:
        return "exception", "%s: %r" % (type(ex).__name__, ex), None


def check_info(ctx, root, info, got, case, out_path):
    """the statistics command against the specification's Info record"""
    from pydrobert.torch import command_line

    if got is None:
        try:
            rc = DD.quiet(command_line.get_torch_spect_data_dir_info, [root, out_path])
            got = DD.parse_info(out_path)
        except Exception as ex:
            ctx.violation(dict(site=I_SITE, kind="exception"), "%s: %r" % (type(ex).__name__, ex), case)
            return
        if rc != 0:
            ctx.violation(dict(site=I_SITE, kind="exception"), "returned %r" % (rc,), case)
            return
    exp, ambiguous = DD.expected_info_keys(info)
    gk = dict((DD.info_key(k), v) for k, v in got.items())
    missing = [k for k in exp if k not in gk]
    extra = [k for k in gk if k not in exp]
    if extra:  # more than the documented keys: not a clause of the property
        ctx.count("informational_undocumented_info_keys")
    if missing:
        ctx.violation(dict(site=I_SITE, kind="keys"), "missing keys %r" % (missing,), case)
        return
    for k, vals in exp.items():
        if gk[k] not in vals:
            kind = k if isinstance(k, str) else k[0]
            ctx.violation(dict(site=I_SITE, kind="recount-" + kind),
                          "%s = %r, recount of the stored tensors gives %r" % (k, gk[k], sorted(vals)), case)
            return
    for key, (doc, strict) in ambiguous.items():
        if got.get(key) == strict:
            ctx.count("informational_rcount_minus1_for_empty_segment")


def classify_verdict(rec, p, got, via_cli=False):
    if via_cli and p["fix"] == 0:
        # "--fix 0" is a legal tolerance (as_nonnegi); it must validate like fix=0 does
        return "fix-0-skips-validation"
    if p["fix"] < 0:
        return "strict-accepts-ill-formed" if got == "ok" else "strict-rejects-well-formed"
    return "fix-accepts-unrepairable" if got == "ok" else "fix-rejects-repairable"


def classify_diffs(rec, p, before, stored, via_cli):
    """every (utterance, tensor) whose stored content differs from the specification's directory
    after an ACCEPTED pass -> list of (kind, text), most specific kind per tensor"""
    ha, hr = rec["hasali"], rec["hasref"]
    want = DD.norm_dir(p["after"], ha, hr)
    prev = DD.norm_dir(before, ha, hr)
    viewed = DD.norm_dir([dict(u, ref=v) for u, v in zip(p["after"], p["viewed"])], ha, hr) if p.get("viewed") else None
    out = []
    for i, k, got, exp in DD.all_diffs(stored, want):
        if p["fix"] < 0:
            kind = "strict-modified-directory"
        elif via_cli and p["fix"] == 0:
            kind = "fix-0-skips-validation"
        elif k == "ref" and viewed is not None and got == viewed[i]["ref"] and exp != viewed[i]["ref"]:
            # what is on disk is what the data set PRESENTS (sos / eos rows, token column only) of the
            # expected reference, not the reference
            if exp == prev[i]["ref"]:
                kind = "undamaged-reference-rewritten"    # the specification leaves this tensor alone
            else:
                kind = "view-persisted-by-reference-repair"
        elif exp == prev[i].get(k):
            kind = "undamaged-tensor-modified"
        else:
            kind = "repair-on-disk-differs"
        out.append((kind, "utterance %d %s: stored %r, specification %r" % (i, k, got, exp)))
    return out


def replay_history(ctx, rec, root, via_cli, report=True):
    """one exported history on a real directory.  Returns number of passes judged."""
    ha, hr = rec["hasali"], rec["hasref"]
    d = rec["dir"]
    n = len(d)
    view = rec.get("view") or PLAIN
    if view != PLAIN:
        via_cli = False  # the command never configures sos / eos / tokens_only
    DD.write_dir(root, d, ha, hr)
    out_path = os.path.join(os.path.dirname(root), "info.txt")
    case = dict(type="history", rec=rec, via_cli=via_cli)
    # the harness's own round trip (files -> abstract) must be the identity
    back = DD.norm_dir(DD.read_dir(root, n, ha, hr, d), ha, hr)
    if DD.diff_dirs(back, DD.norm_dir(d, ha, hr)):
        from ..harness import MachineryError

        raise MachineryError("directory projection is not the identity: %s" % DD.diff_dirs(back, DD.norm_dir(d, ha, hr)))
    if rec["info0"]:
        check_info(ctx, root, rec["info0"][0], None, case, out_path)
    judged = 0
    cur = d
    vs = "" if view == PLAIN else " through a data set with sos=%s eos=%s tokens_only=%s" % (
        None if view["sos"] < 0 else view["sos"], None if view["eos"] < 0 else view["eos"], view["tokens_only"])
    for q, p in enumerate(rec["passes"]):
        got, detail, info = run_pass(root, p["fix"], via_cli, out_path, view)
        judged += 1
        want = "ok" if p["ok"] else "raises"
        fixs = "None" if p["fix"] < 0 else str(p["fix"])
        where = "pass %d (fix=%s)%s after defects %r" % (q + 1, fixs, vs, [(x["u"], x["k"], x["j"]) for x in rec["defects"]])
        if got == "exception":
            kind = "fix-0-skips-validation" if (via_cli and p["fix"] == 0 and not p["ok"]) else "exception"
            ctx.violation(dict(site=I_SITE if via_cli else V_SITE, kind=kind), "%s: %s" % (where, detail), case)
            return judged
        if got != want:
            ctx.violation(dict(site=I_SITE if via_cli else V_SITE, kind=classify_verdict(rec, p, got, via_cli)),
                          "%s: implementation %s, specification %s (%s)" % (where, got, want, detail), case)
            return judged
        stored = DD.norm_dir(DD.read_dir(root, n, ha, hr, cur), ha, hr)
        if DD.diff_dirs(stored, DD.norm_dir(p["after"], ha, hr)):
            if p["ok"]:
                seen = set()
                for kind, text in classify_diffs(rec, p, cur, stored, via_cli):
                    if kind not in seen:  # one report per clause
                        seen.add(kind)
                        sig = dict(site=I_SITE if via_cli else V_SITE, kind=kind)
                        if view != PLAIN:
                            sig["view"] = "tokens_only" if view["tokens_only"] else "sos_eos"
                        ctx.violation(sig, "%s: %s" % (where, text), case)
            else:
                # the property says nothing about the directory after a rejected run
                ctx.count("informational_directory_after_rejected_run_differs_from_model")
            return judged
        cur = p["after"]
        if p["ok"] and p["info"]:
            check_info(ctx, root, p["info"][0], info, case, out_path)
    return judged


# ----------------------------------------------------------------------------- sos / eos
def _rows_to_tensor(rows, nd):
    if nd == 1:
        return torch.tensor(rows, dtype=torch.long) if rows else torch.empty(0, dtype=torch.long)
    return torch.tensor(rows, dtype=torch.long) if rows else torch.empty(0, 3, dtype=torch.long)


def _tensor_to_rows(t):
    return dict(nd=t.dim(), rows=[int(x) for x in t.tolist()] if t.dim() == 1 else [[int(x) for x in r] for r in t.tolist()])


def _sym(x):
    return None if x < 0 else x


def check_ref_case(ctx, r, root, use_lang):
    from pydrobert.torch.data import LangDataSet, SpectDataParams, LangDataParams

    c = r["c"]
    sos, eos = _sym(c["sos"]), _sym(c["eos"])
    route = c.get("route", "params")
    g = c.get("cfg") or dict(psos=c["sos"], peos=c["eos"], ksos=-1, keos=-1, msos=c["sos"], meos=c["eos"])
    case = dict(type=r["what"], r=r, use_lang=use_lang)
    os.makedirs(os.path.join(root, "feat"), exist_ok=True)
    os.makedirs(os.path.join(root, "ref"), exist_ok=True)
    torch.save(torch.zeros(3, 2), os.path.join(root, "feat", "u.pt"))
    torch.save(_rows_to_tensor(c["rows"], c["nd"]), os.path.join(root, "ref", "u.pt"))
    hyp_dir = os.path.join(root, "hyp")
    site_r = "LangDataSet.__getitem__" if use_lang else "SpectDataSet.__getitem__"
    site_w = "LangDataSet.write_hyp" if use_lang else "SpectDataSet.write_hyp"
    how = "sos=%r eos=%r" % (sos, eos)
    if route == "kwarg":
        how += " given as keyword arguments"
    elif route == "mutated":
        how += " in params, changed to sos=%r eos=%r after the data set was built" % (_sym(g["msos"]), _sym(g["meos"]))
    try:
        if use_lang:
            if g["ksos"] >= 0 or g["keos"] >= 0:
                from ..harness import MachineryError

                raise MachineryError("LangDataSet has no sos= / eos= keyword arguments")
            params = LangDataParams(sos=_sym(g["psos"]), eos=_sym(g["peos"]))
            ds = DD.quiet(LangDataSet, os.path.join(root, "ref"), params=params, tokens_only=c["tokens_only"])
        else:
            params = SpectDataParams(sos=_sym(g["psos"]), eos=_sym(g["peos"]))
            kw = dict((k, _sym(g["k" + k])) for k in ("sos", "eos") if g["k" + k] >= 0)
            ds = _dataset(root, params=params, suppress_alis=True, tokens_only=c["tokens_only"], **kw)
        if (g["msos"], g["meos"]) != (g["psos"], g["peos"]):
            params.sos, params.eos = _sym(g["msos"]), _sym(g["meos"])
    except Exception as ex:
        if type(ex).__name__ == "MachineryError":
            raise
        ctx.violation(dict(site=site_r, kind="exception"), "%r: %s %r" % (c, type(ex).__name__, ex), case)
        return
    empty = len(c["rows"]) == 0
    if r["what"] == "ref":
        try:
            item = ds[0]
        except Exception as ex:
            ctx.violation(dict(site=site_r, kind="exception-empty-transcript" if empty else "exception"),
                          "stored %r (%d-D) %s tokens_only=%s: %s %r" % (
                              c["rows"], c["nd"], how, c["tokens_only"], type(ex).__name__, ex), case)
            return
        ref = item if use_lang else item[1]
        got = _tensor_to_rows(ref)
        # the accepted reads: the specification's (symbols as configured when the data set was built); with
        # a parameter object changed afterwards also the one that follows the object
        accepted = [dict(nd=x["nd"], rows=x["rows"]) for x in r.get("reads", [r["read"]])]
        if got not in accepted:
            kind = "reference-read"
            if sos is not None or eos is not None or route == "mutated":
                kind = "sos-eos-missing-on-empty-transcript" if empty else "sos-eos-wrapping"
            sig = dict(site=site_r, kind=kind)
            if route != "params":
                sig["route"] = route
            ctx.violation(sig, "stored %r %s tokens_only=%s: read %r, specification %r" % (
                c["rows"], how, c["tokens_only"], got, accepted), case)
            return
        if got != dict(nd=r["read"]["nd"], rows=r["read"]["rows"]):
            ctx.count("informational_data_set_follows_changed_params")
        hyp = ref
    else:
        hyp = _rows_to_tensor(c["rows"], c["nd"])
    try:
        ds.write_hyp(0, hyp, hyp_dir)
        back = _tensor_to_rows(DD.quiet(torch.load, os.path.join(hyp_dir, "u.pt")))
    except Exception as ex:
        ctx.violation(dict(site=site_w, kind="exception"), "%r: %s %r" % (c, type(ex).__name__, ex), case)
        return
    if back["rows"] != r["written"]:
        sig = dict(site=site_w, kind="round-trip" if r["what"] == "ref" else "sos-eos-stripping")
        if route != "params":
            sig["route"] = route
        ctx.violation(sig, "hypothesis %r %s: written %r, specification %r" % (
            hyp.tolist(), how, back["rows"], r["written"]), case)


# ----------------------------------------------------------------------------- discovery
def check_disc_case(ctx, r, root, rng, pairing=None):
    if pairing is None:
        pairing = rng.randrange(len(DD.PAIRINGS))
    fams = DD.PAIRINGS[pairing]
    case = dict(type="disc", r=r, pairing=pairing)
    os.makedirs(os.path.join(root, "feat"))
    subs = set(f[0] for f in r["files"])
    for sub in ("ali", "ref"):
        if sub in subs or rng.random() < 0.3:  # an empty optional sub-directory changes nothing
            os.makedirs(os.path.join(root, sub))
    for sub, fam, utt in r["files"]:
        pre, suf = fams[fam]
        with open(os.path.join(root, sub, pre + utt + suf), "wb"):
            pass
    pre, suf = fams[r["fam"]]
    try:
        ds = _dataset(root, file_prefix=pre, file_suffix=suf, suppress_alis=r["suppress_alis"],
                      tokens_only=True, warn_on_missing=rng.random() < 0.5)
        got = list(ds.utt_ids)
    except Exception as ex:
        ctx.violation(dict(site="SpectDataSet.find_utt_ids", kind="exception"), "%r: %r" % (r, ex), case)
        return
    if got != sorted(r["listed"]):
        ctx.violation(dict(site="SpectDataSet.find_utt_ids", kind="utterance-set"),
                      "files %r prefix=%r suffix=%r suppress_alis=%s: listed %r, specification %r" % (
                          r["files"], pre, suf, r["suppress_alis"], got, sorted(r["listed"])), case)


def selftest(ctx, hist):
    """Binding self-test: a history whose expected verdict / expected repaired directory has been
    corrupted must be reported."""
    import copy
    import shutil

    from ..harness import MachineryError

    pick = next(r for r in hist if r.get("view", PLAIN) == PLAIN and any(p["ok"] and p["fix"] >= 0 and p["after"] != r["dir"] for p in r["passes"]))
    a = copy.deepcopy(pick)
    a["passes"][0]["ok"] = not a["passes"][0]["ok"]
    b = copy.deepcopy(pick)
    q = next(i for i, p in enumerate(b["passes"]) if p["ok"] and p["fix"] >= 0 and p["after"] != b["dir"])
    for p in b["passes"][q:]:
        p["after"] = b["dir"] if q == 0 else b["passes"][q - 1]["after"]
    sub = type(ctx)(ctx.prop, ctx.tier, ctx.seed, ctx.level)
    try:
        root = os.path.join(sub.subdir("hist"), "d")
        replay_history(sub, a, root, False)
        na = len(sub.violations)
        replay_history(sub, b, root, False)
        nb = len(sub.violations) - na
    finally:
        shutil.rmtree(sub.workdir, ignore_errors=True)
    if na < 1 or nb < 1:
        raise MachineryError("self-test: corrupted expectations were not reported (%d, %d)" % (na, nb))
    ctx.extra["selftest"] = dict(flipped_verdict=na, wrong_repair=nb)


# ----------------------------------------------------------------------------- entry points
def run(ctx):
    ctx.rule = ("every exported directory (base x single defect / pair of defects) with two seeded plans of "
                "fix values out of the exported histories, replayed on a real directory through validate_spect_data_set or the in-process "
                "statistics command; every (directory, view) with a view other than the plain one (data set with sos / eos, "
                "tokens_only) with one seeded plan through validate_spect_data_set on a data set configured that way "
                "(a seeded third, thorough: quarter, of them); every reference / hypothesis case, by every route the symbols can take (params, keyword arguments, params changed after construction), through SpectDataSet and LangDataSet; "
                "discovery cases through SpectDataSet.utt_ids (quick: seeded sample); non-trivial = history "
                "with at least one injected defect (resp. sos or eos set; optional sub-directory present), "
                "distinct by directory + plan")
    ctx.assumptions += [
        "CPU tensors only (no GPU in the sandbox): the CUDA clause is outside the explored universe",
        "token and class ids are non-negative; sos != eos and neither occurs inside a stored transcript",
        "16-bit integer tensors are not injected (the documentation names bytes and 32-bit integers only)",
        "the directory left behind by a REJECTED fix run is modelled but not judged",
        "a tokens_only data set does not present boundaries / dimensionality / width of a 2-D reference to the "
        "validator: defects in them are not injected under such a view (DataDir.tla HiddenByTokensOnly)",
        "rcount_<i> with an empty segment [s, s): the documentation's sum (0 frames) and the "
        "implementation's -1 are both accepted (informational counter)",
    ]
    hist, io = DD.run_design(ctx)
    with DD.Scratch(ctx) as scratch:
        _replay_all(ctx, hist, io, scratch)


def _replay_all(ctx, hist, io, scratch):
    import shutil

    rng = ctx.rng
    ctx.exhaustive = True
    root = os.path.join(scratch.sub("hist"), "d")
    hist.sort(key=lambda r: repr(r))
    # every directory, two of its plans (seeded); TLC has checked all of them.  Views other than the
    # plain one: one plan per (directory, view) for a seeded third (thorough: quarter) of them
    by_dir, by_view = {}, {}
    for rec in hist:
        grp = by_dir if rec["view"] == PLAIN else by_view
        grp.setdefault(repr((rec["dir"], rec["hasali"], rec["hasref"], rec["view"])), []).append(rec)
    nall = len(hist)
    hist = []
    for k in sorted(by_dir):
        g = by_dir[k]
        hist += rng.sample(g, min(2, len(g)))
    nplain = len(hist)
    keys = sorted(by_view)
    frac = 3 if ctx.quick else 4
    keys = sorted(rng.sample(keys, (len(keys) + frac - 1) // frac))
    for k in keys:
        hist.append(rng.choice(by_view[k]))
    ctx.exhaustive = False
    ctx.count("histories_exported", nall)
    ctx.count("directories", len(by_dir))
    ctx.count("directories_x_views", len(by_view))
    ctx.count("histories_replayed_through_a_view", len(hist) - nplain)
    for i, rec in enumerate(hist):
        via_cli = rng.random() < 0.3
        replay_history(ctx, rec, root, via_cli)
        ctx.case(key=("hist", rec["dir"], rec["hasali"], rec["hasref"], rec["view"], [p["fix"] for p in rec["passes"]]),
                 nontrivial=len(rec["defects"]) > 0,
                 sample=dict(defects=rec["defects"], fixes=[p["fix"] for p in rec["passes"]], view=rec["view"],
                             outcomes=[p["ok"] for p in rec["passes"]]) if i in (300, 1100, nplain + 50) else None)
        ctx.traces += 1
    selftest(ctx, hist)
    # sos / eos, by every route
    k = 0
    for what in ("ref", "hyp"):
        for r in sorted(io[what], key=repr):
            c = r["c"]
            for use_lang in (False, True):
                if use_lang and c["route"] == "kwarg":
                    continue  # LangDataSet takes the symbols through its parameter object only
                d = os.path.join(scratch.sub("io"), "r")
                shutil.rmtree(d, ignore_errors=True)
                k += 1
                check_ref_case(ctx, r, d, use_lang)
                ctx.case(key=(what, c, use_lang), nontrivial=c["sos"] >= 0 or c["eos"] >= 0 or c["route"] == "mutated",
                         sample=dict(kind=what, case=c, read=r.get("read"), written=r["written"])
                         if k in (101, 901) else None)
                ctx.traces += 1
    # discovery
    disc = sorted(io["disc"], key=repr)
    if ctx.quick:
        disc = rng.sample(disc, 2000)
        ctx.exhaustive = False
    for i, r in enumerate(disc):
        d = os.path.join(scratch.sub("disc"), "d%d" % (i % 50))
        if os.path.isdir(d):
            shutil.rmtree(d)
        check_disc_case(ctx, r, d, rng)
        ctx.case(key=("disc", r["files"], r["fam"], r["suppress_alis"]),
                 nontrivial=any(f[0] != "feat" and f[1] == r["fam"] for f in r["files"]))
        ctx.traces += 1


def replay(ctx, case):
    import random

    t = case.get("type")
    if t == "history":
        root = os.path.join(ctx.subdir("hist"), "d")
        n = replay_history(ctx, case["rec"], root, case["via_cli"])
        print("replay history: %d pass(es) judged, %d violation(s)" % (n, len(ctx.violations)))
    elif t in ("ref", "hyp"):
        check_ref_case(ctx, case["r"], os.path.join(ctx.subdir("io"), "r"), case["use_lang"])
        print("replay %s: %d violation(s)" % (t, len(ctx.violations)))
    elif t == "disc":
        check_disc_case(ctx, case["r"], os.path.join(ctx.subdir("disc"), "d"), random.Random(0), case.get("pairing"))
        print("replay disc: %d violation(s)" % len(ctx.violations))
    else:
        from ..harness import MachineryError

        raise MachineryError("unknown replay case type %r" % t)


if __name__ == "__main__":
    sys.exit(main(PROP, "model_checking", run, replay))
