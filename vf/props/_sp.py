"""Shared machinery for C07: run the SeqProb* specifications, build tensors / table language models
from the spec's abstract cases, project implementation results back to integer numerators.

Everything that decides a verdict comes from TLC: exported records carry the expected numerators,
counts, supports and greedy paths; recorded walks are accepted or rejected by SeqProbTrace."""
import itertools
import json
import math
import os
import threading
import warnings

import torch

from .. import SPECS, tlc
from ..harness import MachineryError

NOEOS = -100


def spec(name):
    return os.path.join(SPECS, name)


def quiet(fn, *a, **kw):
    with warnings.catch_warnings():
        warnings.simplefilter("ignore")
        return fn(*a, **kw)


def run_parallel(jobs):
    """jobs: list of (name, module, cfg, kwargs) -> dict name -> TLCResult (all started at once)"""
    results, errs, threads = {}, [], []

    def job(name, mod, cfg, kw):
        try:
            results[name] = tlc.run(mod, cfg, **kw)
        except Exception as ex:  # propagate to main thread
            errs.append(ex)

    for name, mod, cfg, kw in jobs:
        th = threading.Thread(target=job, args=(name, mod, cfg, kw))
        th.start()
        threads.append(th)
    for th in threads:
        th.join()
    if errs:
        raise errs[0]
    return results


# ------------------------------------------------------------------ numerators
def to_num(lp, denom, tol=1e-4):
    """log-probability -> integer numerator over `denom`; -1 if it is not (close to) an integer"""
    lp = float(lp)
    if lp != lp:
        return -1
    if lp == float("-inf"):
        return 0
    if lp == float("inf"):
        return -1
    x = math.exp(lp) * denom
    r = round(x)
    if abs(x - r) > tol * max(1.0, abs(r)):
        return -1
    return int(r)


def log_weights(W, dtype, shift=None):
    """integer weights (..., V) -> unnormalised logits log(w) + shift (shift broadcast over V)"""
    x = torch.as_tensor(W, dtype=torch.double).log()
    if shift is not None:
        x = x + shift.unsqueeze(-1)
    return x.to(dtype)


def dyadic_shifts(rng, shape):
    n = 1
    for s in shape:
        n *= s
    vals = [rng.choice((-1.5, -1.0, -0.5, 0.0, 0.5, 1.0, 2.0)) for _ in range(n)]
    return torch.tensor(vals, dtype=torch.double).view(shape)


# ------------------------------------------------------------------ table language models
def code_of(path, V):
    c = 0
    for t in path:
        c = c * (V + 1) + int(t) + 1
    return c


def table_from_spec(tab, V):
    """[{'h': [...], 'row': [...]}, ...] -> {code: [weights]}"""
    return {code_of(e["h"], V): [float(x) for x in e["row"]] for e in tab}


def compositions(total, parts):
    if parts == 1:
        yield (total,)
        return
    for a in range(total + 1):
        for rest in compositions(total - a, parts - 1):
            yield (a,) + rest


def random_table(rng, V, T, D, force_eos=None, zero_ok=True):
    """a table over every history of length < T: [{'h', 'row'}]; rows are random compositions of D.
    force_eos: eos id; histories of length T - 1 then put all mass on eos (walks without a step limit
    terminate)"""
    rows = [r for r in compositions(D, V) if zero_ok or min(r) > 0]
    tab = []
    for L in range(T):
        for h in itertools.product(range(V), repeat=L):
            if force_eos is not None and L == T - 1:
                row = [D if v == force_eos else 0 for v in range(V)]
            else:
                row = list(rng.choice(rows))
            tab.append({"h": list(h), "row": row})
    return tab


def make_lm(tables_spec, V, dtype=torch.double, D=None, inplace=False):
    from ..doubles.tablelm import TableLM

    return TableLM(V, [table_from_spec(t, V) for t in tables_spec], D=D, dtype=dtype, inplace=inplace)


def trunc(path, eos):
    if eos is None or eos == NOEOS:
        return list(path)
    out = []
    for t in path:
        out.append(int(t))
        if int(t) == eos:
            break
    return out


# ------------------------------------------------------------------ trace validation
def validate_traces(ctx, name, V, T, D, tables, traces, workdir):
    """Write tables+traces to one file, run SeqProbTrace over it.
    Returns (res, report) with report[tid] = dict(pos=max consumed, done=bool, accepted=bool, flags=...)"""
    path = os.path.join(workdir, "traces_%s.json" % name)
    with open(path, "w") as f:
        json.dump({"tables": tables, "traces": traces}, f)
    cfg = os.path.join(workdir, "SeqProbTrace_%s.cfg" % name)
    tlc.write_cfg(
        cfg, init="TraceInit", next="TraceNext",
        constants={"V": V, "T": T, "D": D, "Rows": "{}", "EosSet": "{}", "NB": 1},
        invariants=["TypeOK", "ChainScores", "WalkShape", "TerminalInSupport", "EosPadding",
                    "SupportSumsToOne", "Report", "Accept"],
        postcondition="Post",
    )
    return path, cfg


def trace_jobs_run(jobs):
    """jobs: list of (name, trace_path, cfg) -> dict name -> TLCResult"""
    return run_parallel([
        (name, spec("SeqProbTrace.tla"), cfg,
         dict(workers=1, env={"TRACE_FILE": path}, coverage=False, timeout=1800))
        for name, path, cfg in jobs
    ])


def trace_report(res, traces, what):
    """Interpret a SeqProbTrace run.  Returns dict tid -> info for REJECTED traces only.
    A failure of a design invariant of the walk machine (not Accept/Post) is machinery."""
    accepted = set()
    progress = {}
    summary = None
    for r in res.records:
        if "accepted" in r:
            summary = r
        elif "acc" in r:
            accepted.add(r["acc"])
        elif "tid" in r:
            p = progress.setdefault(r["tid"], dict(pos=-1))
            if r["pos"] > p["pos"]:
                p.update(r)
    if not res.ok:
        err = res.error or ""
        if "Post" not in err and "ostcondition" not in err:
            raise tlc.TLCFailure("trace validation %s: design invariant / evaluation failure: %s\n%s" % (
                what, err, res.stdout[-3000:]))
    if summary is None:
        raise MachineryError("trace validation %s: no summary record (TLC output:\n%s)" % (what, res.stdout[-2000:]))
    if summary["total"] != len(traces):
        raise MachineryError("trace validation %s: TLC saw %d traces, %d written" % (what, summary["total"], len(traces)))
    rejected = {}
    for tr in traces:
        if tr["tid"] not in accepted:
            rejected[tr["tid"]] = progress.get(tr["tid"], dict(pos=-1))
    if summary["accepted"] != len(accepted):
        raise MachineryError("trace validation %s: acceptance counter %d != %d emitted" % (
            what, summary["accepted"], len(accepted)))
    if (len(rejected) == 0) != bool(res.ok):
        raise MachineryError("trace validation %s: postcondition and acceptance records disagree" % what)
    return rejected
