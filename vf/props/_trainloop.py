"""Shared by X04: run a WHOLE training job -- the canonical loop of the documentation -- on the real
TrainingStateController and the real SpectDataLoader, on real files, killing and restarting it where a
behaviour of TrainLoop.tla says, and record the trace TrainLoopTrace.tla validates.

The loop (one call of `_image` = one process image; everything it builds is dropped at a crash):

    ctl = TrainingStateController(params, csv, dir); epoch = ctl.get_last_epoch()
    loader = SpectDataLoader(data_dir, dl_params, init_epoch=epoch, seed=S, shuffle=True)
    ctl.load_model_and_optimizer_for_epoch(model, optim, epoch)
    while ctl.continue_training():
        for batch in loader: weight := (31 * weight + u) mod P for every utterance number u of the batch, in order
        ctl.update_for_epoch(model, optim, train_loss, val_loss)

The model is a 1x1 Linear (float64, exact on these integers) whose reset_parameters draws the initial integer weight
from torch's generator, so the initial weight is a function of params.seed exactly as the controller seeds it."""
import math
import os
import shutil
import tempfile
import warnings

import torch

from .. import SPECS
from ..doubles.fsinterposer import Crash, FsInterposer
from . import _batching as B
from . import _tc
from .c16 import namer

MOD = os.path.join(SPECS, "TrainLoopMC.tla")
TRACE_MOD = os.path.join(SPECS, "TrainLoopTrace.tla")
TRACE_CFG = os.path.join(SPECS, "TrainLoopTrace.cfg")
ACTIONS = ["Init", "Start", "BeginEpoch", "Finish", "Batch", "BeginUpdate", "FsQuiet", "Replace", "AppendRow", "Remove",
           "Return", "Crash"]
MODULUS = 1000003  # TrainLoopTrace!Modulus (31 * MODULUS < 2^31: TLC integers)
BSZ = 2
LENS = [3, 2, 4, 1, 5, 2]  # frames of utterance 1..6


class IntLinear(torch.nn.Linear):
    def __init__(self):
        super().__init__(1, 1, bias=False, dtype=torch.float64)

    def reset_parameters(self):
        with torch.no_grad():
            self.weight.fill_(float(torch.randint(1, 1000, (1,)).item()))


def weight_of(model):
    v = float(model.weight.detach().flatten()[0])
    return int(round(v)) if v == v and abs(v) < 2 ** 40 else -7


def lrk_of(lr):
    """lr = FACTOR ** lrk"""
    try:
        k = math.log(lr) / math.log(_tc.FACTOR)
    except (ValueError, ZeroDivisionError):
        return -7
    return int(round(k)) if abs(k - round(k)) < 1e-6 and abs(k) < 1000 else -7


class Interposer(FsInterposer):
    @staticmethod
    def content_of(obj):
        try:
            if "weight" in obj:
                return dict(k="m", w=int(round(float(obj["weight"].flatten()[0]))), l=0)
            if "param_groups" in obj:
                g = obj["param_groups"][0]
                return dict(k="o", w=int(g.get("vf_w", -7)), l=lrk_of(g["lr"]))
        except Exception:
            pass
        return dict(k="?", w=-7, l=-7)


def ev(op, e=0, a=0, w=0, x=0, l=0, k="", v=0, c=False, ids=()):
    return dict(op=op, e=int(e), a=int(a), w=int(w), x=int(x), l=int(l), k=k, v=int(v), c=bool(c), ids=[int(i) for i in ids])


class DataDirs:
    """one real data directory per number of utterances (read-only, shared by every job)"""

    def __init__(self, root):
        self.root = root
        self.made = {}

    def get(self, n):
        if n not in self.made:
            d = os.path.join(self.root, "data%d" % n)
            Ts = LENS[:n]
            B.build_dir(d, Ts, [Ts[(i + 1) % n] for i in range(n)], with_ali=False)
            self.made[n] = d
        return self.made[n]


def n_for(nb, odd):
    """utterances for nb batches of BSZ (the last batch incomplete when odd)"""
    return max(1, BSZ * nb - (1 if odd else 0))


class JobFailed(Exception):
    pass


class Job:
    """spec: dict(p, keep, M, nb, sched); conf: dict(data_dir, n, seed (loader), pseed (params.seed), mistake, sides)"""

    def __init__(self, workdir, spec, conf):
        self.dir = workdir
        self.csv = os.path.join(workdir, "hist.csv")
        self.state_dir = os.path.join(workdir, "states")
        self.spec = spec
        self.conf = conf
        self.params = _tc.make_params(spec["p"], spec["keep"])
        self.params.seed = conf["pseed"]
        self.names = dict((B.utt_name(i), i + 1) for i in range(conf["n"]))
        self.events = []
        self.pending = [dict(c) for c in spec["sched"]]
        self.images = 0
        self.fs_crashes = 0

    # -- crash plan
    def _due(self, at, e, j):
        c = self.pending[0] if self.pending else None
        return c is not None and c["at"] == at and c["e"] == e and c["j"] == j

    def _maybe_crash(self, at, e, j):
        if self._due(at, e, j):
            self.pending.pop(0)
            raise Crash("%s e=%d j=%d" % (at, e, j))

    # -- one process image
    def _image(self):
        from pydrobert.torch.data import SpectDataLoader, SpectDataLoaderParams
        from pydrobert.torch.training import TrainingStateController

        self.images += 1
        # a new process has an unrelated generator state: whatever must be reproducible has to come from the seeds
        torch.manual_seed(1000003 * self.images + self.conf["seed"] % 9973 + 17)
        evs = self.events
        M = self.spec["M"]
        model = IntLinear()
        with torch.no_grad():
            model.weight.fill_(-1.0)
        opt = torch.optim.SGD(model.parameters(), lr=123.0, momentum=0.5)
        ctl = TrainingStateController(self.params, self.csv, self.state_dir, warn=False)
        epoch = ctl.get_last_epoch()
        loader = SpectDataLoader(self.conf["data_dir"], SpectDataLoaderParams(batch_size=BSZ, drop_last=False),
                                 init_epoch=0 if self.conf.get("mistake") else epoch, seed=self.conf["seed"], shuffle=True,
                                 suppress_uttids=False, num_workers=0)
        try:
            ctl.load_model_and_optimizer_for_epoch(model, opt, epoch)
        except Exception as ex:
            evs.append(ev("start_failed"))
            raise JobFailed("load_model_and_optimizer_for_epoch(%r) raised %s: %s" % (epoch, type(ex).__name__, ex))
        evs.append(ev("start", e=epoch, a=loader.epoch, w=weight_of(model), x=opt.param_groups[0].get("vf_w", 0) if epoch else 0,
                      l=lrk_of(opt.param_groups[0]["lr"])))
        while True:
            self._maybe_crash("check", ctl.get_last_epoch(), 0)
            if not ctl.continue_training():
                evs.append(ev("finish"))
                break
            last = ctl.get_last_epoch()
            evs.append(ev("begin", e=last, a=loader.epoch))
            e = last + 1
            if e > len(M) or len(evs) > 400:
                evs.append(ev("runaway", e=e))
                raise JobFailed("the job trains epoch %d although the budget is %d" % (e, len(M)))
            j = 0
            for batch in loader:
                ids = [self.names[u] for u in batch[-1]]
                w = weight_of(model)
                for u in ids:
                    w = (31 * w + u) % MODULUS
                with torch.no_grad():
                    model.weight.fill_(float(w))
                j += 1
                evs.append(ev("batch", ids=ids, w=w))
                self._maybe_crash("iter", e, j)
            v = M[e - 1]
            opt.param_groups[0]["vf_w"] = weight_of(model)  # tags the optimizer checkpoint with the weight it belongs to
            evs.append(ev("update", e=e, v=v))
            crash_at = None
            if self._due("fs", e, self.pending[0]["j"] if self.pending else -1):
                k = self.pending[0]["j"]
                crash_at = (k, "after") if self.conf.get("side", "after") == "after" else (k + 1, "before")
            trn = ((v * 3 + e) % 5) + 1  # TrainCtl!TrainOf
            try:
                with Interposer(namer, crash_at, observer=self._observe):
                    cont = ctl.update_for_epoch(model, opt, trn * _tc.UNIT, v * _tc.UNIT)
            except Crash:
                self.pending.pop(0)
                self.fs_crashes += 1
                raise
            evs.append(ev("updated", c=bool(cont)))
        return ctl

    def _observe(self, x):
        op = x["op"]
        if op == "makedirs":
            if os.path.abspath(x.get("raw", "")).startswith(os.path.abspath(self.dir)):
                self.events.append(ev("makedirs"))
        elif op == "mktemp":
            self.events.append(ev("mktemp"))
        elif op == "write":
            c = x["content"]
            self.events.append(ev("write", k=c["k"], w=c["w"], l=c["l"]))
        elif op == "replace":
            self.events.append(ev("replace", k=str(x["dst"][0]), e=x["dst"][1] if isinstance(x["dst"][1], int) else -1))
        elif op == "append":
            try:
                with open(self.csv) as f:
                    line = f.read().strip().split("\n")[-1].split(",")
                self.events.append(ev("append", e=int(line[0]), a=int(line[2]), l=lrk_of(float(line[5])),
                                      v=int(round(float(line[7]) / _tc.UNIT))))
            except Exception:
                self.events.append(ev("append", e=-1))
        elif op == "remove":
            self.events.append(ev("remove", k=str(x["path"][0]), e=x["path"][1] if isinstance(x["path"][1], int) else -1))

    # -- the job: images until one ends by itself
    def run(self):
        """-> dict(events, failed, crashes, csv, rows, final_w, best, best_w, files, unreached)"""
        out = dict(failed=None, known_c16=False)
        ctl = None
        with warnings.catch_warnings():
            warnings.simplefilter("ignore")
            for _ in range(len(self.spec["sched"]) + 2):
                try:
                    ctl = self._image()
                    break
                except Crash:
                    self.events.append(ev("crash"))
                    ctl = None
                except JobFailed as ex:
                    out["failed"] = str(ex)
                    # the two-crash / epoch-less windows of update_for_epoch recorded for C16 (not reachable in the scope
                    # of this check: default formats, at most one crash inside update_for_epoch)
                    out["known_c16"] = self.events[-1]["op"] == "start_failed" and self.fs_crashes >= 2
                    break
                except Exception as ex:
                    out["failed"] = "%s: %s" % (type(ex).__name__, ex)
                    break
            else:
                out["failed"] = "the job did not end"
            if ctl is not None and out["failed"] is None:
                try:
                    b = ctl.get_best_epoch()
                    m2 = IntLinear()
                    ctl.load_model_for_epoch(m2)
                    self.events.append(ev("best", e=b, w=weight_of(m2)))
                    out["best"], out["best_w"] = b, weight_of(m2)
                    m3 = IntLinear()
                    ctl.load_model_for_epoch(m3, ctl.get_last_epoch())
                    out["final_w"] = weight_of(m3)
                except Exception as ex:
                    out["failed"] = "loading the best / last epoch after the job raised %s: %s" % (type(ex).__name__, ex)
        out["events"] = self.events
        out["unreached"] = self.pending
        out["csv"] = ""
        if os.path.exists(self.csv):
            with open(self.csv) as f:
                out["csv"] = f.read()
        try:
            import csv as _csv
            import io

            out["rows"] = [_tc.parse_csv_line(x, entries=False) for x in _csv.DictReader(io.StringIO(out["csv"]))]
        except Exception as ex:
            out["rows"] = None
            out["failed"] = out["failed"] or "history file cannot be parsed: %r" % ex
        out["files"] = sorted(f for f in (os.listdir(self.state_dir) if os.path.isdir(self.state_dir) else [])
                              if f.startswith(("model_", "optim_")))
        return out


def run_job(item):
    """pmap worker: item = (spec, conf, base_dir) -> result of Job.run (the job's files are removed)"""
    spec, conf, base = item
    d = tempfile.mkdtemp(dir=base)
    try:
        return Job(d, spec, conf).run()
    finally:
        shutil.rmtree(d, ignore_errors=True)


def trace_of(tid, spec, conf, events):
    return dict(tid=tid, p=spec["p"], keep=bool(spec["keep"]), M=list(spec["M"]), nb=spec["nb"], n=conf["n"], events=events)
