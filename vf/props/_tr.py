"""Shared machinery for C11 / C17: run Transcripts.tla and WorkerPool.tla, build concrete python
values / files from the abstract cases they export, project implementation results back."""
import os
import threading

from .. import SPECS, tlc
from ..harness import MachineryError

TR_MOD = os.path.join(SPECS, "TranscriptsMC.tla")
WP_MOD = os.path.join(SPECS, "WorkerPool.tla")
TRN_ACTIONS = ["Init", "Prepare", "ReadToken", "OpenAlt", "NewBranch", "CloseAlt", "EndLine"]
WP_ACTIONS = ["Init", "TakeAny", "FinishAny", "DeliverOrdered", "DeliverUnordered"]

# ---------------------------------------------------------------------------------------------
# name tables (abstract small naturals -> strings).  Tokens: order never matters.  Utterances,
# waveforms and channels: the spec orders them numerically, python orders the strings, so these
# tables must be increasing as strings (checked below).
TOKEN_TABLES = [
    {0: "<fill>", 1: "a", 2: "b", 3: "c"},
    {0: "sil", 1: "abc", 2: "x-1", 3: "10"},
    {0: "@", 1: "10", 2: "9", 3: "%hes"},
]
UTT_TABLES = [
    ["u1", "u2", "u3", "u4", "u5"],
    ["10", "9", "utt-a", "utt_b", "zz"],
    ["A-1", "a", "b.c", "sw02001", "sw02001-B"],
]
# trn only: a token is any string free of the format's delimiters (the blank U+0020, braces / slash standing alone,
# line breaks, the trailing "(id)") that neither begins nor ends with white space (Transcripts.tla, "What a TOKEN is").
# White space other than the blank INSIDE a token is part of it: no-break space ("10 000" typeset with U+00A0), tab,
# ideographic space U+3000, thin space U+2009.  (Not for ctm / TextGrid / token maps: their fields are split on any
# white space or quoted, a different notion of token.)
TRN_TOKEN_TABLES = TOKEN_TABLES + [
    {0: "<fill>", 1: "10\u00a0000", 2: "a\tb", 3: "x\u3000y"},
    {0: "sil", 1: "et\u2009al.", 2: "1\u00a0\u00bd", 3: "c\td\u00a0e"},
]
for _t in TRN_TOKEN_TABLES:
    for _v in _t.values():
        if not _v or _v != _v.strip() or any(c in _v for c in " \n\r(){}/") or len(set(_t.values())) != len(_t):
            raise MachineryError("not a table of distinct trn tokens: %r" % (_t,))
TRN_UTT_TABLES = UTT_TABLES + [["my utt", "2", "x.y", "u-4", "u 5"]]  # trn: ids may hold spaces
WAVE_TABLES = [["w1", "w2", "w3"], ["940328", "sw02001", "sw02005"]]
CHAN_TABLES = [["A", "B"], ["1", "2"]]
for _t in UTT_TABLES + WAVE_TABLES + CHAN_TABLES:
    if sorted(_t) != _t or len(set(_t)) != len(_t):
        raise MachineryError("name table not strictly increasing: %r" % (_t,))


_FAST = {}


def fast_scratch(ctx, name):
    """a scratch directory for the many small files the replay writes: tmpfs when there is one
    (an order of magnitude faster than the disk behind /tmp for mkdir / rmdir), else under
    ctx.workdir.  Removed at interpreter exit at the latest; nothing depends on it surviving."""
    import atexit
    import shutil
    import tempfile

    if name not in _FAST:
        d = None
        if os.path.isdir("/dev/shm") and os.access("/dev/shm", os.W_OK):
            try:
                d = tempfile.mkdtemp(prefix="vf_%s_%s_" % (ctx.prop, name), dir="/dev/shm")
                atexit.register(shutil.rmtree, d, True)
            except OSError:
                d = None
        _FAST[name] = d or ctx.subdir(name)
    return _FAST[name]


def _run_parallel(jobs):
    """jobs: list of (name, module, cfg, kwargs) -> dict name -> TLCResult (threads; TLC is a subprocess)"""
    out, errs = {}, []

    def job(name, mod, cfg, kw):
        try:
            out[name] = tlc.run(mod, cfg, **kw)
        except Exception as ex:
            errs.append(ex)

    ts = [threading.Thread(target=job, args=j) for j in jobs]
    for t in ts:
        t.start()
    for t in ts:
        t.join()
    if errs:
        raise errs[0]
    return out


def _fam_cfg(ctx, tier_cfg, fam, override=()):
    """one TLC run per family (or group "a+b" of small families): the .cfg is the committed one with `Fams`
    narrowed; override: definitions replaced by deliberately wrong ones (fault runs)"""
    with open(os.path.join(SPECS, tier_cfg)) as f:
        txt = f.read()
    if "Fams <- AllFams" not in txt:
        raise MachineryError("unexpected cfg layout in " + tier_cfg)
    tag = fam + ("_fault" if override else "")
    p = os.path.join(ctx.subdir("cfg"), "%s_%s" % (tag, tier_cfg))
    with open(p, "w") as f:
        f.write(txt.replace("Fams <- AllFams", "Fams = {%s}" % ", ".join('"%s"' % x for x in fam.split("+"))
                            + "".join("\n  %s <- %s" % kv for kv in override)))
    return p


# families that share a TLC run (JVM start-up dominates the small ones)
FAM_GROUPS = {"tg": "tg+tgu", "tgu": "tg+tgu", "ctm": "ctm+trnid", "trnid": "ctm+trnid"}
# deliberately wrong definitions that the design invariants of a family must reject (non-vacuity of the
# universes: a tier spanning "first listed .. last listed", a reader stripping the utterance id, a ctm reader that
# takes only positional decimals for numbers)
FAULTS = {"tgu": ((("TguLo", "TguLoFirstListed"), ("TguHi", "TguHiLastListed")), "TguRoundTrip"),
          "trnid": ((("ReadId", "ReadIdStripping"),), "TrnIdRoundTrip"),
          "ctm": ((("CtmFieldOK", "CtmFieldPlainOnly"),), "CtmRoundTrip")}


def _tok8_cfg(ctx, tier_cfg):
    """the token-conversion family once more in units of 1/8 ms (sub-millisecond frame shifts)"""
    import re

    p = _fam_cfg(ctx, tier_cfg, "tok")
    with open(p) as f:
        txt = f.read()
    txt2 = re.sub(r"TokTimes <- \w+", "TokTimes <- TokTimesSubMs", txt)
    txt2 = re.sub(r"Shifts <- \w+", "Shifts <- ShiftsSubMs", txt2)
    if txt2 == txt:
        raise MachineryError("unexpected cfg layout in " + tier_cfg)
    p8 = p.replace("tok_", "tok8_")
    with open(p8, "w") as f:
        f.write(txt2)
    return p8


def transcripts_jobs(ctx, fams):
    cfg = "Transcripts_quick.cfg" if ctx.quick else "Transcripts_thorough.cfg"
    groups = []
    for fam in fams:
        g = FAM_GROUPS.get(fam, fam)
        g = "+".join(x for x in g.split("+") if x in fams)
        if g not in groups:
            groups.append(g)
    jobs = [("Transcripts/" + g, TR_MOD, _fam_cfg(ctx, cfg, g), dict(workers=4, timeout=1500)) for g in groups]
    for fam in fams:
        if fam in FAULTS:  # (always on the quick universe: a counterexample is all that is wanted)
            jobs.append(("TranscriptsFault/" + fam, TR_MOD, _fam_cfg(ctx, "Transcripts_quick.cfg", fam, FAULTS[fam][0]),
                         dict(workers=2, timeout=600, coverage=False)))
    if "tok" in fams:
        jobs.append(("Transcripts/tok8", TR_MOD, _tok8_cfg(ctx, cfg), dict(workers=4, timeout=1500)))
    return jobs


def pool_jobs(ctx, with_design=True):
    sched = "WorkerPool_sched_quick.cfg" if ctx.quick else "WorkerPool_sched_thorough.cfg"
    jobs = [("WorkerPool/schedules", WP_MOD, os.path.join(SPECS, sched), dict(workers=4, timeout=1500))]
    if with_design:
        jobs.append(("WorkerPool/design", WP_MOD, os.path.join(SPECS, "WorkerPool_design.cfg"),
                     dict(workers=4, timeout=1500)))
    return jobs


def run_all(ctx, fams, pool=True, extra_jobs=()):
    """Runs the design checks + exports.  Returns (records by family, schedules, results)."""
    jobs = transcripts_jobs(ctx, fams) + (pool_jobs(ctx) if pool else []) + list(extra_jobs)
    res = _run_parallel(jobs)
    recs = {}
    for name, r in sorted(res.items()):
        if name.startswith("TranscriptsFault/"):
            want = FAULTS[name.split("/")[1]][1]
            if r.ok or ("Invariant %s is violated" % want) not in (r.error or ""):
                raise MachineryError("%s: the deliberately wrong definition was not rejected by %s (%s)"
                                     % (name, want, r.error))
            ctx.add_tlc("%s (expected violation of %s)" % (name, want), r, count_states=False)
            continue
        tlc.require_ok(r, name)
        ctx.add_tlc(name, r)
        if name.startswith("Transcripts/"):
            fam = name.split("/")[1]
            tlc.require_covered(r, ["Init", "Prepare"] + (TRN_ACTIONS if fam == "trn" else []), name)
            these = sorted(r.records, key=lambda x: repr(x))
            if fam == "tok8":
                for x in these:
                    x["upm"] = 8  # units per millisecond
            for f in (["tok"] if fam == "tok8" else fam.split("+")):
                mine = [x for x in these if x["fam"] == f]
                if not mine:
                    raise MachineryError("no %s cases exported for %s" % (f, name))
                recs.setdefault(f, [])
                recs[f] += mine
        elif name.startswith("WorkerPool/"):
            tlc.require_covered(r, WP_ACTIONS, name)
    schedules = None
    if pool:
        schedules = group_schedules(res["WorkerPool/schedules"].records)
    return recs, schedules, res


def group_schedules(records):
    """(nchunks, W, mode) -> sorted list of event lists; checks that the unordered discipline really
    can deliver out of order (otherwise a switch imap -> imap_unordered would be invisible)."""
    sch = {}
    for r in records:
        sch.setdefault((r["nchunks"], r["W"], r["mode"]), []).append(r["events"])
    for k in sch:
        sch[k].sort()
    if not sch:
        raise MachineryError("WorkerPool exported no behaviours")
    for (n, w, mode), lst in sch.items():
        if mode == "unordered" and n >= 2:
            if not any([e[1] for e in ev if e[0] == "deliver"] != list(range(1, n + 1)) for ev in lst):
                raise MachineryError("no out-of-order behaviour for %r" % ((n, w, mode),))
        if mode == "ordered":
            if any([e[1] for e in ev if e[0] == "deliver"] != list(range(1, n + 1)) for ev in lst):
                raise MachineryError("ordered behaviour out of order (spec export broken)")
    return sch


def simulate_schedules(ctx, n, c, w, num, seed):
    """thorough: behaviours of a large instance sampled by TLC -simulate"""
    p = os.path.join(ctx.subdir("cfg"), "wp_sim_%d_%d_%d.cfg" % (n, c, w))
    tlc.write_cfg(p, constants=dict(Ns="{%d}" % n, Cs="{%d}" % c, Ws="{%d}" % w,
                                    Modes='{"ordered", "unordered"}', KeepHist="TRUE"),
                  invariants=["TypeOK", "OrderedOK", "OrderedPrefix", "UnorderedOK", "Export"])
    nch = (n + c - 1) // c
    r = tlc.run(WP_MOD, p, workers=4, simulate="num=%d" % num, depth=3 * nch + 2, seed=seed, timeout=900)
    tlc.require_ok(r, "WorkerPool/simulate")
    ctx.add_tlc("WorkerPool/simulate n=%d c=%d W=%d" % (n, c, w), r, count_states=False)
    return group_schedules(r.records)


# ---------------------------------------------------------------------------------------------
# trn: abstract <-> python
def trn_item_py(x, tt, top=True):
    if "tok" in x:
        return tt[x["tok"]]
    branches = [[trn_item_py(y, tt, False) for y in b] for b in x["alt"]]
    return (branches, -1, -1) if top else branches


def trn_py(tr, tt):
    return [trn_item_py(x, tt) for x in tr]


def trn_abs(tr, inv):
    """project what read_trn returned to the abstract syntax; raises ValueError on foreign shapes"""

    def item(x, top):
        if isinstance(x, str):
            if x not in inv:
                raise ValueError("unknown token %r" % (x,))
            return {"tok": inv[x]}
        if top:
            if not (isinstance(x, tuple) and len(x) == 3 and x[1] == -1 and x[2] == -1):
                raise ValueError("top-level alternate is not (branches, -1, -1): %r" % (x,))
            x = x[0]
        if not isinstance(x, list) or not all(isinstance(b, list) for b in x):
            raise ValueError("alternate is not a list of branches: %r" % (x,))
        return {"alt": [[item(y, False) for y in b] for b in x]}

    return [item(x, True) for x in tr]


def trn_line_text(lex, utt, tt):
    d = {-1: "{", -2: "/", -3: "}"}
    return "".join((tt[x] if x > 0 else d[x]) + " " for x in lex) + "(" + utt + ")\n"


def inv_table(tt):
    return {v: k for k, v in tt.items()}
