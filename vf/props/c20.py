"""C20 (partial) -- attention is a masked convex combination of values, blind to masked positions.

spec -> code (Attention.tla).  TLC has checked on the core model that the code-shaped
Score -> Mask -> Softmax -> Sum machine equals the declarative masked convex combination and that
the latter is Convex, MaskBlind, PermutationInvariant and ScaleInvariant; on the shape algebra that
the constructive layouts are exactly the Legal shape combinations, OutShape and BroadcastIsExpand; and
it has exported the oracle table Out(flavour/parameters, query content, key content) in exact
rationals.  For every legal layout (every rank, every broadcasting pattern of query against key,
every legal `dim`, positive or negative) and every flavour the harness builds tensors whose attention
weights are rational (keys = log of small integers, integer queries / matrices), fills masked
positions of BOTH key and value with seeded garbage, and calls the real module four ways: garbage A,
garbage B, positions permuted consistently, query explicitly expanded.  All four must equal the single
spec value of every output cell, which decides convexity (the spec value is convex), mask blindness,
permutation invariance and broadcast = expand without ever comparing the implementation with itself.
MultiHeadedAttention gets integer projection matrices and every subset of the four biases.
LONG sequences: TLC also checks EmbedInvariant (a case over T positions equals the case over n > T positions whose extra
positions are masked and hold anything, wherever the T positions sit) and ReplicaInvariant (repeating every position the
same number of times changes nothing).  Every case is therefore run once more as a sequence of 1024..3000 positions
with the SAME spec value: embedded (at the end, at the start, across 1024 / 2048, behind the last multiple of 1024, at
random places; everything else masked garbage) or replicated (tiled or shuffled copies; without a mask when the case
keeps every position).

NOT decided: the tanh score of ConcatSoftAttention for non-degenerate parameters (only the zero
weight matrix -> uniform weights is in the universe); non-integer projection parameters."""
import itertools
import json
import math
import os
import sys
import time

import torch

from .. import SPECS, tlc
from ..harness import MachineryError, main

PROP = "C20"
DT = torch.float64
TOL = 1e-9
MAX_PER_SIG = 12
ACTIONS = ["Init", "Score", "Mask", "Softmax", "WeightedSum", "Evaluate"]


def _viol(ctx, sig, detail, case):
    key = json.dumps(sig, sort_keys=True)
    n = ctx.counters.get("viol:" + key, 0)
    ctx.count("viol:" + key)
    if n < MAX_PER_SIG:
        ctx.violation(sig, detail, case)


def run_spec(ctx):
    tier = "quick" if ctx.quick else "thorough"
    res = tlc.run(os.path.join(SPECS, "AttentionMC%s.tla" % tier), os.path.join(SPECS, "Attention_%s.cfg" % tier),
                  workers=16, timeout=3000)
    tlc.require_ok(res, "Attention")
    tlc.require_covered(res, ACTIONS, "Attention")
    ctx.add_tlc("Attention", res)
    layouts = [r for r in res.records if r["kind"] == "layout"]
    table = [r for r in res.records if r["kind"] == "table"]
    if not layouts or not table:
        raise MachineryError("Attention export is empty")
    return layouts, table


def pid_of(p):
    return "%s%s" % (p["id"][0], p["id"][1])


def kc_key(kc):
    return json.dumps(kc, sort_keys=True)


class Oracle:
    """the exported table: (param id, query, key content) -> Out (list of rationals)"""

    def __init__(self, table):
        self.out = {}
        self.params = {}
        self.queries = {}
        self.keys = {}
        for r in table:
            pid = pid_of(r["p"])
            self.params[pid] = r["p"]
            self.out[(pid, tuple(r["q"]), kc_key(r["kc"]))] = r["out"]
            self.queries.setdefault(pid, set()).add(tuple(r["q"]))
            self.keys.setdefault(pid, {}).setdefault(r["kc"]["T"], {})[kc_key(r["kc"])] = r["kc"]
        for pid in self.params:
            self.queries[pid] = sorted(self.queries[pid])
            for T in self.keys[pid]:
                self.keys[pid][T] = [self.keys[pid][T][k] for k in sorted(self.keys[pid][T])]

    def lookup(self, pid, q, kc):
        try:
            return self.out[(pid, tuple(q), kc_key(kc))]
        except KeyError:
            raise MachineryError("oracle has no entry for %s %r" % (pid, q))


# ---------------------------------------------------------------------------------------------
# building the case: contents per query index / key index, tensors
# ---------------------------------------------------------------------------------------------
def indices(shape):
    return list(itertools.product(*[range(n) for n in shape]))


def project(i, shape):
    """the spec's Project: read a broadcast operand through an output index"""
    return tuple(0 if shape[j] == 1 else i[j] for j in range(len(shape)))


def choose_contents(rng, oracle, pid, layout, full_keep=False):
    ks, qs, T = layout["ks"], layout["qs"], layout["T"]
    pool = oracle.keys[pid].get(T, [])
    if full_keep:
        pool = [k for k in pool if len(k["keep"]) == T]
    if not pool:
        return None
    kcs = {i: rng.choice(pool) for i in indices(ks)}
    qcs = {i: list(rng.choice(oracle.queries[pid])) for i in indices(qs)}
    return dict(kcs=[[list(i), kcs[i]] for i in sorted(kcs)], qcs=[[list(i), qcs[i]] for i in sorted(qcs)])


def expected(oracle, pid, layout, contents):
    kcs = {tuple(i): kc for i, kc in contents["kcs"]}
    qcs = {tuple(i): q for i, q in contents["qcs"]}
    exp = {}
    for i in indices(layout["lead"]):
        out = oracle.lookup(pid, qcs[project(i, layout["qs"])], kcs[project(i, layout["ks"])])
        exp[i] = [o[0] / o[1] for o in out]
    return exp


LONG_L = (1500, 2548, 1024, 2048, 1500, 2548, 1025, 3000)
EMBED_MODES = ("end", "random", "straddle", "tail", "start", "random")
REPLICA_MODES = ("shuffled", "tiled", "shuffled_some")


def long_source(T, L, mode, g):
    """Attention!EmbedInvariant / ReplicaInvariant: -> src, a LongTensor of length L; src[x] = t (0-based position of the case
    that position x of the long sequence repeats: key, value and mask bit) or -1 (an extra position: masked, holding
    garbage).  Every position of the case occurs the same number of times."""
    src = torch.full((L,), -1, dtype=torch.long)

    def rand(n):
        return int(torch.randint(n, (1,), generator=g))

    if mode in ("end", "start", "straddle"):
        if mode == "end":
            start = L - T
        elif mode == "start":
            start = 0
        else:
            # across a multiple of 1024 (where an implementation that works in blocks would cut), or the middle
            bounds = [b for b in (1024, 2048) if b < L] or [L // 2]
            start = bounds[rand(len(bounds))] - rand(T + 1)
        start = max(0, min(start, L - T))
        src[start:start + T] = torch.randperm(T, generator=g)
    elif mode in ("random", "tail"):
        lo = 0
        if mode == "tail":
            lo = min((L - 1) // 1024 * 1024, L - T)  # behind the last multiple of 1024
        where = torch.randperm(L - lo, generator=g)[:T] + lo
        src[where] = torch.arange(T)
    elif mode == "tiled":
        n = (L // T) * T
        src[:n] = torch.arange(n) % T
    elif mode in ("shuffled", "shuffled_some"):
        c = L // T if mode == "shuffled" else 2 + rand(max(1, L // T - 1))
        where = torch.randperm(L, generator=g)[:c * T]
        src[where] = torch.arange(c * T) % T
    else:
        raise MachineryError("unknown long mode %r" % mode)
    counts = torch.bincount(src[src >= 0], minlength=T)
    if int(counts.min()) < 1 or int(counts.min()) != int(counts.max()):
        raise MachineryError("long_source: counts %r" % counts.tolist())
    return src


def build_long_tensors(layout, contents, gseed, long, extreme=False):
    """the case of `contents` (T positions) as a sequence of long['L'] positions: -> query, key, value, mask"""
    ks, qs, T, d = layout["ks"], layout["qs"], layout["T"], layout["d"]
    L = long["L"]
    g = torch.Generator().manual_seed(gseed)
    kshape = list(ks[:d]) + [L] + list(ks[d:])
    fk, fv, fq = layout["kshape"][-1], layout["vshape"][-1], layout["qshape"][-1]
    key = torch.randn(kshape + [fk], generator=g, dtype=DT) * 7 + 3
    value = torch.randn(kshape + [fv], generator=g, dtype=DT) * 50 - 20
    if extreme:
        sign = torch.where(torch.rand(kshape + [fk], generator=g) < 0.7, 1.0, -1.0).to(DT)
        key = sign * (2000.0 + 500.0 * torch.rand(kshape + [fk], generator=g, dtype=DT))
        value = value * 200.0
    # one source map per key row (rows in the row-major order of their index over ks), then gather
    rows = sorted(contents["kcs"], key=lambda x: list(x[0]))
    if [list(i) for i, _ in rows] != [list(i) for i in indices(ks)]:
        raise MachineryError("key contents do not cover the key's leading shape")
    srcs = torch.stack([long_source(T, L, long["mode"], g) for _ in rows])  # (rows, L)
    srcc = srcs.clamp_min(0)
    keep = torch.tensor([[(t + 1) in kc["keep"] for t in range(T)] for _, kc in rows])
    ksmall = torch.tensor([[[math.log(b) for b in kc["kb"][t]] for t in range(T)] for _, kc in rows], dtype=DT)
    vsmall = torch.tensor([[[float(v) for v in kc["val"][t]] for t in range(T)] for _, kc in rows], dtype=DT)
    kept = (srcs >= 0) & keep.gather(1, srcc)  # masked positions of the case keep their garbage, like the extra positions
    nl = len(ks)

    def place(x):  # (rows, L, ...) -> T at position d of the key's leading dims
        return x.view(*(list(ks) + list(x.shape[1:]))).movedim(nl, d)

    mask = place(kept).contiguous()
    key = torch.where(mask.unsqueeze(-1), place(ksmall.gather(1, srcc.unsqueeze(-1).expand(-1, -1, fk))), key)
    value = torch.where(mask.unsqueeze(-1), place(vsmall.gather(1, srcc.unsqueeze(-1).expand(-1, -1, fv))), value)
    query = torch.zeros(list(qs) + [fq], dtype=DT)
    for i, q in contents["qcs"]:
        query[tuple(i)] = torch.tensor([float(x) for x in q], dtype=DT)
    return query, key, value, mask


def build_tensors(layout, contents, gseed, perm_seed=None, expand_query=False, extreme=False, offset=0.0, long=None):
    """-> query, key, value, mask (mask True = keep); T at position d of key/value/mask"""
    if long is not None:
        return build_long_tensors(layout, contents, gseed, long, extreme=extreme)
    ks, qs, T, d = layout["ks"], layout["qs"], layout["T"], layout["d"]
    g = torch.Generator().manual_seed(gseed)
    kshape = list(ks[:d]) + [T] + list(ks[d:])
    fk = layout["kshape"][-1]
    fv = layout["vshape"][-1]
    # garbage everywhere first (large, varied, both signs), then the real content at kept positions
    key = torch.randn(kshape + [fk], generator=g, dtype=DT) * 7 + 3
    value = torch.randn(kshape + [fv], generator=g, dtype=DT) * 50 - 20
    if extreme:
        # "replaced by anything": masked scores far above (and below) every kept one -- a softmax taken over all
        # positions and renormalised afterwards underflows on the kept ones
        sign = torch.where(torch.rand(kshape + [fk], generator=g) < 0.7, 1.0, -1.0).to(DT)
        key = sign * (2000.0 + 500.0 * torch.rand(kshape + [fk], generator=g, dtype=DT))
        value = value * 200.0
    mask = torch.zeros(kshape, dtype=torch.bool)
    pg = torch.Generator().manual_seed(perm_seed) if perm_seed is not None else None
    for i, kc in contents["kcs"]:
        perm = torch.randperm(T, generator=pg).tolist() if pg is not None else list(range(T))
        for t in range(T):
            pos = perm[t]  # spec position t+1 is stored at tensor position pos
            idx = tuple(i[:d]) + (pos,) + tuple(i[d:])
            if (t + 1) in kc["keep"]:
                mask[idx] = True
                # offset: the same vector added to every KEPT key shifts all of a query's scores by one amount that does
                # not depend on the position (Attention!ScaleInvariant: a common factor of the weights cancels)
                key[idx] = torch.tensor([math.log(b) + offset for b in kc["kb"][t]], dtype=DT)
                value[idx] = torch.tensor([float(v) for v in kc["val"][t]], dtype=DT)
    fq = layout["qshape"][-1]
    query = torch.zeros(list(qs) + [fq], dtype=DT)
    for i, q in contents["qcs"]:
        query[tuple(i)] = torch.tensor([float(x) for x in q], dtype=DT)
    if expand_query:
        query = query.expand(list(layout["lead"]) + [fq]).contiguous()
    return query, key, value, mask


# ---------------------------------------------------------------------------------------------
# building the module
# ---------------------------------------------------------------------------------------------
def build_module(p, dim, seed, shared_kv=False):
    """-> (module, info).  info['bias_present'] for mha.
    shared_kv (mha only): the module for ONE tensor serving as key and as value -- its features are the key features
    followed by the value features, W^K reads the first part and W^V the second (zero columns elsewhere), so that
    module(query, kv, kv, mask) computes exactly what module(query, key, value, mask) computes"""
    from pydrobert.torch import modules as M

    g = torch.Generator().manual_seed(seed)
    fl = p["fl"]
    info = {}
    if fl == "dot":
        m = M.DotProductSoftAttention(2, dim, float(p["s"]))
    elif fl == "gen":
        m = M.GeneralizedDotProductSoftAttention(2, 2, dim, bool(p["hasb"]))
        with torch.no_grad():
            m.weight.copy_(torch.tensor(p["W"], dtype=torch.float32))
            if p["hasb"]:
                m.bias.copy_(torch.randint(-3, 4, (2,), generator=g).float())
    elif fl == "concat0":
        m = M.ConcatSoftAttention(2, 2, dim, True, hidden_size=3)
        with torch.no_grad():
            m.weight.zero_()
            m.bias.copy_(torch.randn(3, generator=g))
            m.v.copy_(torch.randn(3, generator=g))
    elif fl == "mha":
        H = len(p["WQ"])
        dq, dk, dv = len(p["WQ"][0]), len(p["WK"][0]), len(p["WV"][0])
        if dq != dk:
            raise MachineryError("model uses d_q = d_k")
        use = set(p["use"])
        single = M.DotProductSoftAttention(dq, dim, float(p["s"]))
        kvs = 4 if shared_kv else 2
        m = M.MultiHeadedAttention(2, kvs, kvs, H, single, out_size=len(p["WC"]), d_v=dv,
                                   bias_WQ="Q" in use, bias_WK="K" in use, bias_WV="V" in use, bias_WC="C" in use)
        present = {}
        with torch.no_grad():
            for name, W, b in (("Q", p["WQ"], p["bQ"]), ("K", p["WK"], p["bK"]), ("V", p["WV"], p["bV"])):
                lin = getattr(m, "W" + name)
                rows = [list(row) for h in W for row in h]
                if shared_kv and name == "K":
                    rows = [r + [0, 0] for r in rows]
                elif shared_kv and name == "V":
                    rows = [[0, 0] + r for r in rows]
                lin.weight.copy_(torch.tensor(rows, dtype=torch.float32))
                present[name] = lin.bias is not None
                # a bias is written only where one was REQUESTED and exists; an unrequested bias
                # parameter keeps the library's own (random) initialisation
                if name in use and lin.bias is not None:
                    lin.bias.copy_(torch.tensor([x for h in b for x in h], dtype=torch.float32))
            m.WC.weight.copy_(torch.tensor(p["WC"], dtype=torch.float32))
            present["C"] = m.WC.bias is not None
            if "C" in use and m.WC.bias is not None:
                m.WC.bias.copy_(torch.tensor(p["bC"], dtype=torch.float32))
        info["bias_present"] = present
        info["bias_requested"] = {k: k in use for k in "QKVC"}
    else:
        raise MachineryError("unknown flavour %r" % fl)
    return m.double().eval(), info


SITES = {"dot": "DotProductSoftAttention", "gen": "GeneralizedDotProductSoftAttention",
         "concat0": "ConcatSoftAttention", "mha": "MultiHeadedAttention"}


def compare(out, exp, layout, out_feat):
    """-> None if equal to the spec value in every cell, else (kind, detail)"""
    want_shape = tuple(layout["lead"]) + (out_feat,)
    if tuple(out.shape) != want_shape:
        return "shape", "output shape %r, spec OutShape %r" % (tuple(out.shape), want_shape)
    worst = None
    for i, e in exp.items():
        got = out[i].tolist()
        for dd in range(out_feat):
            gv = got[dd]
            if not (gv == gv) or abs(gv - e[dd]) > TOL * max(1.0, abs(e[dd])):
                err = float("inf") if gv != gv else abs(gv - e[dd])
                if worst is None or err > worst[0]:
                    worst = (err, i, dd, gv, e[dd])
    if worst is None:
        return None
    return "value", "output cell %r[%d] = %r, spec value %r" % (worst[1], worst[2], worst[3], worst[4])


def run_case(ctx, oracle, layout, pid, contents, seed, use_mask=True, replaying=False):
    """one spec case = layout x flavour x contents; four implementation runs against the one spec value.
    Returns True if everything matched."""
    p = oracle.params[pid] if oracle is not None else contents["p"]
    dim = layout["dim"]
    site = SITES[p["fl"]]
    case = dict(layout=layout, pid=pid, p=p, contents=contents, seed=seed, use_mask=use_mask)
    sigbase = dict(site=site, negative_dim=dim < 0)
    if p["fl"] == "mha":
        sigbase["mask_given"] = bool(use_mask)
    try:
        module, info = build_module(p, dim, seed)
    except MachineryError:
        raise
    except Exception as ex:
        _viol(ctx, dict(sigbase, kind="exception", where="constructor", exc=type(ex).__name__), "raised %r" % ex, case)
        return False
    ok = True
    bias_mismatch = []
    if p["fl"] == "mha":
        bias_mismatch = [k for k in "QKVC" if info["bias_present"][k] != info["bias_requested"][k]]
        if bias_mismatch:
            ok = False
            _viol(ctx, dict(site=site, kind="bias_presence", projections="".join(bias_mismatch)),
                  "bias requested %r but present %r" % (info["bias_requested"], info["bias_present"]), case)
    exp = contents["expected"]
    out_feat = len(next(iter(exp.values())))
    variants = [("garbageA", dict(gseed=seed)), ("garbageB", dict(gseed=seed + 7919)),
                ("permuted", dict(gseed=seed + 1, perm_seed=seed + 2))]
    if list(layout["qs"]) != list(layout["lead"]):
        variants.append(("expanded", dict(gseed=seed + 3, expand_query=True)))
    if use_mask:
        variants.append(("garbageX", dict(gseed=seed + 11, extreme=True)))
        # kept scores far below / above anything a finite stand-in for "minus infinity" could be
        variants.append(("offset-", dict(gseed=seed + 13, offset=-1.0e5)))
        variants.append(("offset+", dict(gseed=seed + 17, offset=1.0e5)))
    # long sequences (EmbedInvariant / ReplicaInvariant): the same case, the same spec value; one of the two per case
    T = layout["T"]
    if not use_mask:
        # no mask at all: every position is a replica (the long length is rounded down to a multiple of T)
        L = (LONG_L[seed % len(LONG_L)] // T) * T
        variants.append(("replicated_long", dict(gseed=seed + 23, long=dict(L=L, mode=("shuffled", "tiled")[(seed // 3) % 2]))))
    elif seed % 2:
        L = LONG_L[(seed // 2) % len(LONG_L)]
        variants.append(("embedded_long", dict(gseed=seed + 19, long=dict(L=L, mode=EMBED_MODES[(seed // 16) % len(EMBED_MODES)]),
                                               extreme=bool((seed // 4) % 2))))
    else:
        L = LONG_L[(seed // 2) % len(LONG_L)]
        variants.append(("replicated_long", dict(gseed=seed + 23, long=dict(L=L, mode=REPLICA_MODES[(seed // 16) % len(REPLICA_MODES)]))))
    shared = None
    if p["fl"] == "mha" and layout["kshape"][-1] == 2 and layout["vshape"][-1] == 2:
        # self-attention style: ONE tensor object given as key and as value (att(q, enc, enc, mask))
        try:
            shared = build_module(p, dim, seed, shared_kv=True)[0]
            variants.append(("key_is_value", dict(gseed=seed + 29)))
        except MachineryError:
            raise
        except Exception as ex:
            _viol(ctx, dict(sigbase, kind="exception", where="constructor", exc=type(ex).__name__), "raised %r" % ex, case)
            return False
    first_bad = None
    for name, kw in variants:
        t0 = time.time()
        q, k, v, m = build_tensors(layout, contents, **kw)
        try:
            with torch.no_grad():
                if name == "key_is_value":
                    kv = torch.cat([k, v], -1)
                    out = shared(q, kv, kv, m if use_mask else None)
                else:
                    out = module(q, k, v, m if use_mask else None)
            if "long" in kw:
                ctx.extra["long_variant_s"] = round(ctx.extra.get("long_variant_s", 0.0) + time.time() - t0, 4)
                ctx.extra["long_variants"] = ctx.extra.get("long_variants", 0) + 1
        except Exception as ex:
            ok = False
            _viol(ctx, dict(sigbase, kind="exception", exc=type(ex).__name__), "%s: raised %r" % (name, ex),
                  dict(case, variant=name))
            break
        bad = compare(out, exp, layout, out_feat)
        if bad is None:
            continue
        ok = False
        kind, detail = bad
        if kind == "value":
            if first_bad is None and name != "garbageA":
                # the first run matched the spec: the failure is a dependence on what varied
                kind = {"garbageB": "masked_content_dependence", "garbageX": "masked_content_dependence",
                        "offset-": "score_offset_dependence", "offset+": "score_offset_dependence", "permuted": "permutation_dependence",
                        "expanded": "broadcast_differs_from_expand", "embedded_long": "long_sequence_embedding",
                        "replicated_long": "long_sequence_replication",
                        "key_is_value": "key_and_value_one_tensor"}[name]
            elif dim < 0:
                kind = "value_negative_dim"
            elif p["fl"] == "mha" and set(bias_mismatch) & set("QVC"):
                kind = "value_bias"
        where = name if "long" not in kw else "%s: %d positions, %s" % (name, kw["long"]["L"], kw["long"]["mode"])
        _viol(ctx, dict(sigbase, kind=kind), "%s (dim=%d, %s): %s" % (pid, dim, where, detail), dict(case, variant=name))
        first_bad = first_bad or name
        if name == "garbageA":
            break  # the remaining runs would only repeat the same mismatch
    return ok


def nontrivial(contents):
    return any(len(kc["keep"]) >= 2 for _, kc in contents["kcs"])


def run(ctx):
    ctx.rule = ("every legal layout of Attention.tla (leading dims of size 1..2, every broadcasting pattern of query "
                "against key/value/mask, sequence dim anywhere, dim given positive or negative) x flavour/parameter set "
                "(dot-product scale 1 and 2, generalised with integer matrices +- bias, concat with zero matrix, "
                "multi-headed with integer projections and each of the 16 bias subsets) x seeded choice of query/key "
                "contents from the spec's table; each case run as garbage A / garbage B / permuted / expanded-query and "
                "compared cell by cell with the spec's exact rational value, plus one long-sequence run (1024..3000 positions: the "
                "case embedded among masked garbage positions, or every position replicated equally often; "
                "Attention!EmbedInvariant / ReplicaInvariant) against the same value; non-trivial = some key row keeps >= 2 "
                "positions; distinct by (layout, flavour, contents)")
    ctx.assumptions += [
        "NOT DECIDED: ConcatSoftAttention's tanh score for non-degenerate parameters (only the zero weight matrix, "
        "i.e. uniform weights, is in the universe; bias and v are seeded random)",
        "NOT DECIDED: non-integer projection / score parameters (attention weights would not be rational)",
        "keys are logarithms of integers 1..3, queries and matrices small integers, values small integers; modules "
        "run in float64, comparison tolerance 1e-9",
        "long sequences are built from the small cases only (EmbedInvariant / ReplicaInvariant, TLC-checked for up to 4 "
        "positions): at most 3 distinct kept (key, value) contents per row, repeated / surrounded by masked positions; "
        "lengths 1024, 1025, 1500, 2048, 2548, 3000",
        "key, value and mask share their leading dimensions as documented ((B*, T, C*)); broadcasting is between the "
        "query and that common shape; dimension sizes 1..2, at most 2 (quick) / 3 (thorough) leading dimensions",
        "a bias on the key projection of multi-headed attention shifts all scores of a head equally and is therefore "
        "not observable in the output (TLC: KeyBiasInvisible); its presence is checked on the parameter list",
        "multi-head parameter layout: head h owns rows h*d..(h+1)*d-1 of the projections and columns "
        "h*d_v..(h+1)*d_v-1 of the output projection (heads concatenated in order, as documented)",
        "MultiHeadedAttention is exercised with non-negative dim only (negative dims are documented as rejected)",
    ]
    layouts, table = run_spec(ctx)
    oracle = Oracle(table)
    pids = sorted(oracle.params)
    single = [p for p in pids if oracle.params[p]["fl"] != "mha"]
    mha = [p for p in pids if oracle.params[p]["fl"] == "mha"]
    layouts.sort(key=lambda l: json.dumps(l, sort_keys=True))
    per_layout_mha = 8 if ctx.quick else 12
    ncase = 0
    for li, layout in enumerate(layouts):
        chosen = list(single)
        if layout["dim"] >= 0:
            # a rotating selection: over the layouts every parameter set / bias subset meets every
            # kind of layout many times
            chosen += sorted({mha[(li * 5 + (4 if ctx.quick else 3) * j) % len(mha)] for j in range(per_layout_mha)})
        for pid in chosen:
            for rep in range(1):
                full = (ncase % 5 == 4)
                contents = choose_contents(ctx.rng, oracle, pid, layout, full_keep=full)
                if contents is None:
                    continue
                contents["expected"] = expected(oracle, pid, layout, contents)
                seed = ctx.seed * 1000003 + ncase
                run_case(ctx, oracle, layout, pid, contents, seed, use_mask=not full or ncase % 2 == 0)
                ncase += 1
                ctx.case(key=(li, pid, json.dumps(contents["kcs"]), json.dumps(contents["qcs"])),
                         nontrivial=nontrivial(contents),
                         sample=dict(layout=layout, flavour=pid, query_contents=contents["qcs"],
                                     key_contents=contents["kcs"],
                                     expected={str(k): v for k, v in contents["expected"].items()})
                         if ctx.rng.random() < 0.0008 else None)
                ctx.traces += 1
    # every layout and every table entry is enumerated by TLC; the implementation sees every layout x
    # flavour with a SEEDED choice of contents, so the replayed product is not exhaustive
    ctx.exhaustive = False
    ctx.extra["exhaustive_parts"] = ["TLC: core semantics, layouts, oracle table", "replay: every layout x single-head flavour"]
    ctx.extra["layouts"] = len(layouts)
    ctx.extra["table_entries"] = len(table)
    ctx.extra["negative_dim_layouts"] = len([l for l in layouts if l["dim"] < 0])
    if not ctx.samples:
        ctx.samples.append(dict(layout=layouts[len(layouts) // 2]))


def replay(ctx, case):
    contents = dict(case["contents"])
    contents["expected"] = {tuple(int(x) for x in k.strip("()[] ").replace(",", " ").split()): v
                            for k, v in contents["expected"].items()}
    contents["p"] = case["p"]
    ok = run_case(ctx, None, case["layout"], case["pid"], contents, case["seed"], case["use_mask"])
    print("replay %s dim=%d: %s" % (case["pid"], case["layout"]["dim"], "ok" if ok else "still differs"))


if __name__ == "__main__":
    sys.exit(main(PROP, "model_checking", run, replay))
