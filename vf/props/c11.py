"""C11 -- transcript files read back what was written.

spec -> code.  TLC enumerates the universes of specs/Transcripts.tla (trn collections with nested
alternates, ctm collections with every waveform/channel map, TextGrid transcripts x precisions x tier
options, transcripts x token-map / unk / frame-shift settings), checks the code-shaped descriptions
of the formats (lexeme stack machine, sorted lines + grouping, rounding + fill loop, frame formulas)
against the declarative statements, and exports every case together with the value a write
followed by a read must return.  Each case is written with the real writer (once through an open
file, once through a path: bytes compared), read with the real reader and compared with the
exported value.  read_trn(processes=k) is replayed under every behaviour of specs/WorkerPool.tla
through vf/doubles/fakepool.py.

Two further families: "tgu" -- TextGrid tiers whose entries are listed in any order and may overlap or
nest; the spec fixes the multiset of entries read back, the tier's start / end (earliest start, latest end:
every entry lies inside them) and, on disjoint entries, the filling computed from those bounds; "trnid" --
trn lines at character level, utterance ids padded with spaces / tabs on either side (and ids that differ
only in their padding) come back verbatim, with one worker and under a pool behaviour.  For both a
deliberately wrong definition (tier = first listed .. last listed; id stripped) is run through TLC and must
be rejected by the family's invariant.

ctm times are counts of a unit that is part of the case: besides the millisecond, units so fine (2^-16 s, 10^-7 s, a
duration of a few 2^-48 s on a 1/8 s grid) or so coarse (10^16 s) that write_ctm prints the fields in scientific
notation.  The spec derives the notation of every field from its magnitude (Notation), states that the reader converts
both notations (CtmReadable, part of CtmRoundTrip) and a reader that takes only positional decimals for numbers must be
rejected by TLC (fault run CtmFieldOK <- CtmFieldPlainOnly)."""
import io
import os
import sys
import warnings

from ..harness import main, MachineryError
from ..doubles import fakepool
from . import _tr

PROP = "C11"
FILL = 0  # abstract fill token of the spec


def _data():
    from pydrobert.torch import data

    return data


def _quiet(fn, *a, **kw):
    with warnings.catch_warnings():
        warnings.simplefilter("ignore")
        return fn(*a, **kw)


def _read_bytes(p):
    with open(p, "rb") as f:
        return f.read()


def _write_both(ctx, site, writer, args, kwargs, case, tag):
    """writer(*args, <file or path>, **kwargs) through an open file and through a path.
    Returns (path of the file written through the open file, bytes) or None after an exception."""
    d = _tr.fast_scratch(ctx, "io")
    pa, pb = os.path.join(d, tag + "_file"), os.path.join(d, tag + "_path")
    try:
        with open(pa, "w") as f:
            _quiet(writer, *args, f, **kwargs)
    except Exception as ex:
        ctx.violation(dict(site=site, kind="exception", via="file"), "open file: raised %r" % (ex,), case)
        return None
    try:
        _quiet(writer, *args, pb, **kwargs)
    except Exception as ex:
        ctx.violation(dict(site=site, kind="exception", via="path"), "path: raised %r" % (ex,), case)
        return None
    a, b = _read_bytes(pa), _read_bytes(pb)
    return pa, a, b


# =============================================================================================
# trn
# family trnid: characters of an utterance id (0 space, -1 tab, 1.. letters); letters are strings free of
# white space and of the format's delimiters
ID_CHAR_TABLES = [{1: "u", 2: "7"}, {1: "spk1", 2: "utt-2"}, {1: "c", 2: "x.y_z"}]


def id_str(chars, i):
    t = dict(ID_CHAR_TABLES[(i // 3) % len(ID_CHAR_TABLES)])
    t.update({0: " ", -1: "\t"})
    return "".join(t[c] for c in chars)


def trn_build(rec, i):
    # (tables 3, 4: tokens with interior white space that is not the blank -- one token each, alternates or not)
    tt = _tr.TRN_TOKEN_TABLES[i % len(_tr.TRN_TOKEN_TABLES)]
    if "ids" in rec:  # family trnid: the ids are part of the exported case
        ut = [id_str(x, i) for x in rec["ids"]]
    else:
        ut = _tr.TRN_UTT_TABLES[(i // 3) % len(_tr.TRN_UTT_TABLES)]
    return tt, ut, [(ut[j], _tr.trn_py(tr, tt)) for j, tr in enumerate(rec["coll"])]


def check_trn_case(ctx, rec, i):
    data = _data()
    tt, ut, transcripts = trn_build(rec, i)
    case = dict(fam=rec.get("fam", "trn"), rec=rec, i=i, python=repr(transcripts))
    w = _write_both(ctx, "write_trn", data.write_trn, (transcripts,), {}, case, "trn")
    if w is None:
        return
    pa, a, b = w
    if a != b:
        ctx.violation(dict(site="write_trn", kind="path_vs_file_bytes"),
                      "path wrote %r, open file wrote %r" % (b[:200], a[:200]), case)
    text = "".join(_tr.trn_line_text(lex, ut[j], tt) for j, lex in enumerate(rec["lex"]))
    if a.decode() != text:
        ctx.count("informational_trn_rendering_differs")
    try:
        if i % 2:
            got = _quiet(data.read_trn, pa, False)
        else:
            with open(pa) as f:
                got = _quiet(data.read_trn, f, i % 4 == 0)
    except Exception as ex:
        ctx.violation(dict(site="read_trn", kind="exception"), "read of %r raised %r" % (a[:200], ex), case)
        return
    exp_utts = [ut[j] for j in range(len(rec["coll"]))]
    try:
        inv = _tr.inv_table(tt)
        got_abs = [_tr.trn_abs(tr, inv) for _, tr in got]
    except ValueError as ex:
        ctx.violation(dict(site="read_trn", kind="value"), "unexpected structure: %s (file %r)" % (ex, a[:200]), case)
        return
    if [u for u, _ in got] != exp_utts:
        sig = dict(site="read_trn", kind="utterances")
        if [u for u, _ in got] == [u.strip() for u in exp_utts]:
            sig["cls"] = "id_stripped"  # (the ids come back without their leading / trailing white space)
        ctx.violation(sig, "utterance ids %r, written %r (file %r)" % ([u for u, _ in got], exp_utts, a[:200]), case)
    elif got_abs != rec["coll"]:
        ctx.violation(dict(site="read_trn", kind="value"),
                      "read %r, written %r (file %r)" % (got, transcripts, a[:200]), case)
    else:
        return a.decode()
    return None


def check_trn(ctx, recs):
    for i, rec in enumerate(recs):
        depth = max(rec["depth"])
        ntok = sum(len([x for x in lex if x > 0]) for lex in rec["lex"])
        ctx.case(key=("trn", rec["coll"]), nontrivial=depth >= 1 or ntok >= 2 or len(rec["coll"]) >= 2,
                 sample=dict(fam="trn", collection=rec["coll"], lexemes=rec["lex"]) if i % 2500 == 7 else None)
        check_trn_case(ctx, rec, i)
        ctx.traces += 1


def check_trnid(ctx, recs, schedules):
    """utterance ids with leading / trailing spaces and tabs (TrnIdRoundTrip): verbatim with one worker, and --
    for files of several lines -- under a behaviour of WorkerPool.tla"""
    if not any(any(r["padded"]) for r in recs) or not any(r["twins"] for r in recs):
        raise MachineryError("the trnid universe holds no padded ids / no ids differing only in padding")
    inv_tables = [_tr.inv_table(tt) for tt in _tr.TOKEN_TABLES]
    for i, rec in enumerate(recs):
        ctx.case(key=("trnid", rec["ids"]), nontrivial=any(rec["padded"]),
                 sample=dict(fam="trnid", ids=rec["ids"], line_characters=rec["chars"]) if i % 150 == 75 else None)
        before = len(ctx.violations) + sum(ctx.known_hits.values())
        text = check_trn_case(ctx, rec, i)
        ctx.traces += 1
        n = len(rec["ids"])
        if text is None or n < 2 or len(ctx.violations) + sum(ctx.known_hits.values()) != before:
            continue
        tt, ut, _ = trn_build(rec, i)
        ws = sorted(W for (nch, W, mode) in schedules if nch == n and mode == "ordered")
        if not ws:
            continue
        expected = [(ut[j], rec["coll"][j]) for j in range(n)]
        check_pool_case(ctx, text, expected, tt, schedules, (n, ws[i % len(ws)]), i, 1)
        ctx.traces += 1
        ctx.evaluations += 1


# =============================================================================================
# worker pool: read_trn(processes=k)
def pool_lines(recs, rng, n):
    """n abstract lines (each an exported single-line collection), alternates and plain ones mixed"""
    singles = [r for r in recs if len(r["coll"]) == 1]
    rich = [r for r in singles if max(r["depth"]) >= 1]
    plain = [r for r in singles if max(r["depth"]) == 0 and len(r["lex"][0]) >= 1]
    out = []
    for k in range(n):
        src = rich if k % 2 == 0 else plain
        out.append(src[rng.randrange(len(src))])
    return out


def pool_file(ctx, lines, n, tt, name):
    # ids neither sorted nor all distinct: the order of the list is the order of the FILE, not of the ids
    ut = ["utt%02d" % ((5 * k + 3) % 17) if k != 2 else "utt03" for k in range(len(lines))]
    path = os.path.join(_tr.fast_scratch(ctx, "io"), name)
    text = "".join(_tr.trn_line_text(lines[k]["lex"][0], ut[k], tt) for k in range(n))
    with open(path, "w") as f:
        f.write(text)
    expected = [(ut[k], lines[k]["coll"][0]) for k in range(n)]
    return path, text, expected


def check_pool_case(ctx, text, expected, tt, schedules, key, pick, chunk, via_path=False, real=False,
                    pool_cls=fakepool.FakePool):
    """one read_trn(processes=W) run under behaviour `pick` of (nchunks, W); expected: spec value"""
    data = _data()
    nchunks, W = key
    inv = _tr.inv_table(tt)
    case = dict(fam="pool", text=text, expected=expected, table=tt, key=list(key), pick=pick, chunk=chunk, real=real)
    if not real:
        for m in ("ordered", "unordered"):
            lst = schedules[(nchunks, W, m)]
            case["events_" + m] = lst[pick % len(lst)]
    plan = fakepool.Plan(schedules, pick)
    try:
        if real:
            got = _quiet(data.read_trn, io.StringIO(text), False, W, chunk)
        else:
            with fakepool.installed(plan, pool_cls):
                got = _quiet(data.read_trn, io.StringIO(text), False, W, chunk)
    except fakepool.FakePoolError as ex:
        raise MachineryError("FakePool: %s" % ex)
    except Exception as ex:
        ctx.violation(dict(site="read_trn", kind="exception", processes="many"),
                      "read_trn(processes=%d) raised %r" % (W, ex), case)
        return None
    if not real:
        if len(plan.calls) != 1:
            raise MachineryError("read_trn(processes=%d) made %d pool calls" % (W, len(plan.calls)))
        call = plan.calls[0]
        ctx.count("pool_calls_" + call["method"])
        if call["nchunks"] != nchunks:
            raise MachineryError("chunking differs from the plan: %r vs %r" % (call["nchunks"], nchunks))
    try:
        got_abs = [(u, _tr.trn_abs(tr, inv)) for u, tr in got]
    except ValueError as ex:
        ctx.violation(dict(site="read_trn", kind="value", processes="many"), str(ex), case)
        return None
    if got_abs != expected:
        same_set = sorted(map(repr, got_abs)) == sorted(map(repr, expected))
        ctx.violation(dict(site="read_trn", kind="schedule_order" if same_set else "schedule_value", processes="many"),
                      "read_trn(processes=%d, chunk_size=%d) returned %r; the single-process list is %r"
                      % (W, chunk, [u for u, _ in got_abs], [u for u, _ in expected]), case)
    return got_abs


def _finish_order(events):
    return [e[1] for e in events if e[0] == "finish"]


def check_pool(ctx, recs, schedules):
    data = _data()
    # token tables by turns: the plain one and the two whose tokens hold interior non-blank white space
    tables = [_tr.TRN_TOKEN_TABLES[k] for k in (0, len(_tr.TOKEN_TABLES), len(_tr.TOKEN_TABLES) + 1)]
    maxn = max(k[0] for k in schedules)
    lines = pool_lines(recs, ctx.rng, 2 * maxn)
    ran = turn = 0
    for (nchunks, W, mode) in sorted(schedules):
        if mode != "ordered":
            continue
        behaviours = schedules[(nchunks, W, mode)]
        for chunk in (1, 2):
            for n in ((nchunks,) if chunk == 1 else (2 * nchunks - 1, 2 * nchunks)):
                tt = tables[turn % len(tables)]
                inv = _tr.inv_table(tt)
                turn += 1
                _, text, expected = pool_file(ctx, lines, n, tt, "pool.trn")
                # the single-process list must be the spec's list to begin with
                try:
                    single = [(u, _tr.trn_abs(tr, inv)) for u, tr in _quiet(data.read_trn, io.StringIO(text), False)]
                except Exception as ex:  # (IOError of the reader, ValueError of the projection: foreign tokens)
                    single = repr(ex)
                if single != expected:
                    ctx.violation(dict(site="read_trn", kind="value"), "single-process read differs from the spec",
                                  dict(fam="pool", text=text, expected=expected, table=tt, key=[nchunks, W], pick=0,
                                       chunk=chunk, real=False, single=True))
                    continue
                for pick, ev in enumerate(behaviours):
                    fo = _finish_order(ev)
                    ctx.case(key=("pool", nchunks, W, chunk, n, pick), nontrivial=fo != sorted(fo),
                             sample=dict(fam="pool", lines=n, chunk_size=chunk, processes=W, events=ev)
                             if (pick, chunk, n) == (len(behaviours) // 2, 1, 3) else None)
                    check_pool_case(ctx, text, expected, tt, schedules, (nchunks, W), pick, chunk)
                    ctx.traces += 1
                    ran += 1
    ctx.extra["pool_behaviours_replayed"] = ran
    # the path entry point (drops chunk_size: one chunk of <= 1000 lines; harmless, recorded)
    for tt in tables:
        inv = _tr.inv_table(tt)
        path, text, expected = pool_file(ctx, lines, min(4, maxn), tt, "pool_path.trn")
        plan = fakepool.Plan(schedules, 0)
        case = dict(fam="pool", text=text, expected=expected, table=tt, key=[1, 2], pick=0, chunk=1000, real=False)
        try:
            with fakepool.installed(plan):
                got = _quiet(data.read_trn, path, False, 2, 1)
        except fakepool.FakePoolError as ex:
            raise MachineryError("FakePool: %s" % ex)
        except Exception as ex:
            ctx.violation(dict(site="read_trn", kind="exception", processes="many", via="path"),
                          "read_trn(path, processes=2): %r" % (ex,), case)
            continue
        try:
            got_abs = [(u, _tr.trn_abs(tr, inv)) for u, tr in got]
        except ValueError as ex:
            got_abs = str(ex)
        if plan.calls and plan.calls[0]["chunksize"] != 1:
            ctx.count("informational_read_trn_path_ignores_chunk_size")
        if got_abs != expected:
            ctx.violation(dict(site="read_trn", kind="schedule_value", processes="many", via="path"),
                          "read_trn(path, processes=2) differs from the single-process list", case)
    tt = tables[1]
    if ctx.quick:
        return
    # thorough: sampled behaviours of a 20-line file, and a few real pools
    for (c, w) in ((1, 3), (3, 2), (2, 4)):
        sim = _tr.simulate_schedules(ctx, 20, c, w, 150, ctx.seed + 31 * c + w)
        lines20 = pool_lines(recs, ctx.rng, 20)
        _, text, expected = pool_file(ctx, lines20, 20, tt, "pool20.trn")
        nch = (20 + c - 1) // c
        for pick, ev in enumerate(sim.get((nch, w, "ordered"), [])):
            fo = _finish_order(ev)
            ctx.case(key=("pool20", c, w, fo), nontrivial=fo != sorted(fo))
            check_pool_case(ctx, text, expected, tt, sim, (nch, w), pick, c)
            ctx.traces += 1
        ctx.count("pool_simulated_behaviours", len(sim.get((nch, w, "ordered"), [])))
    lines20 = pool_lines(recs, ctx.rng, 20)
    _, text, expected = pool_file(ctx, lines20, 20, tt, "pool20.trn")
    for (w, c) in ((1, 1), (2, 1), (3, 4)):
        ctx.case(key=("pool_real", w, c), nontrivial=True)
        check_pool_case(ctx, text, expected, tt, None, (0, w), 0, c, real=True)
        ctx.count("pool_real_process_runs")


# =============================================================================================
# ctm
CTM_UNITS = [10.0, 1000.0, 8.0]  # renderings of the ordinary unit: base units per second (x/8: dyadic, float arithmetic exact)


def _ctm_unit(w):
    """<<b, k>> of the spec (units of b^k seconds) as an exact pair of floats (numerator, denominator)"""
    b, k = w
    return (float(b) ** k, 1.0) if k >= 0 else (1.0, float(b) ** (-k))


def ctm_build(rec, i):
    tt = _tr.TOKEN_TABLES[i % 3]
    ut = _tr.UTT_TABLES[(i // 3) % 3]
    wt = _tr.WAVE_TABLES[(i // 2) % 2]
    ct = _tr.CHAN_TABLES[(i // 5) % 2]
    if rec.get("ordinary", True):
        su = du = (1.0, CTM_UNITS[(i // 7) % 3])
    else:  # the case fixes the units: starts count units of su seconds, durations units of du seconds
        su, du = _ctm_unit(rec["unit"]["s"]), _ctm_unit(rec["unit"]["d"])
    start = lambda x: x["s"] * su[0] / su[1]
    transcripts = [(ut[j], [(tt[x["tok"]], start(x), start(x) + x["d"] * du[0] / du[1]) for x in items])
                   for j, items in enumerate(rec["utts"])]
    kind = rec["kind"]
    if kind == "default":
        wkw, wc2utt = {}, None
    elif kind == "chan":
        wkw, wc2utt = dict(utt2wc=ct[1]), None
    else:
        m = {ut[j]: (wt[w - 1], ct[c - 1]) for j, (w, c) in enumerate(rec["wc"])}
        wkw, wc2utt = dict(utt2wc=m), {v: k for k, v in m.items()}
    return tt, ut, (su, du), transcripts, wkw, wc2utt


def _is_sci(field):
    return "e" in field.lower()


def check_ctm_case(ctx, rec, i):
    data = _data()
    tt, ut, (su, du), transcripts, wkw, wc2utt = ctm_build(rec, i)
    case = dict(fam="ctm", rec=rec, i=i, python=repr(transcripts), utt2wc=repr(wkw), wc2utt=repr(wc2utt))
    w = _write_both(ctx, "write_ctm", data.write_ctm, (transcripts,), wkw, case, "ctm")
    if w is None:
        return
    pa, a, b = w
    if a != b:
        ctx.violation(dict(site="write_ctm", kind="path_vs_file_bytes"),
                      "path wrote %r, open file wrote %r" % (b[:200], a[:200]), case)
    # which fields the writer printed in scientific notation (the spec derives it from the magnitudes alone; how
    # a writer prints a number is its own business as long as the reader gets the number back: informational)
    fields = [ln.split() for ln in a.decode().splitlines() if ln.strip()]
    sci_file = sorted((_is_sci(f[2]), _is_sci(f[3])) for f in fields if len(f) >= 5)
    sci_spec = sorted((n[0] == "sci", n[1] == "sci") for n in rec.get("notes", []))
    sci_seen = any(x or y for x, y in sci_file)
    if sci_seen:
        ctx.count("ctm_files_with_a_field_in_scientific_notation")
    if "notes" in rec and sci_file != sci_spec:
        ctx.count("informational_ctm_notation_differs_from_the_repr_model")
    try:
        if i % 2:
            got = data.read_ctm(pa, wc2utt)
        else:
            with open(pa) as f:
                got = data.read_ctm(f, wc2utt)
    except Exception as ex:
        sig = dict(site="read_ctm", kind="exception")
        if sci_seen:  # the reader refuses a file the writer wrote because of the way a number is written in it
            sig["cls"] = "scientific_notation_refused"
        ctx.violation(sig, "read of %r raised %r" % (a[:300], ex), case)
        return
    inv, uinv = _tr.inv_table(tt), {u: j + 1 for j, u in enumerate(ut)}
    got_abs = []
    for u, items in got:
        if u not in uinv:
            ctx.violation(dict(site="read_ctm", kind="utterances"), "unknown utterance %r" % (u,), case)
            return
        its = []
        for x in items:
            s, d = x[1] * su[1] / su[0], (x[2] - x[1]) * du[1] / du[0]  # in units of the start / of the duration
            if x[0] not in inv or abs(s - round(s)) > 1e-6 or abs(d - round(d)) > 1e-6:
                ctx.violation(dict(site="read_ctm", kind="value"), "token %r is not one that was written (%r)" % (x, transcripts), case)
                return
            its.append((int(round(s)), int(round(d)), inv[x[0]]))
        got_abs.append((uinv[u], its))
    canon = [(c["uid"], [(x["s"], x["d"], x["tok"]) for x in c["items"]]) for c in rec["canon"]]
    if sorted(u for u, _ in got_abs) != sorted(u for u, _ in canon):
        ctx.violation(dict(site="read_ctm", kind="utterances"),
                      "utterances %r expected %r" % ([u for u, _ in got_abs], [u for u, _ in canon]), case)
        return
    if [u for u, _ in got_abs] != [u for u, _ in canon]:
        ctx.count("informational_ctm_utterance_order_differs")
    cd = dict(canon)
    for u, its in got_abs:
        starts = [x[0] for x in its]
        if starts != sorted(starts):
            ctx.violation(dict(site="read_ctm", kind="order"), "utterance %r: start times not ascending: %r" % (ut[u - 1], its), case)
        elif sorted(its) != cd[u]:  # order among equal start times is free: both sides sorted by (start, dur, tok)
            ctx.violation(dict(site="read_ctm", kind="value"),
                          "utterance %r: read %r (base units), written %r" % (ut[u - 1], its, cd[u]), case)
        elif its != cd[u]:
            ctx.count("informational_ctm_tie_order_differs")


def check_ctm(ctx, recs):
    if not any(r["sci"] for r in recs) or not any(r["sci"] and r["kind"] == "dict" for r in recs):
        raise MachineryError("the ctm universe holds no times that print in scientific notation (with and without a map)")
    # (the ordinary cases first, in the order they always had: the concrete tables of a case depend on its index)
    recs = [r for r in recs if r["ordinary"]] + [r for r in recs if not r["ordinary"]]
    for i, rec in enumerate(recs):
        flat = [[(x["s"], x["d"], x["tok"]) for x in items] for items in rec["utts"]]
        resorted = any(f != sorted(f) for f in flat) or [c["uid"] for c in rec["canon"]] != sorted(c["uid"] for c in rec["canon"])
        ctx.case(key=("ctm", rec["utts"], rec["kind"], rec["wc"], rec["unit"]),
                 nontrivial=resorted or rec["kind"] == "dict" or rec["sci"],
                 sample=dict(fam="ctm", utterances=rec["utts"], map_kind=rec["kind"], wave_chan=rec["wc"], unit=rec["unit"],
                             notation=rec["notes"], expected=rec["canon"]) if i % 700 == 350 else None)
        check_ctm_case(ctx, rec, i)
        ctx.traces += 1


# =============================================================================================
# TextGrid
TIERS = [None, "phones", "my tier"]
BOUNDS = [(False, False), (True, False), (False, True), (True, True)]
PT = {"none": None, "true": True, "false": False}
BASE = 3  # Transcripts_*.cfg: Base = 3 (milliseconds)


def tg_kwargs(tr_py, opt, prec, tier, bounds):
    kw = dict(point_tier=PT[opt], precision=prec)
    if tier is not None:
        kw["tier_name"] = tier
    if bounds[0]:
        kw["start_time"] = 0.0
    if bounds[1]:
        kw["end_time"] = max(x[2] for x in tr_py) + 1.25
    return kw


def _classify_path_bytes(data, tr_py, kw, b):
    """which options did the path entry point lose?  (re-write through a file without them)"""
    lost = []
    for drop in (("point_tier", "precision"), ("point_tier",), ("precision",), ("tier_name",), ("start_time", "end_time")):
        kw2 = {k: v for k, v in kw.items() if k not in drop}
        f = io.StringIO()
        try:
            _quiet(data.write_textgrid, tr_py, f, **kw2)
        except Exception:
            continue
        if f.getvalue().encode() == b:
            lost = list(drop)
            break
    return "+".join(lost) if lost else "other"


def _tg_abs(got, inv, prec):
    out = []
    sc = 10 ** prec
    for x in got:
        s, e = x[1] * sc, x[2] * sc
        if x[0] not in inv or abs(s - round(s)) > 1e-6 or abs(e - round(e)) > 1e-6:
            return None
        out.append((inv[x[0]], int(round(s)), int(round(e))))
    return out


def _string_sorted(exp, prec):
    """the order a sort of the printed strings would give (used only to CLASSIFY a wrong order)"""
    fmt = lambda v: "%.*f" % (prec, v / 10 ** prec)
    return sorted(exp, key=lambda x: (fmt(x[1]), fmt(x[2])))


def check_tg_case(ctx, rec, i, opt_k, tier_k, bounds_k, do_read=True):
    data = _data()
    tt = _tr.TOKEN_TABLES[i % 3]
    inv = _tr.inv_table(tt)
    o = rec["opts"][opt_k]
    prec = rec["prec"]
    tr_py = [(tt[x["tok"]], x["s"] / 1000.0, (x["s"] + x["d"]) / 1000.0) for x in rec["tr"]]
    tier = TIERS[tier_k]
    kw = tg_kwargs(tr_py, o["opt"], prec, tier, BOUNDS[bounds_k])
    free = rec.get("fam") == "tgu"  # entries listed in any order / overlapping: the order of the returned list is
    #                                 not part of the verdict, filling only where the spec says it is determined
    case = dict(fam=rec.get("fam", "tg"), rec=rec, i=i, opt_k=opt_k, tier_k=tier_k, bounds_k=bounds_k, python=repr(tr_py), kwargs=repr(kw))
    w = _write_both(ctx, "write_textgrid", data.write_textgrid, (tr_py,), kw, case, "tg")
    if w is None:
        return
    pa, a, b = w
    if a != b:
        lost = _classify_path_bytes(data, tr_py, kw, b)
        ctx.violation(dict(site="write_textgrid", kind="path_vs_file_bytes", lost=lost),
                      "path entry point ignores %s: wrote %r..., open file wrote %r..." % (lost, b[60:160], a[60:160]), case)
    if not do_read:
        return
    if rec["tie"]:  # a time exactly half way between two printable values: either neighbour is "nearest"
        ctx.count("informational_tg_tie_at_precision_not_judged")
        return
    tier_id = tier if (tier is not None and i % 2) else 0
    exp = [(x["tok"], x["s"], x["e"]) for x in o["back"]]
    for fill in (False, True):
        if fill and (o["point"] or not (rec["fillable"] if free else rec["judge"])):
            continue  # filling between points / between entries that print identically / that overlap: not fixed by the property
        try:
            if (i + opt_k) % 2:
                got, xmin, xmax = data.read_textgrid(pa, tier_id, tt[FILL] if fill else None)
            else:
                with open(pa) as f:
                    got, xmin, xmax = data.read_textgrid(f, tier_id, tt[FILL] if fill else None)
        except Exception as ex:
            ctx.violation(dict(site="read_textgrid", kind="exception"), "read of %r raised %r" % (a[:300], ex), case)
            return
        got_abs = _tg_abs(got, inv, prec)
        want = [(x["tok"], x["s"], x["e"]) for x in rec["filled"]] if fill else exp
        sig = dict(site="read_textgrid", kind="value", fill=fill)
        if got_abs is None:
            ctx.violation(sig, "read %r: not multiples of 10^-%d / unknown token (written %r)" % (got, prec, tr_py), case)
            return
        if free or not rec["judge"]:
            if sorted(got_abs) != sorted(want):
                ctx.violation(sig, "read %r expected (any order) %r in units of 10^-%d s (written %r, options %r)"
                              % (got_abs, want, prec, tr_py, kw), case)
                if free:
                    return
            elif not free:
                ctx.count("informational_tg_order_unjudged")
            elif got_abs != want and rec["judge"]:
                ctx.count("informational_tgu_list_not_chronological")
            if not free:
                continue
        elif got_abs != want:
            if sorted(got_abs) == sorted(want):
                cls = "string_sort" if got_abs == _string_sorted(want, prec) else "other"
                ctx.violation(dict(site="read_textgrid", kind="order", cls=cls, fill=fill),
                              "entries come back as %r, written order %r (units of 10^-%d s)" % (got_abs, want, prec), case)
                return  # (filling a mis-ordered tier is the same defect)
            ctx.violation(sig, "read %r expected %r in units of 10^-%d s (written %r, options %r)" % (got_abs, want, prec, tr_py, kw), case)
            return
        # the tier's start and end are read back with the entries: every entry lies inside them, and -- unless
        # start_time / end_time were given explicitly -- they are the earliest start / latest end (TguRoundTrip)
        sc = 10 ** prec
        lo, hi = xmin * sc, xmax * sc
        out = [x for x in got_abs if x[1] < lo - 1e-6 or x[2] > hi + 1e-6]
        differ = abs(lo - rec["xmin"]) > 1e-6 or abs(hi - rec["xmax"]) > 1e-6
        bsig = dict(site="read_textgrid", fill=fill, listing="chronological" if not free or rec["chrono"] else "free")
        if out:
            ctx.violation(dict(bsig, kind="tier_bounds_containment"),
                          "the tier read back spans [%r, %r] but holds %r (units of 10^-%d s; written %r, options %r)"
                          % (lo, hi, out, prec, tr_py, kw), case)
            return
        if differ and not any(BOUNDS[bounds_k]):
            ctx.violation(dict(bsig, kind="tier_bounds"),
                          "tier start / end read back as [%r, %r], earliest start / latest end written [%r, %r] "
                          "(units of 10^-%d s; written %r, options %r)" % (lo, hi, rec["xmin"], rec["xmax"], prec, tr_py, kw), case)
            return
        if differ:
            ctx.count("informational_tg_tier_bounds_differ_with_explicit_start_end")


def check_tg(ctx, recs):
    n = 0
    for i, rec in enumerate(recs):
        r0 = rec["opts"][2]["back"]  # back/10^prec == written/10^BASE  <=>  rounding changed nothing
        changed = any(x["s"] * 10 ** BASE != y["s"] * 10 ** rec["prec"] or x["e"] * 10 ** BASE != (y["s"] + y["d"]) * 10 ** rec["prec"]
                      for x, y in zip(r0, rec["tr"]))
        ctx.case(key=("tg", rec["tr"], rec["prec"]),
                 nontrivial=changed or len(rec["filled"]) > len(rec["tr"]) or len(rec["tr"]) > 1,
                 sample=dict(fam="tg", transcript_ms=rec["tr"], precision=rec["prec"], options=rec["opts"],
                             filled=rec["filled"]) if i % 400 == 123 else None)
        full = (i % 5 == 0)
        for opt_k, o in enumerate(rec["opts"]):
            if not o["legal"]:
                continue
            # read back: every (transcript, precision, tier option), tier name / bounds cycling
            check_tg_case(ctx, rec, i, opt_k, (i + opt_k) % 3, (i // 3 + opt_k) % 4)
            n += 1
            if full:  # byte identity under the whole option product
                for tier_k in range(3):
                    for bounds_k in range(4):
                        if (tier_k, bounds_k) != ((i + opt_k) % 3, (i // 3 + opt_k) % 4):
                            check_tg_case(ctx, rec, i, opt_k, tier_k, bounds_k, do_read=False)
                            n += 1
        ctx.traces += 1
    ctx.evaluations += n
    ctx.extra["textgrid_files_written"] = 2 * n


def check_tgu(ctx, recs):
    """tiers whose entries are listed in any order and may overlap (family tgu of the spec)"""
    if not any(not r["chrono"] and r["fillable"] for r in recs) or not any(not r["fillable"] for r in recs):
        raise MachineryError("the tgu universe lacks out-of-order disjoint listings / overlapping listings")
    n = 0
    for i, rec in enumerate(recs):
        ctx.case(key=("tgu", rec["tr"], rec["prec"]), nontrivial=not rec["chrono"],
                 sample=dict(fam="tgu", listing_ms=rec["tr"], precision=rec["prec"], options=rec["opts"],
                             tier=[rec["xmin"], rec["xmax"]], filled=rec["filled"]) if i % 60 == 31 else None)
        for opt_k, o in enumerate(rec["opts"]):
            if not o["legal"]:
                continue
            main_tb = ((i + opt_k) % 3, (i + 2 * opt_k) % 4)
            check_tg_case(ctx, rec, i, opt_k, *main_tb)
            n += 1
            if i % 4 == 0:  # the other start/end settings too (the tier's bounds must not depend on them)
                for bounds_k in range(4):
                    if bounds_k != main_tb[1]:
                        check_tg_case(ctx, rec, i, opt_k, main_tb[0], bounds_k)
                        n += 1
        ctx.traces += 1
    ctx.evaluations += n
    ctx.extra["textgrid_files_written_free_listing"] = 2 * n


# =============================================================================================
# transcript_to_token / token_to_transcript
UNK_SYM, UNK_ID = "<unk>", 77


def tok_build(rec, i):
    tt = _tr.TOKEN_TABLES[i % 3]
    ids = {t: (7 * t + 3 + i % 5) for t in (1, 2, 3)}
    shift = rec["shift"]

    def tok_py(t):
        return ids[t] if rec["map"] == "none" else tt[t]

    tr = []
    for x in rec["tr"]:
        if x["s"] < 0:
            tr.append(tok_py(x["tok"]))
        elif shift == 0:
            tr.append((tok_py(x["tok"]), x["s"], x["s"] + x["d"]))
        else:
            u = 1000.0 * rec.get("upm", 1)
            tr.append((tok_py(x["tok"]), x["s"] / u, (x["s"] + x["d"]) / u))
    token2id = id2token = None
    unk = None
    if rec["map"] != "none":
        last = rec["ntok"]  # token NTok is the out-of-vocabulary one under a partial map
        token2id = {tt[t]: ids[t] for t in range(1, last + 1) if not (rec["map"] == "partial" and t == last)}
        if rec["unk"] == "sym":
            token2id[UNK_SYM] = 99
            unk = UNK_SYM
        elif rec["unk"] == "id":
            unk = UNK_ID
        id2token = {v: k for k, v in token2id.items()}
    return tt, ids, tr, token2id, id2token, unk


def check_tok_case(ctx, rec, i):
    import torch

    data = _data()
    tt, ids, tr, token2id, id2token, unk = tok_build(rec, i)
    shift = rec["shift"]
    fs = float(shift) / rec.get("upm", 1) if shift else None
    case = dict(fam="tok", rec=rec, i=i, python=repr(tr), token2id=repr(token2id), unk=repr(unk), frame_shift_ms=fs)
    try:
        tok = data.transcript_to_token(tr, token2id, fs, unk, rec["skip"])
    except Exception as ex:
        ctx.violation(dict(site="transcript_to_token", kind="exception"), "raised %r" % (ex,), case)
        return
    # documented formulas (informational: the statement only promises the one-frame bound)
    idmap = {ids[t]: t for t in ids}
    idmap[99] = 0
    idmap[UNK_ID] = 0
    rows = tok.tolist() if not rec["skip"] else [[v, -1, -1] for v in tok.tolist()]
    want_rows = [[r[0], r[1], r[2]] if not rec["skip"] else [r[0], -1, -1] for r in rec["rows"]]
    if [[idmap.get(r[0], None), r[1], r[2]] for r in rows] != want_rows:
        ctx.count("informational_token_rows_differ_from_documented_formula")
    try:
        back = data.token_to_transcript(tok, id2token, fs)
    except Exception as ex:
        ctx.violation(dict(site="token_to_transcript", kind="exception"), "raised %r" % (ex,), case)
        return
    if len(back) != len(rec["tr"]):
        ctx.violation(dict(site="token_to_transcript", kind="value"), "length %d expected %d" % (len(back), len(rec["tr"])), case)
        return
    inv = _tr.inv_table(tt)
    inv[UNK_SYM] = 0
    for k, (b, bd, want_tok, want_timed) in enumerate(zip(back, rec["bounds"], rec["toks"], rec["timed"])):
        timed = isinstance(b, tuple)
        t = b[0] if timed else b
        t_abs = idmap.get(t) if isinstance(t, int) else inv.get(t)
        if t_abs != want_tok:
            ctx.violation(dict(site="token_to_transcript", kind="token"),
                          "item %d: token %r, written %r (round trip %r -> %r -> %r)" % (k, t, tr[k], tr, tok.tolist(), back), case)
            return
        if not want_timed:
            if timed:
                ctx.violation(dict(site="token_to_transcript", kind="times"), "item %d: times appeared: %r" % (k, b), case)
                return
            continue
        if not timed:
            ctx.violation(dict(site="token_to_transcript", kind="times"), "item %d: times lost: %r (written %r)" % (k, b, tr[k]), case)
            return
        sc = 1000.0 * rec.get("upm", 1) if shift else 1.0
        s, e = b[1] * sc, b[2] * sc
        eps = 1e-6
        if not (bd[0] - eps <= s <= bd[1] + eps and bd[2] - eps <= e <= bd[3] + eps and s <= e + eps):
            ctx.violation(dict(site="token_to_transcript", kind="times_beyond_one_frame"),
                          "item %d: recovered [%r, %r] ms, written %r, frame shift %r ms" % (k, s, e, tr[k], fs), case)
            return
        bb = rec["back"][k]
        if abs(s - bb[1]) > eps or abs(e - bb[2]) > eps:
            ctx.count("informational_recovered_times_differ_from_documented_formula")


def check_tok(ctx, recs):
    for i, rec in enumerate(recs):
        timed = any(x["s"] >= 0 for x in rec["tr"])
        ctx.case(key=("tok", rec["tr"], rec["map"], rec["unk"], rec["shift"], rec["skip"], rec.get("upm", 1)),
                 nontrivial=bool(rec["tr"]) and (rec["map"] != "none" or (timed and rec["shift"] > 0)),
                 sample=dict(fam="tok", transcript_ms=rec["tr"], token_map=rec["map"], unk=rec["unk"],
                             frame_shift_ms=rec["shift"], skip_frame_times=rec["skip"], tensor_rows=rec["rows"],
                             recovered=rec["back"]) if i % 3000 == 1500 else None)
        check_tok_case(ctx, rec, i)
        ctx.traces += 1


# =============================================================================================
def selftest(ctx, recs, schedules):
    """binding self-test: a corrupted expected value and a deliberately wrong pool must be caught"""
    import copy
    import shutil

    from ..harness import Context

    def caught(fn):
        sh = Context(PROP, ctx.tier, ctx.seed, ctx.level)
        try:
            fn(sh)
            return len(sh.violations) + sum(sh.known_hits.values()) > 0
        finally:
            shutil.rmtree(sh.workdir, ignore_errors=True)

    i, rec = next((i, r) for i, r in enumerate(recs["trn"]) if max(r["depth"]) >= 1 and len(r["coll"]) == 1)
    data = _data()
    real_read = data.read_trn

    def lossy_read(*a, **kw):  # a deliberately wrong reader: drops the last item of the first transcript
        out = real_read(*a, **kw)
        return [(out[0][0], out[0][1][:-1])] + out[1:]

    data.read_trn = lossy_read
    try:
        ok = [caught(lambda sh: check_trn_case(sh, rec, i))]
    finally:
        data.read_trn = real_read
    i, rec = next((i, r) for i, r in enumerate(recs["tok"]) if r["shift"] > 0 and any(r["timed"]))
    bad = copy.deepcopy(rec)
    k = next(k for k, t in enumerate(bad["timed"]) if t)
    bad["bounds"][k] = [b + 10 * rec["shift"] for b in bad["bounds"][k]]
    ok.append(caught(lambda sh: check_tok_case(sh, bad, i)))
    tt = _tr.TOKEN_TABLES[0]
    lines = pool_lines(recs["trn"], ctx.rng, 3)
    _, text, expected = pool_file(ctx, lines, 3, tt, "selftest.trn")
    n_unordered = len(schedules[(3, 2, "unordered")])
    ok.append(any(caught(lambda sh: check_pool_case(sh, text, expected, tt, schedules, (3, 2), pick, 1,
                                                    pool_cls=fakepool.WrongFakePool))
                  for pick in range(n_unordered)))
    ctx.extra["selftest"] = dict(lossy_trn_reader_stub_caught=ok[0], corrupted_frame_bound_caught=ok[1],
                                 completion_order_imap_caught=ok[2])
    if not all(ok):
        raise MachineryError("binding self-test failed: %r" % (ctx.extra["selftest"],))


def run(ctx):
    ctx.rule = ("every case exported by TLC from Transcripts.tla (trn collections: <= 3 leaves, alternates nested "
                "<= 2, <= 2-3 utterances, plus the listed transcripts of TrnExtraNested: 3- and 4-way alternates at depth 1-3 "
                "whose middle branch is empty / one token / two tokens / an alternate; tokens are mapped by turns to plain "
                "strings and to strings with interior no-break space / tab / U+3000 / U+2009; ctm collections x every wave/channel map, and the same collections in units of 2^-16 s, "
                "1/8 s + 2^-48 s, 10^-7 s and 10^16 s whose fields print in scientific notation; TextGrid transcripts on a grid "
                "crossing 10 s x precisions x point_tier options x tier name x start/end; transcripts x "
                "token-map/unk/frame-shift/skip settings) is written with the real writer through a file and a "
                "path, read back and compared with the exported value; read_trn(processes=W) is replayed under "
                "every behaviour of WorkerPool.tla.  Non-trivial: trn with an alternate or >= 2 tokens/lines; ctm "
                "whose canonical order differs from the written order or with an explicit map; TextGrid where "
                "rounding changes a time, a gap is filled or there are >= 2 entries; free listings that are not "
                "chronological; trn ids with padding; token round trips with a "
                "token map or a frame shift; pool behaviours whose completion order is not the task order")
    ctx.assumptions += [
        "tokens are free of the formats' delimiters (space, braces, slash, parentheses, ';;', '\"') and neither begin nor "
        "end with white space; trn tokens may hold white space other than the blank inside (not ctm / TextGrid tokens: those "
        "formats split fields on any white space); utterance ids "
        "are free of parentheses and newlines (spaces and tabs inside and around trn ids are in the universe)",
        "TextGrid times avoid exact ties at the print precision (the nearest multiple is then unique); entries "
        "that print identically are compared as a multiset",
        "point_tier=True only for zero-length entries; for tiers listed out of order or with overlapping entries the "
        "order of the returned list is informational (multiset compared) and filling is judged only where the entries "
        "are pairwise disjoint; the tier's start / end are compared with the earliest start / latest end unless "
        "start_time / end_time were passed (then only containment of the entries is judged)",
        "ctm: times are counts of a unit b^k s (start and duration may have different units; 2^k units and the pair 1/8 s, "
        "2^-48 s are exact in binary floating point, 10^-7 s is compared to within 1e-6 of a unit); which fields the writer "
        "prints in scientific notation is compared with the spec's model of repr informationally",
        "ctm: the order among tokens with equal start time is left free; the order of utterances in the "
        "returned list is informational",
        "transcript_to_token: out-of-vocabulary tokens only together with an unk setting; the documented frame "
        "formulas are compared informationally, the verdict uses the one-frame bound",
        "FakePool drains the task iterable before the first result (one legal timing of a real pool's feeder thread)",
    ]
    import time

    t0 = time.time()
    recs, schedules, _ = _tr.run_all(ctx, ["trn", "trnid", "ctm", "tg", "tgu", "tok"])
    phases = {"tlc": round(time.time() - t0, 1)}
    ctx.exhaustive = True
    for name, fn, args in (("trn", check_trn, (recs["trn"],)), ("trnid", check_trnid, (recs["trnid"], schedules)),
                           ("pool", check_pool, (recs["trn"], schedules)),
                           ("ctm", check_ctm, (recs["ctm"],)), ("tg", check_tg, (recs["tg"],)),
                           ("tgu", check_tgu, (recs["tgu"],)), ("tok", check_tok, (recs["tok"],))):
        t0 = time.time()
        fn(ctx, *args)
        phases[name] = round(time.time() - t0, 1)
    ctx.extra["phase_wall_s"] = phases
    if not ctx.quick:
        selftest(ctx, recs, schedules)
    ctx.extra["cases_by_family"] = {k: len(v) for k, v in recs.items()}


def replay(ctx, case):
    fam = case["fam"]
    if fam in ("trn", "trnid"):
        check_trn_case(ctx, case["rec"], case["i"])
    elif fam == "ctm":
        check_ctm_case(ctx, case["rec"], case["i"])
    elif fam in ("tg", "tgu"):
        check_tg_case(ctx, case["rec"], case["i"], case["opt_k"], case["tier_k"], case["bounds_k"])
    elif fam == "tok":
        check_tok_case(ctx, case["rec"], case["i"])
    elif fam == "pool":
        tt = {int(k): v for k, v in case["table"].items()}
        exp = [(u, tr) for u, tr in case["expected"]]
        key = tuple(case["key"])
        if case.get("single"):  # the single-process read of a pool file against the spec's list
            try:
                got = [(u, _tr.trn_abs(tr, _tr.inv_table(tt)))
                       for u, tr in _quiet(_data().read_trn, io.StringIO(case["text"]), False)]
            except Exception as ex:
                got = repr(ex)
            if got != [(u, tr) for u, tr in exp]:
                ctx.violation(dict(site="read_trn", kind="value"), "single-process read differs from the spec", case)
        elif case.get("real"):
            check_pool_case(ctx, case["text"], exp, tt, None, key, 0, case["chunk"], real=True)
        else:
            sch = {(key[0], key[1], "ordered"): [case["events_ordered"]],
                   (key[0], key[1], "unordered"): [case["events_unordered"]]}
            check_pool_case(ctx, case["text"], exp, tt, sch, key, 0, case["chunk"])
    else:
        raise MachineryError("unknown case family %r" % (fam,))
    print("replayed one %s case: %s" % (fam, "still failing" if ctx.violations else "passes now"))


if __name__ == "__main__":
    sys.exit(main(PROP, "model_checking", run, replay))
