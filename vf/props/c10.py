"""C10 -- slicing policies yield the documented windows; token chunks are slice-relative.

spec -> code: every behaviour of Slicer.tla is replayed into the real code and compared exactly:
  * fixed / ali / ref windows (TLC has checked the declarative definitions against a scanning machine,
    closed forms, the maximal-run formulation and the docstring's worked examples) through
    functional.slice_spect_data / modules.SliceSpectData in seeded ragged batches with garbage beyond the
    lengths, in_lens / other_lens given or omitted;
  * token chunking through functional.chunk_token_sequences_by_slices / the module;
  * directory chunking through the chunk-torch-spect-data-dir command run in-process (--num-workers 0) on
    temporary directories built from the spec's directories; its output is re-read, projected to the abstract
    directory and compared with the spec's ChunkDir (which TLC has shown to be well-formed and to equal the
    source restricted to each window).  The comparison is per output FILE NAME: the spec's WriteFile action
    builds the map name -> chunk for every abstract --format-utt (names carrying start/end, the index, both, or
    only the start), TLC checks (FilesOK) that a name carrying the window determines the chunk, and a file may
    hold any one of the chunks formatted to its name.  Transcripts that are not monotone in time, repeat
    segments or hold many tokens are part of the universe; the command runs with and without --quiet;
  * transcripts of 17..100 tokens: TLC checks (TokConcat) that token chunking distributes over concatenation
    of token lists and commutes with renaming the tokens, so the chunk of a concatenation of exported cases
    (one slice) is the concatenation of their exported chunks; such rows go through the functional, the
    module and the TorchScript-compiled module.
Failures are classified so that each known defect has its own signature (site + kind)."""
import os
import random
import sys

import torch

from .. import SPECS, tlc
from ..harness import MachineryError, main
from . import _ps
from ._slicerdir import FORMATS, LABEL, _classify_tokens, eval_dir_case, eval_dir_cases, token_kind

PROP = "C10"
MOD = os.path.join(SPECS, "SlicerMC.tla")
OM = -9  # Slicer.tla's "argument omitted"
SITE_S = "slice_spect_data"
SITE_T = "chunk_token_sequences_by_slices"
SITE_D = "chunk-torch-spect-data-dir"
CFGS = {
    "quick": ["fixed_quick", "ali_quick", "ref_quick", "tok_quick", "dir_quick"],
    "thorough": ["fixed_thorough", "ali_thorough", "ali3_thorough", "ref_thorough", "ref3_thorough",
                 "tok_thorough", "tok3_thorough", "dir_thorough"],
}
ACTION_OF = {"fixed": ["Slide"], "ali": ["Frame"], "ref": ["Segment"], "tok": ["Token"], "dir": ["ChunkUtt", "WriteFile"]}
LONG_MIN, LONG_MAX = 17, 100  # token counts of the harness-built transcripts (TokConcat)


def _left(wt):
    return wt in ("symmetric", "causal")


def _right(wt):
    return wt in ("symmetric", "future")


def _pairs(v):
    return [list(w) for w in _ps.seqlist(v)]


# ------------------------------------------------------------------ slice_spect_data
def _build_slice_inputs(case):
    pol, rows, T = case["policy"], case["rows"], case["T"]
    N = len(rows)
    g = random.Random(case["salt"])
    in_lens = other_lens = None
    if pol == "fixed":
        inp = torch.full((N, T, 2), float(g.randrange(5)))
        if not case["omit"]:
            in_lens = torch.tensor([r["len"] for r in rows], dtype=torch.long)
    elif pol == "ali":
        inp = torch.zeros((N, T), dtype=torch.long)
        for n, r in enumerate(rows):
            for t in range(T):
                if t < r["len"]:
                    inp[n, t] = LABEL[r["seq"][t]]
                else:  # garbage: continue the last run, or change label
                    last = int(inp[n, t - 1]) if t else 4
                    inp[n, t] = last if g.random() < 0.4 else g.choice([4, 9, 0, 7])
        if not case["omit"]:
            in_lens = torch.tensor([r["len"] for r in rows], dtype=torch.long)
    else:
        inp = torch.zeros((N, T, 3), dtype=torch.long)
        for n, r in enumerate(rows):
            for i in range(T):
                if i < len(r["seq"]):
                    s, e = r["seq"][i]
                else:  # garbage segments that would give windows if they were not masked out
                    s = g.randrange(0, 3)
                    e = s + g.randrange(1, 3)
                inp[n, i, 0], inp[n, i, 1], inp[n, i, 2] = g.randrange(50), s, e
        if not case["inlen_omitted"]:
            in_lens = torch.tensor([r["inlen"] for r in rows], dtype=torch.long)
        if not case["other_omitted"]:
            other_lens = torch.tensor([r["other"] for r in rows], dtype=torch.long)
    return inp, in_lens, other_lens


def _slice_exception_kind(case):
    pol, rows, T = case["policy"], case["rows"], case["T"]
    if pol == "ref" and case["other_omitted"]:
        return "exception_ref_other_lens_omitted"
    if pol == "ali":
        if any(r["len"] == T for r in rows):
            return "exception_ali_full_length"  # a sequence as long as the padded dimension
        offs = (int(_left(case["wt"])) + int(_right(case["wt"]))) * case["lobe"]
        if case["valid"] and case["lobe"] > 0 and sum(r["runs"] for r in rows) < offs:
            return "exception_ali_valid_few_segments"  # fewer segments in the batch than the lobes span
        if not case["valid"] and sum(r["runs"] for r in rows) < case["lobe"]:
            return "exception_ali_not_valid_few_segments"  # fewer segments in the batch than one lobe
    return "exception"


def eval_slice_batch(case):
    """returns list of (kind, detail, row index or None)"""
    from pydrobert.torch import functional as F, modules as M

    pol, rows, T = case["policy"], case["rows"], case["T"]
    N = len(rows)
    inp, in_lens, other_lens = _build_slice_inputs(case)
    try:
        if case["module"]:
            slices, sources = _ps.quiet(M.SliceSpectData(pol, case["wt"], case["valid"], case["lobe"]),
                                        inp, in_lens, other_lens)
        else:
            slices, sources = _ps.quiet(F.slice_spect_data, inp, in_lens, other_lens, pol, case["wt"],
                                        case["valid"], case["lobe"])
    except Exception as ex:
        return [(_slice_exception_kind(case), "%s: %s" % (type(ex).__name__, str(ex)[:200]), None)]
    if slices.dim() != 2 or slices.size(1) != 2 or sources.shape != (slices.size(0),) or \
            slices.dtype != torch.long or sources.dtype != torch.long:
        return [("shape", "slices %s %s, sources %s %s" % (tuple(slices.shape), slices.dtype, tuple(sources.shape),
                                                          sources.dtype), None)]
    src = sources.tolist()
    if any(s < 0 or s >= N for s in src) or any(a > b for a, b in zip(src, src[1:])):
        return [("sources", "source labels %s are not the batch elements in order" % src, None)]
    got = [[] for _ in range(N)]
    for s, w in zip(src, slices.tolist()):
        got[s].append(w)
    fails = []
    for n, r in enumerate(rows):
        if got[n] == r["windows"] or (pol == "ref" and got[n] == r["alt"]):
            continue
        L = r["len"] if pol != "ref" else None
        kind = "windows"
        if (pol == "fixed" and case["wt"] == "symmetric" and not case["valid"] and case["omit"]
                and len(got[n]) == len(r["windows"]) + 1 and got[n][:-1] == r["windows"]):
            ws = 2 * case["lobe"] + 1
            s, e = got[n][-1]
            if e - s == ws and s + ws // 2 >= L:
                kind = "extra_window_fixed_symmetric_no_in_lens"  # trailing window whose middle is >= T
        elif case["valid"] and pol in ("fixed", "ali") and any(w[0] < 0 or w[1] > L for w in got[n]):
            kind = "valid_only_outside"
        fails.append((kind, "element %d (%s): windows %s, documented %s" % (
            n, {k: r[k] for k in ("len", "seq", "inlen", "other") if k in r}, got[n], r["windows"]), n))
    return fails


def _slice_groups(recs):
    groups = {}
    for r in recs:
        pol = r["kind"]
        if pol == "ref":
            io, oo = r["inlen"] == OM, r["other"] == OM
            key = (pol, r["wt"], r["valid"], r["lobe"], io, oo, len(r["seq"]) if io else -1)
        else:
            key = (pol, r["wt"], r["valid"], r["lobe"], r["omit"], False, r["len"] if r["omit"] else -1)
        groups.setdefault(key, []).append(r)
    return groups


def _slice_row(r):
    keep = ("len", "seq", "inlen", "other", "windows", "alt", "runs")
    return {k: r[k] for k in keep if k in r}


def _replay_slices(ctx, recs, passes):
    groups = _slice_groups(recs)
    for key in sorted(groups):
        pol, wt, valid, lobe, om1, om2, fixed_len = key
        for _ in range(passes):
            for batch in _ps.split_batches(ctx.rng, groups[key], sizes=(1, 2, 3, 4, 5, 8)):
                maxlen = max(len(r["seq"]) if pol == "ref" else r["len"] for r in batch)
                T = maxlen if om1 else maxlen + ctx.rng.choice([0, 1, 1, 2])
                case = dict(kind="slice", policy=pol, wt=wt, valid=valid, lobe=lobe, T=T,
                            salt=ctx.rng.randrange(1 << 20), module=ctx.rng.random() < 0.25,
                            rows=[_slice_row(r) for r in batch])
                if pol == "ref":
                    case.update(inlen_omitted=om1, other_omitted=om2)
                else:
                    case.update(omit=om1)
                _judge_slice(ctx, case)
                ctx.traces += len(batch)


def _judge_slice(ctx, case, depth=0):
    fails = eval_slice_batch(case)
    ctx.case(n=len(case["rows"]))
    for kind, detail, i in fails:
        ctx.violation(dict(site=SITE_S, kind=kind, policy=case["policy"]), detail, case)
    # a batch that raised: keep judging each element alone (its own padded dimension)
    if depth == 0 and fails and fails[0][2] is None and len(case["rows"]) > 1:
        for r in case["rows"]:
            own = len(r["seq"]) if case["policy"] == "ref" else r["len"]
            omitted = case.get("omit") or case.get("inlen_omitted")
            _judge_slice(ctx, dict(case, rows=[r], T=own if omitted else own + (case["salt"] + own) % 2), depth=1)


# ------------------------------------------------------------------ chunk_token_sequences_by_slices
_SCRIPTED = {}


def _scripted_chunker(partial, retain):
    """the TorchScript-compiled module (compiled once per option pair)"""
    from pydrobert.torch import modules as M

    key = (bool(partial), bool(retain))
    if key not in _SCRIPTED:
        _SCRIPTED[key] = _ps.quiet(torch.jit.script, M.ChunkTokenSequencesBySlices(*key))
    return _SCRIPTED[key]


def _which_module(rng):
    x = rng.random()
    return "scripted" if x < 0.1 else x < 0.3


def eval_tok_batch(case):
    from pydrobert.torch import functional as F, modules as M

    rows, R = case["rows"], case["R"]
    N = len(rows)
    g = random.Random(case["salt"])
    refs = torch.zeros((N, R, 3), dtype=torch.long)
    for n, r in enumerate(rows):
        for i in range(R):
            if i < len(r["seq"]):
                tk = r["seq"][i]
            else:  # garbage tokens with known segments
                s = g.randrange(0, 4)
                tk = [case.get("garbage_base", 90) + i, s, s + g.randrange(0, 3)]
            refs[n, i, 0], refs[n, i, 1], refs[n, i, 2] = tk
    slices = torch.tensor([[r["a"], r["b"]] for r in rows], dtype=torch.long).view(N, 2)
    ref_lens = None if case["inlen_omitted"] else torch.tensor([r["inlen"] for r in rows], dtype=torch.long)
    try:
        if case["module"] == "scripted":
            chunked, clens = _ps.quiet(_scripted_chunker(case["partial"], case["retain"]), refs, slices, ref_lens)
        elif case["module"]:
            chunked, clens = _ps.quiet(M.ChunkTokenSequencesBySlices(case["partial"], case["retain"]),
                                       refs, slices, ref_lens)
        else:
            chunked, clens = _ps.quiet(F.chunk_token_sequences_by_slices, refs, slices, ref_lens,
                                       case["partial"], case["retain"])
    except Exception as ex:
        return [("exception", "%s: %s" % (type(ex).__name__, str(ex)[:200]), None)], 0
    if clens.shape != (N,) or chunked.dim() != 3 or chunked.size(0) != N or chunked.size(2) != 3:
        return [("shape", "chunked %s, lens %s" % (tuple(chunked.shape), tuple(clens.shape)), None)], 0
    fails, informational = [], 0
    for n, r in enumerate(rows):
        k = int(clens[n])
        if k < 0 or k > chunked.size(1):
            fails.append(("length", "element %d: reported length %d for a tensor of %d rows" % (n, k, chunked.size(1)), n))
            continue
        got = chunked[n, :k].tolist()
        exp = r["tokens"]
        if [t[0] for t in got] != [t[0] for t in exp]:
            if not r["determined"]:
                informational += 1  # partial overlap with an empty segment / slice: not fixed by the statement
                continue
            fails.append((token_kind([t[0] for t in got], [t[0] for t in exp]),
                          "element %d (tokens %s, slice [%d, %d), partial=%s): kept %s, expected %s" % (
                n, r["seq"], r["a"], r["b"], case["partial"], [t[0] for t in got], [t[0] for t in exp]), n))
            continue
        kind = _classify_tokens(got, exp, r["a"], case["retain"])
        if kind:
            fails.append((kind, "element %d (slice [%d, %d), retain=%s): chunk %s, expected %s" % (
                n, r["a"], r["b"], case["retain"], got, exp), n))
    return fails, informational


def _replay_tokens(ctx, recs, passes):
    groups = {}
    for r in recs:
        io = r["inlen"] == OM
        groups.setdefault((r["partial"], r["retain"], io, len(r["seq"]) if io else -1), []).append(r)
    for key in sorted(groups):
        partial, retain, io, _ = key
        for _ in range(passes):
            for batch in _ps.split_batches(ctx.rng, groups[key], sizes=(1, 2, 3, 5, 8)):
                maxlen = max(len(r["seq"]) for r in batch)
                case = dict(kind="tok", partial=partial, retain=retain, inlen_omitted=io,
                            R=maxlen if io else maxlen + ctx.rng.choice([0, 1, 2]),
                            salt=ctx.rng.randrange(1 << 20), module=_which_module(ctx.rng),
                            rows=[{k: r[k] for k in ("seq", "inlen", "a", "b", "tokens", "determined")} for r in batch])
                fails, informational = eval_tok_batch(case)
                ctx.case(n=len(batch))
                ctx.traces += len(batch)
                if informational:
                    ctx.count("informational_partial_overlap_with_empty_interval", informational)
                for kind, detail, i in fails:
                    ctx.violation(dict(site=SITE_T, kind=kind), detail, case)


def _long_row(rng, pieces, a, b, target):
    """one transcript of about `target` tokens: the concatenation of exported token lists (the part within
    ref_lens), piece k renamed by + 100 k; its chunk is the concatenation of the pieces' exported chunks renamed
    alike (Slicer.tla TokConcat: ChunkTokens distributes over concatenation and commutes with renaming)"""
    seq, tokens, determined, k = [], [], True, 0
    while len(seq) < target:
        r = rng.choice(pieces)
        n = len(r["seq"]) if r["inlen"] == OM else r["inlen"]
        if n == 0 or len(seq) + n > LONG_MAX:
            if n and len(seq) >= LONG_MIN:
                break
            continue
        k += 1
        seq += [[t[0] + 100 * k, t[1], t[2]] for t in r["seq"][:n]]
        tokens += [[t[0] + 100 * k, t[1], t[2]] for t in r["tokens"]]
        determined = determined and r["determined"]
    return dict(seq=seq, inlen=len(seq), a=a, b=b, tokens=tokens, determined=determined)


def _replay_long_tokens(ctx, recs, nbatches):
    """transcripts of LONG_MIN..LONG_MAX tokens built from the exported cases (see _long_row)"""
    groups = {}
    for r in recs:
        if r["partial"] and not r["determined"]:
            continue  # keep the long rows inside what the statement fixes
        groups.setdefault((r["partial"], r["retain"]), {}).setdefault((r["a"], r["b"]), []).append(r)
    for key in sorted(groups):
        partial, retain = key
        slices = sorted(groups[key])
        # slices that keep something from some list; pieces are drawn with a bias towards lists with kept tokens
        rich = {ab: [r for r in groups[key][ab] if r["tokens"]] for ab in slices}
        slices = [ab for ab in slices if rich[ab]]
        for i in range(nbatches):
            rows = []
            for _ in range(ctx.rng.choice([1, 2, 3, 4])):
                ab = ctx.rng.choice(slices)
                pool = rich[ab] * 3 + groups[key][ab]
                rows.append(_long_row(ctx.rng, pool, ab[0], ab[1], ctx.rng.randrange(LONG_MIN, LONG_MAX + 1)))
            maxlen = max(len(r["seq"]) for r in rows)
            io = len({len(r["seq"]) for r in rows}) == 1 and ctx.rng.random() < 0.5
            case = dict(kind="tok", partial=partial, retain=retain, inlen_omitted=io, long=True, garbage_base=900000,
                        R=maxlen if io else maxlen + ctx.rng.choice([0, 1, 3]), salt=ctx.rng.randrange(1 << 20),
                        module=(False, True, "scripted")[i % 3], rows=rows)
            if io:
                for r in rows:
                    r["inlen"] = OM
            fails, informational = eval_tok_batch(case)
            ctx.count("long_token_rows", len(rows))
            for r in rows:
                ctx.case(key=("tok-long", r["seq"], r["a"], r["b"], partial, retain),
                         nontrivial=len(r["tokens"]) >= 2 and len(r["seq"]) >= LONG_MIN)
            ctx.traces += len(rows)
            _ps.need(not informational, "long token rows must be determined")
            for kind, detail, n in fails:
                ctx.violation(dict(site=SITE_T, kind=kind, form=_form(case)), detail, case)


def _form(case):
    return "scripted" if case["module"] == "scripted" else ("module" if case["module"] else "functional")


# ------------------------------------------------------------------ chunk-torch-spect-data-dir
def _dir_case(ctx, r, k, force_default=False):
    src = []
    for u in _ps.seqlist(r["src"]):
        src.append(dict(T=u["T"], ali=_ps.seqlist(u["ali"]), ref=[list(t) for t in _ps.seqlist(u["ref"])]))
    chunks = []
    for ch in _ps.seqlist(r["chunks"]):
        chunks.append(dict(utt=ch["utt"], idx=ch["idx"], s=ch["s"], e=ch["e"], feat=_ps.seqlist(ch["feat"]),
                           ali=_ps.seqlist(ch["ali"]), ref=[list(t) for t in _ps.seqlist(ch["ref"])]))
    pre, suf = ctx.rng.choice([("", ".pt"), ("", ".pt"), ("pre_", ".bin")])
    files = {f: [dict(name=list(g["name"]), wrote=g["wrote"], any=_ps.seqlist(g["any"]), same=g["same"])
                 for g in _ps.seqlist(gs)] for f, gs in r["files"].items()}
    _ps.need(set(files) == set(FORMATS), "Slicer exported file groups for %s" % sorted(files))
    base = dict(kind="dir", utts=_ps.seqlist(r["utts"]), hasAli=r["hasAli"], hasRef=r["hasRef"], src=src,
                opt=r["opt"], chunks=chunks, prefix=pre, suffix=suf)
    fk = ctx.rng.choice(["se", "se", "se", "ise", "i", "s"])
    first = dict(base, fmt_kind=fk, fmt=ctx.rng.choice(FORMATS[fk]), quiet=ctx.rng.random() < 0.5, files=files[fk])
    out = [first]
    if force_default or (len(files["se"]) < len(chunks) and ctx.rng.random() < 0.6):
        # some windows format to one name under the default format: mostly run that, loudly (the command's warning path)
        first.update(fmt_kind="se", fmt=None, quiet=False, files=files["se"])
    elif any(not g["same"] for g in files["s"]) and fk != "s" and k % 3 == 0:
        # windows sharing a start but not an end: also the format under which their (different) chunks clash
        out.append(dict(base, fmt_kind="s", fmt=FORMATS["s"][0], quiet=ctx.rng.random() < 0.5, files=files["s"]))
    return out


def _replay_dirs(ctx, recs):
    skipped, cases = 0, []
    for k, r in enumerate(recs):
        if not r["legal"]:
            skipped += 1  # a window needs more reflect padding than the utterance is long: documented exception
            continue
        for case in _dir_case(ctx, r, k):
            case["salt"] = len(cases)
            cases.append(case)
    ctx.count("dir_cases_documented_exception_not_replayed", skipped)
    nproc = max(1, min(8, (os.cpu_count() or 2) // 2))
    try:
        results = eval_dir_cases(cases, ctx.workdir, nproc)
    except RuntimeError as ex:
        raise MachineryError(str(ex))
    for k, (case, (fails, info)) in enumerate(zip(cases, results)):
        o = case["opt"]
        nchunks = len(case["chunks"])
        ctx.case(key=("dir", case["utts"], case["hasAli"], case["hasRef"], sorted(o.items())),
                 nontrivial=nchunks > 0 and any(ch["feat"] != list(range(1, len(ch["feat"]) + 1)) for ch in case["chunks"]),
                 sample=dict(directory=dict(utts=case["utts"], options=o, chunks=[(c["utt"], c["s"], c["e"]) for c in case["chunks"]]))
                 if k % 977 == 5 else None)
        ctx.traces += 1
        ctx.count("dir_runs_quiet" if case["quiet"] else "dir_runs_not_quiet")
        ctx.count("dir_runs_format_" + case["fmt_kind"])
        if len(case["files"]) < nchunks:
            ctx.count("dir_runs_with_name_clash")
            if any(not g["same"] for g in case["files"]):
                ctx.count("dir_runs_with_name_clash_of_different_chunks")
        if info["validate_disagrees"]:
            ctx.count("informational_validator_disagrees", info["validate_disagrees"])
        for kind, detail in fails:
            ctx.violation(dict(site=SITE_D, kind=kind, policy=o["policy"]), detail, case)


def _selftest(ctx, by_kind):
    """binding self-test: corrupted expectations must be noticed"""
    r = next(r for r in by_kind["fixed"] if len(r["windows"]) >= 2 and not r["omit"])
    bad = dict(_slice_row(r), windows=[[w[0] + 1, w[1] + 1] for w in r["windows"]])
    case = dict(kind="slice", policy="fixed", wt=r["wt"], valid=r["valid"], lobe=r["lobe"], T=r["len"] + 1, salt=1,
                module=False, omit=False, rows=[bad])
    _ps.need(eval_slice_batch(case), "self-test: corrupted windows were not noticed")
    r = next(r for r in by_kind["tok"] if len(r["tokens"]) >= 1 and r["retain"] and r["inlen"] != OM)
    bad = {k: r[k] for k in ("seq", "inlen", "a", "b", "determined")}
    bad["tokens"] = [[t[0], t[1] + 1, t[2] + 1] for t in r["tokens"]]
    case = dict(kind="tok", partial=r["partial"], retain=True, inlen_omitted=False, R=len(r["seq"]) + 1, salt=1,
                module=False, rows=[bad])
    fails, _ = eval_tok_batch(case)
    _ps.need(any(k == "boundary" for k, _, _ in fails), "self-test: corrupted token boundaries were not noticed")
    # a directory whose windows clash and are out of name order: exchanging the expected contents of two files
    # must be noticed, and a long transcript with two expected tokens exchanged must be reported as an order failure
    r = next(r for r in by_kind["dir"] if r["legal"] and r["opt"]["policy"] == "ref" and r["opt"]["lobe"] == 0
             and r["opt"]["padmode"] == "none" and len(_ps.seqlist(r["files"]["se"])) < len(_ps.seqlist(r["chunks"])))
    case = _dir_case(ctx, r, 0, force_default=True)[0]
    case.update(salt=999999)
    i, j = next((i, j) for i in range(len(case["chunks"])) for j in range(len(case["chunks"]))
                if case["chunks"][i]["feat"] != case["chunks"][j]["feat"] and case["chunks"][i]["utt"] == case["chunks"][j]["utt"])
    for k in ("feat", "ali", "ref"):
        case["chunks"][i][k], case["chunks"][j][k] = case["chunks"][j][k], case["chunks"][i][k]
    case["chunks"] = [dict(ch) for ch in case["chunks"]]
    try:
        fails, _ = eval_dir_case(case, ctx.workdir)
    except RuntimeError:
        fails = [("binding", "")]  # the exchanged contents contradict the exported 'same' flags: also a rejection
    _ps.need(fails, "self-test: exchanged chunk files were not noticed")
    rows = None
    for r in by_kind["tok"]:
        if r["retain"] and not r["partial"] and len(r["tokens"]) >= 2:
            rows = [_long_row(random.Random(3), [r], r["a"], r["b"], 20)]
            break
    _ps.need(rows, "self-test: no token case with two kept tokens")
    rows[0]["tokens"][0], rows[0]["tokens"][1] = rows[0]["tokens"][1], rows[0]["tokens"][0]
    case = dict(kind="tok", partial=False, retain=True, inlen_omitted=False, R=len(rows[0]["seq"]), salt=1,
                module="scripted", garbage_base=900000, rows=rows)
    fails, _ = eval_tok_batch(case)
    _ps.need(any(k == "token_order" for k, _, _ in fails), "self-test: exchanged long-transcript tokens were not noticed")
    ctx.extra["selftest"] = "corrupted window, token, chunk-file and token-order expectations rejected"


# ------------------------------------------------------------------ entry points
def _normalise(r):
    k = r["kind"]
    if k in ("fixed", "ali", "ref"):
        r["windows"] = _pairs(r["windows"])
        r["seq"] = _pairs(r["seq"]) if k == "ref" else _ps.seqlist(r["seq"])
        if k == "ref":
            r["alt"] = _pairs(r["alt"])
    elif k == "tok":
        r["seq"] = _pairs(r["seq"])
        r["tokens"] = _pairs(r["tokens"])
    return r


def run(ctx):
    ctx.rule = ("every behaviour of Slicer.tla -- fixed: lengths x 3 window types x valid_only x lobe sizes x in_lens "
                "given/omitted; ali: every label sequence over 2 (3) labels up to the bound x the same grid; ref: every list "
                "of segments with boundaries from a small set (missing = -1, empty, inverted) x in_lens x other_lens given / "
                "omitted x grid; tok: every token list x slice x partial x retain x ref_lens; dir: every listed directory "
                "(transcripts that are hierarchical / out of time order / repeat segments / hold 19 tokens included) x "
                "policy x window type x lobe x pad mode x partial x retain -- replayed in seeded ragged batches with garbage "
                "beyond the lengths (directories: one command run each under a seeded --format-utt and --quiet or not, mostly "
                "the default format with warnings on where window names clash; files compared per name with the "
                "spec's map name -> allowed chunks).  Transcripts of 17..100 tokens are concatenations of exported token "
                "cases (TLC-checked TokConcat lemma), through the functional, the module and the scripted module.  "
                "Non-trivial = at least one window / token / chunk "
                "is expected and (windows) at least one was dropped or extended by a lobe, distinct by case")
    ctx.assumptions += [
        "fixed policy, not valid_only: windows are NOT clamped to the sequence (the docstring's examples and sizes; its "
        "phrase 'with lobes clamped' and the printed list [[-1,4],[2,6],[5,9]] contradict its own window size)",
        "ref policy without valid_only: a segment whose padded start equals other_lens may be kept or dropped (the "
        "documentation's 'begins after other_lens' is ambiguous); both results are accepted",
        "ref policy with other_lens omitted: the default is the end of the last listed segment (as the design and the "
        "code's own comment say); cases where that end is missing (-1) are outside the universe",
        "token chunking with partial=True is only judged for non-empty segments and slices (overlap of an empty "
        "interval is not fixed by the statement); other cases are counted as informational",
        "inverted token segments (end < start) are outside the universe (not well-formed data)",
        "directory chunking: well-formedness of the output is claimed for partial=False, retain=False only; runs whose "
        "windows need more reflect padding than the utterance is long raise as documented and are not replayed",
        "directory chunking: when several windows of an utterance format to one name the file may hold any one of "
        "their chunks (the command only warns; nothing documents which survives); with a format that carries start "
        "and end the chunks are equal (TLC: FilesOK), so the file named after a window holds the source restricted "
        "to that window.  The warning itself is not judged",
        "long transcripts: ChunkTokens of a concatenation (one slice) = concatenation of the ChunkTokens of the parts, "
        "token ids carried along (TLC: TokConcat, every cut of every list of the tok universe); the long rows only "
        "concatenate cases the statement determines",
    ]
    jobs = [(name, MOD, os.path.join(SPECS, "Slicer_%s.cfg" % name), dict(workers=8, timeout=2400)) for name in CFGS[ctx.tier]]
    results = _ps.run_tlc_jobs(jobs)
    by_kind = {}
    for name in CFGS[ctx.tier]:
        res = results[name]
        tlc.require_ok(res, "Slicer/" + name)
        kind = name.split("_")[0].rstrip("3")
        tlc.require_covered(res, ["Init"] + ACTION_OF[kind], "Slicer/" + name)
        ctx.add_tlc("Slicer/" + name, res)
        _ps.need(res.records, "Slicer/%s exported no behaviours" % name)
        by_kind.setdefault(kind, []).extend(_normalise(r) for r in res.records)
    ctx.exhaustive = True
    for kind in ("fixed", "ali", "ref", "tok"):
        for i, r in enumerate(by_kind[kind]):
            if kind == "tok":
                key = (kind, r["seq"], r["inlen"], r["a"], r["b"], r["partial"], r["retain"])
                nontrivial = len(r["tokens"]) > 0 and (not r["retain"]) and r["a"] != 0
            else:
                key = (kind, r["wt"], r["valid"], r["lobe"], r.get("omit"), r["seq"], r.get("len"), r.get("inlen"), r.get("other"))
                nontrivial = len(r["windows"]) > 0 and (r["lobe"] > 0 or kind == "ref")
            ctx.case(key=key, nontrivial=nontrivial, n=0,
                     sample={k: v for k, v in r.items() if k != "alt"} if (i % 4001 == 7 and nontrivial) else None)
    passes = 1 if ctx.quick else 2
    import time

    t0 = time.time()
    timing = ctx.extra.setdefault("replay_wall_s", {})
    _replay_slices(ctx, by_kind["fixed"] + by_kind["ali"], passes + 1)
    timing["fixed_ali"] = round(time.time() - t0, 1)
    t0 = time.time()
    _replay_slices(ctx, by_kind["ref"], passes)
    timing["ref"] = round(time.time() - t0, 1)
    t0 = time.time()
    _replay_tokens(ctx, by_kind["tok"], passes)
    _replay_long_tokens(ctx, by_kind["tok"], 60 if ctx.quick else 240)
    timing["tok"] = round(time.time() - t0, 1)
    t0 = time.time()
    _replay_dirs(ctx, by_kind["dir"])
    timing["dir"] = round(time.time() - t0, 1)
    if not ctx.quick:
        _selftest(ctx, by_kind)


def replay(ctx, case):
    if case["kind"] == "slice":
        fails = eval_slice_batch(case)
        site = SITE_S
    elif case["kind"] == "tok":
        fails, _ = eval_tok_batch(case)
        site = SITE_T
    else:
        try:
            fails, _ = eval_dir_case(case, ctx.workdir)
        except RuntimeError as ex:
            raise MachineryError(str(ex))
        site = SITE_D
    for f in fails:
        print("replay %s: %s: %s" % (site, f[0], f[1]))
        ctx.violation(dict(site=site, kind=f[0]), f[1], case)
    if not fails:
        print("replay %s: agrees with the specification" % site)


if __name__ == "__main__":
    sys.exit(main(PROP, "model_checking", run, replay))
