"""C10 -- slicing policies yield the documented windows; token chunks are slice-relative.

spec -> code: every behaviour of Slicer.tla is replayed into the real code and compared exactly:
  * fixed / ali / ref windows (TLC has checked the declarative definitions against a scanning machine,
    closed forms, the maximal-run formulation and the docstring's worked examples) through
    functional.slice_spect_data / modules.SliceSpectData in seeded ragged batches with garbage beyond the
    lengths, in_lens / other_lens given or omitted;
  * token chunking through functional.chunk_token_sequences_by_slices / the module;
  * directory chunking through the chunk-torch-spect-data-dir command run in-process (--num-workers 0) on
    temporary directories built from the spec's directories; its output is re-read, projected to the abstract
    directory and compared with the spec's ChunkDir (which TLC has shown to be well-formed and to equal the
    source restricted to each window).
Failures are classified so that each known defect has its own signature (site + kind)."""
import os
import random
import sys

import torch

from .. import SPECS, tlc
from ..harness import MachineryError, main
from . import _ps
from ._slicerdir import LABEL, _classify_tokens, eval_dir_case, eval_dir_cases

PROP = "C10"
MOD = os.path.join(SPECS, "SlicerMC.tla")
OM = -9  # Slicer.tla's "argument omitted"
SITE_S = "slice_spect_data"
SITE_T = "chunk_token_sequences_by_slices"
SITE_D = "chunk-torch-spect-data-dir"
CFGS = {
    "quick": ["fixed_quick", "ali_quick", "ref_quick", "tok_quick", "dir_quick"],
    "thorough": ["fixed_thorough", "ali_thorough", "ali3_thorough", "ref_thorough", "ref3_thorough",
                 "tok_thorough", "tok3_thorough", "dir_thorough"],
}
ACTION_OF = {"fixed": "Slide", "ali": "Frame", "ref": "Segment", "tok": "Token", "dir": "ChunkUtt"}


def _left(wt):
    return wt in ("symmetric", "causal")


def _right(wt):
    return wt in ("symmetric", "future")


def _pairs(v):
    return [list(w) for w in _ps.seqlist(v)]


# ------------------------------------------------------------------ slice_spect_data
def _build_slice_inputs(case):
    pol, rows, T = case["policy"], case["rows"], case["T"]
    N = len(rows)
    g = random.Random(case["salt"])
    in_lens = other_lens = None
    if pol == "fixed":
        inp = torch.full((N, T, 2), float(g.randrange(5)))
        if not case["omit"]:
            in_lens = torch.tensor([r["len"] for r in rows], dtype=torch.long)
    elif pol == "ali":
        inp = torch.zeros((N, T), dtype=torch.long)
        for n, r in enumerate(rows):
            for t in range(T):
                if t < r["len"]:
                    inp[n, t] = LABEL[r["seq"][t]]
                else:  # garbage: continue the last run, or change label
                    last = int(inp[n, t - 1]) if t else 4
                    inp[n, t] = last if g.random() < 0.4 else g.choice([4, 9, 0, 7])
        if not case["omit"]:
            in_lens = torch.tensor([r["len"] for r in rows], dtype=torch.long)
    else:
        inp = torch.zeros((N, T, 3), dtype=torch.long)
        for n, r in enumerate(rows):
            for i in range(T):
                if i < len(r["seq"]):
                    s, e = r["seq"][i]
                else:  # garbage segments that would give windows if they were not masked out
                    s = g.randrange(0, 3)
                    e = s + g.randrange(1, 3)
                inp[n, i, 0], inp[n, i, 1], inp[n, i, 2] = g.randrange(50), s, e
        if not case["inlen_omitted"]:
            in_lens = torch.tensor([r["inlen"] for r in rows], dtype=torch.long)
        if not case["other_omitted"]:
            other_lens = torch.tensor([r["other"] for r in rows], dtype=torch.long)
    return inp, in_lens, other_lens


def _slice_exception_kind(case):
    pol, rows, T = case["policy"], case["rows"], case["T"]
    if pol == "ref" and case["other_omitted"]:
        return "exception_ref_other_lens_omitted"
    if pol == "ali":
        if any(r["len"] == T for r in rows):
            return "exception_ali_full_length"  # a sequence as long as the padded dimension
        offs = (int(_left(case["wt"])) + int(_right(case["wt"]))) * case["lobe"]
        if case["valid"] and case["lobe"] > 0 and sum(r["runs"] for r in rows) < offs:
            return "exception_ali_valid_few_segments"  # fewer segments in the batch than the lobes span
        if not case["valid"] and sum(r["runs"] for r in rows) < case["lobe"]:
            return "exception_ali_not_valid_few_segments"  # fewer segments in the batch than one lobe
    return "exception"


def eval_slice_batch(case):
    """returns list of (kind, detail, row index or None)"""
    from pydrobert.torch import functional as F, modules as M

    pol, rows, T = case["policy"], case["rows"], case["T"]
    N = len(rows)
    inp, in_lens, other_lens = _build_slice_inputs(case)
    try:
        if case["module"]:
            slices, sources = _ps.quiet(M.SliceSpectData(pol, case["wt"], case["valid"], case["lobe"]),
                                        inp, in_lens, other_lens)
        else:
            slices, sources = _ps.quiet(F.slice_spect_data, inp, in_lens, other_lens, pol, case["wt"],
                                        case["valid"], case["lobe"])
    except Exception as ex:
        return [(_slice_exception_kind(case), "%s: %s" % (type(ex).__name__, str(ex)[:200]), None)]
    if slices.dim() != 2 or slices.size(1) != 2 or sources.shape != (slices.size(0),) or \
            slices.dtype != torch.long or sources.dtype != torch.long:
        return [("shape", "slices %s %s, sources %s %s" % (tuple(slices.shape), slices.dtype, tuple(sources.shape),
                                                          sources.dtype), None)]
    src = sources.tolist()
    if any(s < 0 or s >= N for s in src) or any(a > b for a, b in zip(src, src[1:])):
        return [("sources", "source labels %s are not the batch elements in order" % src, None)]
    got = [[] for _ in range(N)]
    for s, w in zip(src, slices.tolist()):
        got[s].append(w)
    fails = []
    for n, r in enumerate(rows):
        if got[n] == r["windows"] or (pol == "ref" and got[n] == r["alt"]):
            continue
        L = r["len"] if pol != "ref" else None
        kind = "windows"
        if (pol == "fixed" and case["wt"] == "symmetric" and not case["valid"] and case["omit"]
                and len(got[n]) == len(r["windows"]) + 1 and got[n][:-1] == r["windows"]):
            ws = 2 * case["lobe"] + 1
            s, e = got[n][-1]
            if e - s == ws and s + ws // 2 >= L:
                kind = "extra_window_fixed_symmetric_no_in_lens"  # trailing window whose middle is >= T
        elif case["valid"] and pol in ("fixed", "ali") and any(w[0] < 0 or w[1] > L for w in got[n]):
            kind = "valid_only_outside"
        fails.append((kind, "element %d (%s): windows %s, documented %s" % (
            n, {k: r[k] for k in ("len", "seq", "inlen", "other") if k in r}, got[n], r["windows"]), n))
    return fails


def _slice_groups(recs):
    groups = {}
    for r in recs:
        pol = r["kind"]
        if pol == "ref":
            io, oo = r["inlen"] == OM, r["other"] == OM
            key = (pol, r["wt"], r["valid"], r["lobe"], io, oo, len(r["seq"]) if io else -1)
        else:
            key = (pol, r["wt"], r["valid"], r["lobe"], r["omit"], False, r["len"] if r["omit"] else -1)
        groups.setdefault(key, []).append(r)
    return groups


def _slice_row(r):
    keep = ("len", "seq", "inlen", "other", "windows", "alt", "runs")
    return {k: r[k] for k in keep if k in r}


def _replay_slices(ctx, recs, passes):
    groups = _slice_groups(recs)
    for key in sorted(groups):
        pol, wt, valid, lobe, om1, om2, fixed_len = key
        for _ in range(passes):
            for batch in _ps.split_batches(ctx.rng, groups[key], sizes=(1, 2, 3, 4, 5, 8)):
                maxlen = max(len(r["seq"]) if pol == "ref" else r["len"] for r in batch)
                T = maxlen if om1 else maxlen + ctx.rng.choice([0, 1, 1, 2])
                case = dict(kind="slice", policy=pol, wt=wt, valid=valid, lobe=lobe, T=T,
                            salt=ctx.rng.randrange(1 << 20), module=ctx.rng.random() < 0.25,
                            rows=[_slice_row(r) for r in batch])
                if pol == "ref":
                    case.update(inlen_omitted=om1, other_omitted=om2)
                else:
                    case.update(omit=om1)
                _judge_slice(ctx, case)
                ctx.traces += len(batch)


def _judge_slice(ctx, case, depth=0):
    fails = eval_slice_batch(case)
    ctx.case(n=len(case["rows"]))
    for kind, detail, i in fails:
        ctx.violation(dict(site=SITE_S, kind=kind, policy=case["policy"]), detail, case)
    # a batch that raised: keep judging each element alone (its own padded dimension)
    if depth == 0 and fails and fails[0][2] is None and len(case["rows"]) > 1:
        for r in case["rows"]:
            own = len(r["seq"]) if case["policy"] == "ref" else r["len"]
            omitted = case.get("omit") or case.get("inlen_omitted")
            _judge_slice(ctx, dict(case, rows=[r], T=own if omitted else own + (case["salt"] + own) % 2), depth=1)


# ------------------------------------------------------------------ chunk_token_sequences_by_slices
def eval_tok_batch(case):
    from pydrobert.torch import functional as F, modules as M

    rows, R = case["rows"], case["R"]
    N = len(rows)
    g = random.Random(case["salt"])
    refs = torch.zeros((N, R, 3), dtype=torch.long)
    for n, r in enumerate(rows):
        for i in range(R):
            if i < len(r["seq"]):
                tk = r["seq"][i]
            else:  # garbage tokens with known segments
                s = g.randrange(0, 4)
                tk = [90 + i, s, s + g.randrange(0, 3)]
            refs[n, i, 0], refs[n, i, 1], refs[n, i, 2] = tk
    slices = torch.tensor([[r["a"], r["b"]] for r in rows], dtype=torch.long).view(N, 2)
    ref_lens = None if case["inlen_omitted"] else torch.tensor([r["inlen"] for r in rows], dtype=torch.long)
    try:
        if case["module"]:
            chunked, clens = _ps.quiet(M.ChunkTokenSequencesBySlices(case["partial"], case["retain"]),
                                       refs, slices, ref_lens)
        else:
            chunked, clens = _ps.quiet(F.chunk_token_sequences_by_slices, refs, slices, ref_lens,
                                       case["partial"], case["retain"])
    except Exception as ex:
        return [("exception", "%s: %s" % (type(ex).__name__, str(ex)[:200]), None)], 0
    if clens.shape != (N,) or chunked.dim() != 3 or chunked.size(0) != N or chunked.size(2) != 3:
        return [("shape", "chunked %s, lens %s" % (tuple(chunked.shape), tuple(clens.shape)), None)], 0
    fails, informational = [], 0
    for n, r in enumerate(rows):
        k = int(clens[n])
        if k < 0 or k > chunked.size(1):
            fails.append(("length", "element %d: reported length %d for a tensor of %d rows" % (n, k, chunked.size(1)), n))
            continue
        got = chunked[n, :k].tolist()
        exp = r["tokens"]
        if [t[0] for t in got] != [t[0] for t in exp]:
            if not r["determined"]:
                informational += 1  # partial overlap with an empty segment / slice: not fixed by the statement
                continue
            fails.append(("tokens", "element %d (tokens %s, slice [%d, %d), partial=%s): kept %s, expected %s" % (
                n, r["seq"], r["a"], r["b"], case["partial"], [t[0] for t in got], [t[0] for t in exp]), n))
            continue
        kind = _classify_tokens(got, exp, r["a"], case["retain"])
        if kind:
            fails.append((kind, "element %d (slice [%d, %d), retain=%s): chunk %s, expected %s" % (
                n, r["a"], r["b"], case["retain"], got, exp), n))
    return fails, informational


def _replay_tokens(ctx, recs, passes):
    groups = {}
    for r in recs:
        io = r["inlen"] == OM
        groups.setdefault((r["partial"], r["retain"], io, len(r["seq"]) if io else -1), []).append(r)
    for key in sorted(groups):
        partial, retain, io, _ = key
        for _ in range(passes):
            for batch in _ps.split_batches(ctx.rng, groups[key], sizes=(1, 2, 3, 5, 8)):
                maxlen = max(len(r["seq"]) for r in batch)
                case = dict(kind="tok", partial=partial, retain=retain, inlen_omitted=io,
                            R=maxlen if io else maxlen + ctx.rng.choice([0, 1, 2]),
                            salt=ctx.rng.randrange(1 << 20), module=ctx.rng.random() < 0.25,
                            rows=[{k: r[k] for k in ("seq", "inlen", "a", "b", "tokens", "determined")} for r in batch])
                fails, informational = eval_tok_batch(case)
                ctx.case(n=len(batch))
                ctx.traces += len(batch)
                if informational:
                    ctx.count("informational_partial_overlap_with_empty_interval", informational)
                for kind, detail, i in fails:
                    ctx.violation(dict(site=SITE_T, kind=kind), detail, case)


# ------------------------------------------------------------------ chunk-torch-spect-data-dir
def _dir_case(ctx, r, k):
    src = []
    for u in _ps.seqlist(r["src"]):
        src.append(dict(T=u["T"], ali=_ps.seqlist(u["ali"]), ref=[list(t) for t in _ps.seqlist(u["ref"])]))
    chunks = []
    for ch in _ps.seqlist(r["chunks"]):
        chunks.append(dict(utt=ch["utt"], idx=ch["idx"], s=ch["s"], e=ch["e"], feat=_ps.seqlist(ch["feat"]),
                           ali=_ps.seqlist(ch["ali"]), ref=[list(t) for t in _ps.seqlist(ch["ref"])]))
    pre, suf = ctx.rng.choice([("", ".pt"), ("", ".pt"), ("pre_", ".bin")])
    return dict(kind="dir", utts=_ps.seqlist(r["utts"]), hasAli=r["hasAli"], hasRef=r["hasRef"], src=src,
                opt=r["opt"], chunks=chunks, prefix=pre, suffix=suf,
                fmt=ctx.rng.choice([None, None, "{utt_id}@{idx}@{start}@{end}"]), salt=k)


def _replay_dirs(ctx, recs):
    skipped, cases = 0, []
    for k, r in enumerate(recs):
        if not r["legal"]:
            skipped += 1  # a window needs more reflect padding than the utterance is long: documented exception
            continue
        cases.append(_dir_case(ctx, r, k))
    ctx.count("dir_cases_documented_exception_not_replayed", skipped)
    nproc = max(1, min(8, (os.cpu_count() or 2) // 2))
    try:
        results = eval_dir_cases(cases, ctx.workdir, nproc)
    except RuntimeError as ex:
        raise MachineryError(str(ex))
    for k, (case, (fails, info)) in enumerate(zip(cases, results)):
        o = case["opt"]
        nchunks = len(case["chunks"])
        ctx.case(key=("dir", case["utts"], case["hasAli"], case["hasRef"], sorted(o.items())),
                 nontrivial=nchunks > 0 and any(ch["feat"] != list(range(1, len(ch["feat"]) + 1)) for ch in case["chunks"]),
                 sample=dict(directory=dict(utts=case["utts"], options=o, chunks=[(c["utt"], c["s"], c["e"]) for c in case["chunks"]]))
                 if k % 977 == 5 else None)
        ctx.traces += 1
        if info["validate_disagrees"]:
            ctx.count("informational_validator_disagrees", info["validate_disagrees"])
        for kind, detail in fails:
            ctx.violation(dict(site=SITE_D, kind=kind, policy=o["policy"]), detail, case)


def _selftest(ctx, by_kind):
    """binding self-test: corrupted expectations must be noticed"""
    r = next(r for r in by_kind["fixed"] if len(r["windows"]) >= 2 and not r["omit"])
    bad = dict(_slice_row(r), windows=[[w[0] + 1, w[1] + 1] for w in r["windows"]])
    case = dict(kind="slice", policy="fixed", wt=r["wt"], valid=r["valid"], lobe=r["lobe"], T=r["len"] + 1, salt=1,
                module=False, omit=False, rows=[bad])
    _ps.need(eval_slice_batch(case), "self-test: corrupted windows were not noticed")
    r = next(r for r in by_kind["tok"] if len(r["tokens"]) >= 1 and r["retain"] and r["inlen"] != OM)
    bad = {k: r[k] for k in ("seq", "inlen", "a", "b", "determined")}
    bad["tokens"] = [[t[0], t[1] + 1, t[2] + 1] for t in r["tokens"]]
    case = dict(kind="tok", partial=r["partial"], retain=True, inlen_omitted=False, R=len(r["seq"]) + 1, salt=1,
                module=False, rows=[bad])
    fails, _ = eval_tok_batch(case)
    _ps.need(any(k == "boundary" for k, _, _ in fails), "self-test: corrupted token boundaries were not noticed")
    ctx.extra["selftest"] = "corrupted window and token expectations rejected"


# ------------------------------------------------------------------ entry points
def _normalise(r):
    k = r["kind"]
    if k in ("fixed", "ali", "ref"):
        r["windows"] = _pairs(r["windows"])
        r["seq"] = _pairs(r["seq"]) if k == "ref" else _ps.seqlist(r["seq"])
        if k == "ref":
            r["alt"] = _pairs(r["alt"])
    elif k == "tok":
        r["seq"] = _pairs(r["seq"])
        r["tokens"] = _pairs(r["tokens"])
    return r


def run(ctx):
    ctx.rule = ("every behaviour of Slicer.tla -- fixed: lengths x 3 window types x valid_only x lobe sizes x in_lens "
                "given/omitted; ali: every label sequence over 2 (3) labels up to the bound x the same grid; ref: every list "
                "of segments with boundaries from a small set (missing = -1, empty, inverted) x in_lens x other_lens given / "
                "omitted x grid; tok: every token list x slice x partial x retain x ref_lens; dir: every listed directory x "
                "policy x window type x lobe x pad mode x partial x retain -- replayed in seeded ragged batches with garbage "
                "beyond the lengths (directories: one command run each).  Non-trivial = at least one window / token / chunk "
                "is expected and (windows) at least one was dropped or extended by a lobe, distinct by case")
    ctx.assumptions += [
        "fixed policy, not valid_only: windows are NOT clamped to the sequence (the docstring's examples and sizes; its "
        "phrase 'with lobes clamped' and the printed list [[-1,4],[2,6],[5,9]] contradict its own window size)",
        "ref policy without valid_only: a segment whose padded start equals other_lens may be kept or dropped (the "
        "documentation's 'begins after other_lens' is ambiguous); both results are accepted",
        "ref policy with other_lens omitted: the default is the end of the last listed segment (as the design and the "
        "code's own comment say); cases where that end is missing (-1) are outside the universe",
        "token chunking with partial=True is only judged for non-empty segments and slices (overlap of an empty "
        "interval is not fixed by the statement); other cases are counted as informational",
        "inverted token segments (end < start) are outside the universe (not well-formed data)",
        "directory chunking: well-formedness of the output is claimed for partial=False, retain=False only; runs whose "
        "windows need more reflect padding than the utterance is long raise as documented and are not replayed",
    ]
    jobs = [(name, MOD, os.path.join(SPECS, "Slicer_%s.cfg" % name), dict(workers=8, timeout=2400)) for name in CFGS[ctx.tier]]
    results = _ps.run_tlc_jobs(jobs)
    by_kind = {}
    for name in CFGS[ctx.tier]:
        res = results[name]
        tlc.require_ok(res, "Slicer/" + name)
        kind = name.split("_")[0].rstrip("3")
        tlc.require_covered(res, ["Init", ACTION_OF[kind]], "Slicer/" + name)
        ctx.add_tlc("Slicer/" + name, res)
        _ps.need(res.records, "Slicer/%s exported no behaviours" % name)
        by_kind.setdefault(kind, []).extend(_normalise(r) for r in res.records)
    ctx.exhaustive = True
    for kind in ("fixed", "ali", "ref", "tok"):
        for i, r in enumerate(by_kind[kind]):
            if kind == "tok":
                key = (kind, r["seq"], r["inlen"], r["a"], r["b"], r["partial"], r["retain"])
                nontrivial = len(r["tokens"]) > 0 and (not r["retain"]) and r["a"] != 0
            else:
                key = (kind, r["wt"], r["valid"], r["lobe"], r.get("omit"), r["seq"], r.get("len"), r.get("inlen"), r.get("other"))
                nontrivial = len(r["windows"]) > 0 and (r["lobe"] > 0 or kind == "ref")
            ctx.case(key=key, nontrivial=nontrivial, n=0,
                     sample={k: v for k, v in r.items() if k != "alt"} if (i % 4001 == 7 and nontrivial) else None)
    passes = 1 if ctx.quick else 2
    import time

    t0 = time.time()
    timing = ctx.extra.setdefault("replay_wall_s", {})
    _replay_slices(ctx, by_kind["fixed"] + by_kind["ali"], passes + 1)
    timing["fixed_ali"] = round(time.time() - t0, 1)
    t0 = time.time()
    _replay_slices(ctx, by_kind["ref"], passes)
    timing["ref"] = round(time.time() - t0, 1)
    t0 = time.time()
    _replay_tokens(ctx, by_kind["tok"], passes)
    timing["tok"] = round(time.time() - t0, 1)
    t0 = time.time()
    _replay_dirs(ctx, by_kind["dir"])
    timing["dir"] = round(time.time() - t0, 1)
    if not ctx.quick:
        _selftest(ctx, by_kind)


def replay(ctx, case):
    if case["kind"] == "slice":
        fails = eval_slice_batch(case)
        site = SITE_S
    elif case["kind"] == "tok":
        fails, _ = eval_tok_batch(case)
        site = SITE_T
    else:
        fails, _ = eval_dir_case(case, ctx.workdir)
        site = SITE_D
    for f in fails:
        print("replay %s: %s: %s" % (site, f[0], f[1]))
        ctx.violation(dict(site=site, kind=f[0]), f[1], case)
    if not fails:
        print("replay %s: agrees with the specification" % site)


if __name__ == "__main__":
    sys.exit(main(PROP, "model_checking", run, replay))
