"""Shared machinery for C19: run Estimators.tla / Cardinality.tla, build the concrete torch
distributions for a spec case, stub `sample`, explore the sampler's choice tree.

Nothing here decides a property: expected values, tuple weights and accepted trace sets all come
from the TLC runs; this module only builds inputs, projects outputs and compares."""
import contextlib
import json
import math
import os
import threading
import warnings

import torch

from .. import SPECS, tlc
from ..harness import MachineryError

EST_MOD = os.path.join(SPECS, "EstimatorsMC%s.tla")
CARD_MOD = os.path.join(SPECS, "Cardinality.tla")
CARD_TRACE_MOD = os.path.join(SPECS, "CardinalityTrace.tla")
EST_ACTIONS = ["Init", "Begin", "DrawAny", "MHInitialAny", "MHProposeAny"]
CARD_ACTIONS = ["Init", "Draw"]

DT = torch.float64


def q2f(q):
    """spec rational [num, den] -> float"""
    return q[0] / q[1]


def run_specs(ctx):
    """Design + export runs of Estimators and Cardinality (in parallel).  Returns (est, card) results."""
    tier = "quick" if ctx.quick else "thorough"
    out, errs = {}, []

    def job(name, mod, cfg, workers):
        try:
            out[name] = tlc.run(mod, os.path.join(SPECS, cfg), workers=workers, timeout=3000)
        except Exception as ex:
            errs.append(ex)

    ths = [threading.Thread(target=job, args=("est", EST_MOD % tier, "Estimators_%s.cfg" % tier, 12)),
           threading.Thread(target=job, args=("card", CARD_MOD, "Cardinality_%s.cfg" % tier, 4))]
    for t in ths:
        t.start()
    for t in ths:
        t.join()
    if errs:
        raise errs[0]
    tlc.require_ok(out["est"], "Estimators")
    tlc.require_covered(out["est"], EST_ACTIONS, "Estimators")
    tlc.require_ok(out["card"], "Cardinality")
    tlc.require_covered(out["card"], CARD_ACTIONS, "Cardinality")
    ctx.add_tlc("Estimators", out["est"])
    ctx.add_tlc("Cardinality", out["card"])
    return out["est"], out["card"]


def cs_key(cs):
    return json.dumps(cs, sort_keys=True)


def group_estimator_records(recs):
    """-> (cases: key -> dict(cs, E, G, muc, ntuples, tuples=[...]), mh: [records])"""
    cases, mh = {}, []
    for r in recs:
        if r["kind"] == "case":
            d = cases.setdefault(cs_key(r["cs"]), dict(tuples=[]))
            d.update(cs=r["cs"], E=r["E"], G=r["G"], muc=r["muc"], ntuples=r["ntuples"])
    for r in recs:
        if r["kind"] == "tuple":
            cases[cs_key(r["cs"])]["tuples"].append(dict(t=r["t"], w=r["w"], v=r["v"], g=r["g"]))
        elif r["kind"] == "mh":
            mh.append(r)
    for k, d in cases.items():
        if d["cs"]["est"] != "mh" and len(d["tuples"]) != d["ntuples"]:
            raise MachineryError("case %s: exported %d tuples, spec says %d" % (k, len(d["tuples"]), d["ntuples"]))
        d["tuples"].sort(key=lambda x: x["t"])
    return cases, mh


# ---------------------------------------------------------------------------------------------
# concrete distributions for a spec case
# ---------------------------------------------------------------------------------------------
def logits_of(cs, kk):
    D = cs["D"]
    if cs["dist"] == "bern":
        return torch.tensor([math.log(k / (D - k)) for k in kk], dtype=DT)
    return torch.tensor([math.log(k / D) for k in kk], dtype=DT)


def bit(w, i):
    """value of binary variable i (1-based) in outcome w (1-based); the spec's Bit"""
    return ((w - 1) >> (i - 1)) & 1


def outcome_value(cs, rep, w):
    """one outcome as the sample value the distribution `rep` would return (python list / int)"""
    if cs["dist"] == "bern":
        if rep == "joint":
            return w - 1
        if rep == "bern0":
            return float(bit(w, 1))
        return [float(bit(w, i)) for i in range(1, cs["n"] + 1)]
    if rep == "index":
        return w - 1
    return [1.0 if v == w else 0.0 for v in range(1, cs["n"] + 1)]


def sample_tensor(cs, rep, tuples):
    """tuples: list (batch) of tuples (each a list of M outcomes) -> tensor (M, B, *event)"""
    M = len(tuples[0])
    rows = [[outcome_value(cs, rep, t[m]) for t in tuples] for m in range(M)]
    dtype = torch.long if rep in ("joint", "index") else DT
    return torch.tensor(rows, dtype=dtype)


def table_func(cs, rep, table, log=False):
    """the spec's integer table as a FunctionOnSample for samples of representation `rep`"""
    tab = torch.tensor([float(x) for x in table], dtype=DT)
    if log:
        tab = tab.log()
    n = cs["n"]

    def func(b):
        if rep in ("joint", "index"):
            idx = b.long()
        elif rep == "bern0":
            idx = b.long()
        elif cs["dist"] == "bern":
            weights = torch.tensor([1 << i for i in range(n)], dtype=torch.long)
            idx = (b.long() * weights).sum(-1)
        else:
            idx = b.argmax(-1)
        return tab[idx]

    return func


def joint_logprobs(theta):
    """log-probabilities of the 2^n outcomes of independent Bernoulli(logits=theta), outcome order of
    the spec (differentiable in theta)"""
    n = theta.numel()
    lp1 = torch.nn.functional.logsigmoid(theta)
    lp0 = torch.nn.functional.logsigmoid(-theta)
    rows = []
    for w in range(1, 2 ** n + 1):
        rows.append(sum(lp1[i - 1] if bit(w, i) else lp0[i - 1] for i in range(1, n + 1)))
    return torch.stack(rows)


def make_dist(cs, rep, theta, batch=None):
    """theta: 1-D tensor of logits (requires_grad).  batch: None or B (expand to batch_shape (B,))"""
    D = torch.distributions
    if rep == "joint":
        lg = joint_logprobs(theta)
        if batch is not None:
            lg = lg.unsqueeze(0).expand(batch, -1)
        return D.Categorical(logits=lg)
    if rep == "bern0":
        lg = theta[0]
        if batch is not None:
            lg = lg.expand(batch)
        return D.Bernoulli(logits=lg)
    lg = theta if batch is None else theta.unsqueeze(0).expand(batch, -1)
    if cs["dist"] == "bern":
        return D.Independent(D.Bernoulli(logits=lg), 1)
    if rep == "index":
        return D.Categorical(logits=lg)
    return D.OneHotCategorical(logits=lg)


def analytic_mean(cs, theta, table):
    """E_P[table] as a differentiable function of the logits (the cv_mean handed to the estimator)"""
    tab = torch.tensor([float(x) for x in table], dtype=DT)
    if cs["dist"] == "bern":
        return (joint_logprobs(theta).exp() * tab).sum()
    return (torch.softmax(theta, 0) * tab).sum()


class SampleStub:
    """replaces `dist.sample`: returns the queued tensors in order and records the requested shapes"""

    def __init__(self, queue):
        self.queue = list(queue)
        self.calls = []

    def __call__(self, sample_shape=torch.Size()):
        self.calls.append(tuple(sample_shape))
        if not self.queue:
            raise MachineryError("sample stub exhausted")
        return self.queue.pop(0)


def quiet(fn, *a, **kw):
    with warnings.catch_warnings():
        warnings.simplefilter("ignore")
        return fn(*a, **kw)


@contextlib.contextmanager
def patched(obj, name, new):
    old = getattr(obj, name)
    setattr(obj, name, new)
    try:
        yield
    finally:
        setattr(obj, name, old)


# ---------------------------------------------------------------------------------------------
# exhaustive exploration of the sequential sampler's choice tree (torch.bernoulli stubbed)
# ---------------------------------------------------------------------------------------------
class BadProbability(Exception):
    pass


def explore_sampler(call, limit=100000):
    """call(): runs the implementation once (it calls torch.bernoulli once per position with a
    one-element p).  Depth-first enumeration of every output reachable through choices
    b ~ Bernoulli(p): both values where 0 < p < 1, the forced one where p is 0 or 1.
    Yields (output, ps)."""
    path = []  # [choice, alternative still to be explored]
    runs = 0
    while True:
        ps = []
        pos = [0]

        def stub(p, *a, **kw):
            if p.numel() != 1:
                raise MachineryError("sampler exploration expects one-element probabilities")
            pv = float(p.reshape(-1)[0])
            ps.append(pv)
            if not (0.0 <= pv <= 1.0):
                raise BadProbability("p=%r at position %d" % (pv, pos[0]))
            j = pos[0]
            if j < len(path):
                c = path[j][0]
            else:
                free = 0.0 < pv < 1.0
                c = 1 if pv >= 1.0 else 0
                path.append([c, free])
            pos[0] += 1
            return torch.full_like(p, float(c))

        with patched(torch, "bernoulli", stub):
            out = call()
        del path[pos[0]:]
        yield out, ps
        runs += 1
        if runs > limit:
            raise MachineryError("sampler exploration did not terminate")
        while path and not path[-1][1]:
            path.pop()
        if not path:
            return
        path[-1] = [1, False]
