"""C02 -- error rate counts the edits of some minimum-cost alignment.

spec -> code: for every behaviour of EditDistance.tla the spec exports, per hypothesis prefix, the
interval [fewest, most] edits over ALL minimum-cost alignments (declarative, by enumeration of edit
scripts).  TLC has checked that the code-shaped `mistakes` table with the code's tie rule stays
inside it.  The verdict on the implementation uses only the interval (any optimal alignment is
allowed), equality with plain Levenshtein for equal costs, the normalisation rule, the padding of
the per-prefix variant and, for the MER loss, the softmax-weighted sum."""
import sys

import torch

from ..harness import main
from . import _ed

PROP = "C02"


def _call_er(ref, hyp, eos, inc, norm, bf, cost, module):
    from pydrobert.torch import functional as F, modules as M

    if bf:
        ref, hyp = ref.t().contiguous(), hyp.t().contiguous()
    if module:
        return _ed.quiet(M.ErrorRate(eos, inc, norm, bf, cost[0], cost[1], cost[2], False), ref, hyp)
    return _ed.quiet(F.error_rate, ref, hyp, eos, inc, norm, bf, cost[0], cost[1], cost[2], False)


def _call_per(ref, hyp, eos, inc, norm, bf, cost, pad, excl, module):
    from pydrobert.torch import functional as F, modules as M

    if bf:
        ref, hyp = ref.t().contiguous(), hyp.t().contiguous()
    if module:
        out = _ed.quiet(M.PrefixErrorRates(eos, inc, norm, bf, cost[0], cost[1], cost[2], pad, excl, False), ref, hyp)
    else:
        out = _ed.quiet(F.prefix_error_rates, ref, hyp, eos, inc, norm, bf, cost[0], cost[1], cost[2], pad, excl, False)
    return out.t() if not bf else out


def check_group(ctx, key, g, tmap, scale, settings, tag):
    mode, c, R, H = key
    eos, inc = _ed.eos_args(mode, tmap)
    cost = [x * scale for x in c]
    uniform = c[0] == c[1] == c[2]
    ref = _ed.tensors([r["ref"] for r in g], tmap)
    hyp = _ed.tensors([r["hyp"] for r in g], tmap)
    N = len(g)
    lo = torch.tensor([[o["lo"] for o in r["out"]] for r in g]).double()  # (N, H+1)
    hi = torch.tensor([[o["hi"] for o in r["out"]] for r in g]).double()
    reflen = torch.tensor([r["reflen"] for r in g])
    hyplen = torch.tensor([r["hyplen"] for r in g])
    rl = reflen.clamp_min(1).double()
    ar = torch.arange(N)

    def case_of(i, fn, kw, exp, got):
        return dict(fn=fn, ref=[tmap[s] for s in g[i]["ref"]], hyp=[tmap[s] for s in g[i]["hyp"]],
                    eos=eos, include_eos=inc, cost=cost, kwargs=kw, expected=exp, got=got,
                    spec_case=dict(ref=g[i]["ref"], hyp=g[i]["hyp"], mode=mode, c=list(c)), batch=tag)

    for norm, bf, module in settings["er"]:
        kw = dict(norm=norm, batch_first=bf, module=module)
        try:
            got = _call_er(ref, hyp, eos, inc, norm, bf, cost, module).double()
        except Exception as ex:
            ctx.violation(dict(site="error_rate", kind="exception"), "raised %r" % ex, case_of(0, "error_rate", kw, None, repr(ex)))
            continue
        ctx.case(n=N)
        if got.shape != (N,):
            ctx.violation(dict(site="error_rate", kind="shape"), "shape %s" % (tuple(got.shape),), case_of(0, "error_rate", kw, None, None))
            continue
        elo, ehi = lo[ar, hyplen], hi[ar, hyplen]
        if norm:
            empty = reflen == 0
            conv = (hyplen > 0).double()
            elo = torch.where(empty, conv, elo / rl)
            ehi = torch.where(empty, conv, ehi / rl)
        bad = ~((got >= elo - 1e-6) & (got <= ehi + 1e-6))
        if bool(bad.any()):
            i = bad.nonzero()[0].item()
            kind = "levenshtein" if uniform else "range"
            if norm and reflen[i] == 0:
                kind = "empty_ref_convention"
            ctx.violation(dict(site="error_rate", kind=kind, batch=tag),
                          "error_rate=%r not in [%r, %r] (%d of %d pairs)" % (got[i].item(), elo[i].item(), ehi[i].item(), int(bad.sum()), N),
                          case_of(i, "error_rate", kw, [elo[i].item(), ehi[i].item()], got[i].item()))
    for norm, bf, excl, pad, module in settings["per"]:
        kw = dict(norm=norm, batch_first=bf, exclude_last=excl, padding=pad, module=module)
        try:
            got = _call_per(ref, hyp, eos, inc, norm, bf, cost, pad, excl, module).double()
        except Exception as ex:
            ctx.violation(dict(site="prefix_error_rates", kind="exception"), "raised %r" % ex,
                          case_of(0, "prefix_error_rates", kw, None, repr(ex)))
            continue
        ctx.case(n=N)
        P = H if excl else H + 1
        if got.shape != (N, P):
            ctx.violation(dict(site="prefix_error_rates", kind="shape"), "shape %s expected %s" % (tuple(got.shape), (N, P)),
                          case_of(0, "prefix_error_rates", kw, None, None))
            continue
        ks = torch.arange(P).unsqueeze(0)
        valid = ks < (hyplen + (0 if excl else 1)).unsqueeze(1)
        elo, ehi = lo[:, :P], hi[:, :P]
        if norm:
            empty = (reflen == 0).unsqueeze(1).expand(N, P)
            conv = (ks > 0).double().expand(N, P)
            elo = torch.where(empty, conv, elo / rl.unsqueeze(1))
            ehi = torch.where(empty, conv, ehi / rl.unsqueeze(1))
        padv = torch.full_like(elo, float(pad))
        elo = torch.where(valid, elo, padv)
        ehi = torch.where(valid, ehi, padv)
        bad = ~((got >= elo - 1e-6) & (got <= ehi + 1e-6))
        if bool(bad.any()):
            i, kk = bad.nonzero()[0].tolist()
            kind = "padding" if not bool(valid[i, kk]) else ("levenshtein" if uniform else "range")
            ctx.violation(dict(site="prefix_error_rates", kind=kind, batch=tag),
                          "prefix %d: %r not in [%r, %r] (%d cells)" % (kk, got[i, kk].item(), elo[i, kk].item(), ehi[i, kk].item(), int(bad.sum())),
                          case_of(i, "prefix_error_rates", kw, [elo[i].tolist(), ehi[i].tolist()], got[i].tolist()))


def check_mer(ctx, key, g, tmap, nsets):
    """minimum_error_rate_loss on sample sets drawn from the group's cases whose edit count is
    unique (lo = hi), so that the expected loss is determined by the spec."""
    from pydrobert.torch import functional as F, modules as M

    mode, c, R, H = key
    eos, inc = _ed.eos_args(mode, tmap)
    rng = ctx.rng
    det = [r for r in g if r["out"][r["hyplen"]]["lo"] == r["out"][r["hyplen"]]["hi"]]
    if len(det) < 3:
        return
    for _ in range(nsets):
        N = rng.choice((1, 2, 3))
        Msz = rng.choice((2, 3))
        three_d = rng.random() < 0.5
        sets = []
        for n in range(N):
            if three_d:
                sets.append([rng.choice(det) for _ in range(Msz)])
            else:
                base = rng.choice(det)
                same = [r for r in det if r["ref"] == base["ref"]]
                sets.append([rng.choice(same) for _ in range(Msz)])
        w = [[rng.choice((1, 2, 3, 5)) for _ in range(Msz)] for _ in range(N)]
        # softmax weights depend on differences only: strongly negative sequence log-probabilities (sums over many tokens)
        # and single precision are part of the universe
        logp = torch.tensor(w, dtype=torch.double).log() + torch.tensor([[rng.choice((0.0, -1.5, 2.0, -150.0, -400.0))] for _ in range(N)], dtype=torch.double)
        single = rng.random() < 0.5
        if single:
            logp = logp.float()
        tol = 1e-5 if single else 1e-6
        hyp = torch.tensor([[[tmap[s] for s in r["hyp"]] for r in row] for row in sets])  # (N, M, H)
        ref3 = torch.tensor([[[tmap[s] for s in r["ref"]] for r in row] for row in sets])  # (N, M, R)
        for sub_avg in (False, True):
            for norm in (False, True):
                ers = []
                for row in sets:
                    e = []
                    for r in row:
                        v = float(r["out"][r["hyplen"]]["lo"])
                        if norm:
                            v = (1.0 if r["hyplen"] > 0 else 0.0) if r["reflen"] == 0 else v / r["reflen"]
                        e.append(v)
                    ers.append(e)
                er = torch.tensor(ers, dtype=torch.double)
                if sub_avg:
                    er = er - er.mean(1, keepdim=True)
                # softmax of the log-probabilities actually supplied (single precision rounds log w - 400), in double
                sm = (logp.double() - logp.double().max(1, keepdim=True)[0]).exp()
                sm = sm / sm.sum(1, keepdim=True)
                exp_none = er * sm
                for bf in (False, True):
                    for red in ("none", "sum", "mean"):
                        if bf:
                            r_in = ref3 if three_d else ref3[:, 0]
                            h_in = hyp
                        else:
                            r_in = ref3.permute(2, 0, 1).contiguous() if three_d else ref3[:, 0].t().contiguous()
                            h_in = hyp.permute(2, 0, 1).contiguous()
                        kw = dict(sub_avg=sub_avg, norm=norm, batch_first=bf, reduction=red, three_d=three_d, single=single)
                        case = dict(fn="minimum_error_rate_loss", log_probs=logp.tolist(), ref=r_in.tolist(), hyp=h_in.tolist(),
                                    eos=eos, include_eos=inc, cost=list(c), kwargs=kw)
                        use_module = rng.random() < 0.3
                        try:
                            if use_module:
                                got = _ed.quiet(M.MinimumErrorRateLoss(eos, inc, sub_avg, bf, norm, float(c[0]), float(c[1]), float(c[2]), red),
                                                logp, r_in, h_in)
                            else:
                                got = _ed.quiet(F.minimum_error_rate_loss, logp, r_in, h_in, eos, inc, sub_avg, bf, norm,
                                                float(c[0]), float(c[1]), float(c[2]), red, False)
                        except Exception as ex:
                            ctx.violation(dict(site="minimum_error_rate_loss", kind="exception"), "raised %r" % ex, case)
                            continue
                        exp = exp_none if red == "none" else (exp_none.sum() if red == "sum" else exp_none.mean())
                        ctx.case(n=1)
                        ctx.count("mer_calls")
                        got = got.double()
                        if got.shape != exp.shape or not bool(((got - exp).abs() <= tol).all()):
                            case["expected"] = exp.tolist()
                            case["got"] = got.tolist()
                            ctx.violation(dict(site="minimum_error_rate_loss", kind="value"),
                                          "loss %r expected %r" % (got.tolist(), exp.tolist()), case)


FULL = dict(
    er=[(n, b, m) for n in (False, True) for b in (False, True) for m in (False, True)],
    per=[(n, b, e, p, m) for n in (False, True) for b in (False, True) for e in (False, True)
         for p, m in ((-1, False), (-7, True))],
)
LIGHT = dict(er=[(False, False, False), (True, True, False)],
             per=[(False, False, False, -1, False), (True, True, True, -3, False)])


def run(ctx):
    ctx.rule = ("every behaviour of EditDistance.tla replayed through error_rate / prefix_error_rates (functional "
                "and module) over norm x batch_first x exclude_last x padding; verdict = reported count inside the "
                "[fewest, most] edits of minimum-cost alignments (single value for equal costs); MER loss on seeded "
                "sample sets with unique counts; non-trivial = pair with >= 1 edit and non-empty strings, distinct "
                "by (mode, costs, ref row, hyp row)")
    ctx.assumptions += ["dyadic costs", "R,H >= 1",
                        "MER loss judged only on sample sets whose error counts are unique (lo = hi)"]
    recs = _ed.run_design(ctx, {"core"})
    groups = _ed.group_records(recs)
    ctx.exhaustive = True
    wide = 0
    for key in sorted(groups):
        g = groups[key]
        for r in g:
            o = r["out"][r["hyplen"]]
            wide += o["lo"] != o["hi"]
            ctx.case(key=(key[0], key[1], r["ref"], r["hyp"]), nontrivial=o["hi"] > 0 and r["reflen"] > 0 and r["hyplen"] > 0, n=0,
                     sample=dict(ref=r["ref"], hyp=r["hyp"], mode=key[0], costs=key[1],
                                 edit_interval_per_prefix=[[x["lo"], x["hi"]] for x in r["out"]]) if (o["lo"] != o["hi"] and ctx.rng.random() < 0.01) else None)
        ti = ctx.rng.randrange(len(_ed.TOKEN_MAPS))
        for si, scale in enumerate(_ed.SCALES):
            tmap = _ed.TOKEN_MAPS[(ti + si) % len(_ed.TOKEN_MAPS)]
            check_group(ctx, key, g, tmap, scale, FULL if si == 0 else LIGHT, "all")
        for idxs in _ed.sub_batches(ctx.rng, len(g), 6 if ctx.quick else 40):
            check_group(ctx, key, [g[i] for i in idxs], _ed.TOKEN_MAPS[ti], 1.0, LIGHT, "small")
        # more sample sets where the three costs differ (a cost passed to the wrong parameter only shows there)
        check_mer(ctx, key, g, _ed.TOKEN_MAPS[ti], (2 if key[1][0] == key[1][1] == key[1][2] else 12) if ctx.quick else 16)
        ctx.traces += len(g)
    ctx.extra["pairs_with_non_unique_edit_count"] = int(wide)
    if not ctx.samples:
        r = recs[len(recs) // 2]
        ctx.samples.append(dict(ref=r["ref"], hyp=r["hyp"], mode=r["mode"], costs=r["c"],
                                edit_interval_per_prefix=[[x["lo"], x["hi"]] for x in r["out"]]))


def replay(ctx, case):
    from pydrobert.torch import functional as F

    cost = case["cost"]
    kw = dict(case["kwargs"])
    if case["fn"] == "minimum_error_rate_loss":
        single = bool(kw.get("single"))
        got = _ed.quiet(F.minimum_error_rate_loss, torch.tensor(case["log_probs"], dtype=torch.float if single else torch.double), torch.tensor(case["ref"]),
                        torch.tensor(case["hyp"]), case["eos"], case["include_eos"], kw["sub_avg"], kw["batch_first"], kw["norm"],
                        float(cost[0]), float(cost[1]), float(cost[2]), kw["reduction"], False).double()
        exp = torch.tensor(case["expected"], dtype=torch.double)
        print("replay mer: got %r expected %r" % (got.tolist(), exp.tolist()))
        if got.shape != exp.shape or not bool(((got - exp).abs() <= (1e-5 if single else 1e-6)).all()):
            ctx.violation(dict(site="minimum_error_rate_loss", kind="value"), "replayed case still differs", case)
        return
    ref = torch.tensor([case["ref"]]).t()
    hyp = torch.tensor([case["hyp"]]).t()
    if case["fn"] == "error_rate":
        got = [_ed.quiet(F.error_rate, ref, hyp, case["eos"], case["include_eos"], kw["norm"], False, cost[0], cost[1], cost[2], False)[0].item()]
        lo, hi = [case["expected"][0]], [case["expected"][1]]
    else:
        got = _ed.quiet(F.prefix_error_rates, ref, hyp, case["eos"], case["include_eos"], kw["norm"], False, cost[0], cost[1], cost[2],
                        kw["padding"], kw["exclude_last"], False)[:, 0].tolist()
        lo, hi = case["expected"]
    print("replay %s: got %r expected within %r..%r" % (case["fn"], got, lo, hi))
    if len(got) != len(lo) or not all(a - 1e-6 <= x <= b + 1e-6 for x, a, b in zip(got, lo, hi)):
        ctx.violation(dict(site=case["fn"], kind="range"), "replayed case still outside the interval", case)


if __name__ == "__main__":
    sys.exit(main(PROP, "model_checking", run, replay))
