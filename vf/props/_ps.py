"""Shared helpers for C09 (PadSlice) and C10 (Slicer): parallel TLC jobs, concrete tensors from
abstract cells, projection of implementation results back to abstract cells."""
import threading
import warnings

import torch

from .. import tlc
from ..harness import MachineryError


def run_tlc_jobs(jobs):
    """jobs: list of (name, module, cfg, kwargs).  Runs them concurrently, returns {name: TLCResult};
    re-raises the first failure."""
    results, errs = {}, []

    def job(name, module, cfg, kw):
        try:
            results[name] = tlc.run(module, cfg, **kw)
        except Exception as ex:  # propagate to the main thread
            errs.append(ex)

    threads = [threading.Thread(target=job, args=j) for j in jobs]
    for t in threads:
        t.start()
    for t in threads:
        t.join()
    if errs:
        raise errs[0]
    return results


def seqlist(v):
    """ToJson prints an empty TLA+ sequence/function as {} or []; normalise to a list."""
    if isinstance(v, dict):
        if v:
            return [v[k] for k in sorted(v, key=int)]
        return []
    return list(v)


def quiet(fn, *a, **kw):
    with warnings.catch_warnings():
        warnings.simplefilter("ignore")
        return fn(*a, **kw)


def make_x(N, T, feat, salt, dtype=torch.float32):
    """(N, T, *feat) tensor of pairwise distinct positive integer values (a function of the shape
    and of `salt` only, so that a stored case can be rebuilt)."""
    numel = N * T
    for f in feat:
        numel *= f
    x = torch.arange(numel, dtype=torch.float64).view((N, T) + tuple(feat)) + 1 + (salt % 97)
    return x.to(dtype)


def cells_to_tensor(x_row, ids, value):
    """abstract cells (k > 0: source position k of this row, 0: the padding value) -> tensor (len(ids), *feat)"""
    out = x_row.new_full((len(ids),) + tuple(x_row.shape[1:]), value)
    for i, k in enumerate(ids):
        if k > 0:
            out[i] = x_row[k - 1]
    return out


def project_row(x_row, got_row, value):
    """got_row (L, *feat) -> abstract cells: k > 0 if the cell equals x_row[k-1] (elements are distinct),
    0 if it is entirely the padding value, -1 otherwise"""
    ids = []
    T = x_row.shape[0]
    for i in range(got_row.shape[0]):
        cell = got_row[i]
        k = -1
        for t in range(T):
            if torch.equal(cell, x_row[t]):
                k = t + 1
                break
        if k < 0 and bool((cell == value).all()):
            k = 0
        ids.append(k)
    return ids


def split_batches(rng, items, sizes=(1, 2, 3, 4, 6)):
    """seeded ragged batches covering every item once (order shuffled)"""
    items = list(items)
    rng.shuffle(items)
    out, i = [], 0
    while i < len(items):
        k = rng.choice(sizes)
        out.append(items[i:i + k])
        i += k
    return out


def need(cond, msg):
    if not cond:
        raise MachineryError(msg)
