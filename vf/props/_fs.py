"""Shared machinery for C18: run the FeatStats* specifications and build tensors / directories from
their abstract cases.  Expected values are the specification's exact rationals."""
import math
import os
import threading

import torch

from .. import SPECS, tlc


def spec(name):
    return os.path.join(SPECS, name)


def run_parallel(jobs):
    """jobs: list of (name, module, cfg, kwargs) -> dict name -> TLCResult (all started at once)"""
    results, errs, threads = {}, [], []

    def job(name, mod, cfg, kw):
        try:
            results[name] = tlc.run(mod, cfg, **kw)
        except Exception as ex:
            errs.append(ex)

    for name, mod, cfg, kw in jobs:
        th = threading.Thread(target=job, args=(name, mod, cfg, kw))
        th.start()
        threads.append(th)
    for th in threads:
        th.join()
    if errs:
        raise errs[0]
    return results


# ---------------------------------------------------------------- accumulate: chunk tensors
# (number of tensor dims, dim argument); the coefficient axis sits at `dim`
ACC_LAYOUTS = [(2, -1), (2, 1), (2, 0), (2, -2), (3, -1), (3, 2), (3, 1), (3, -2), (3, 0), (3, -3)]


def chunk_tensor(frames, ndim, dim, dtype, split=0):
    """frames: list of k frames (each a list of C ints) -> tensor with the coefficient axis at `dim`
    and the k frames spread over the other axes (split selects how k is factored for 3-D)."""
    k = len(frames)
    x = torch.tensor(frames, dtype=dtype)  # (k, C)
    if ndim == 1:
        assert k == 1
        return x[0]
    if ndim == 2:
        pos = dim % 2
        return x if pos == 1 else x.t().contiguous()
    facs = [(a, k // a) for a in range(1, k + 1) if k % a == 0]
    a, b = facs[split % len(facs)]
    x = x.view(a, b, -1)  # (a, b, C)
    pos = dim % 3
    if pos == 2:
        return x
    if pos == 1:
        return x.permute(0, 2, 1).contiguous()
    return x.permute(2, 0, 1).contiguous()


def stats_from_record(rec, bessel):
    """mean (list of floats) and std (list of floats) from the spec's integers"""
    n = rec["n"]
    den = n * (n - 1) if bessel else n * n
    mean = [s / n for s in rec["sum"]]
    std = [math.sqrt(v / den) for v in rec["varnum"]]
    return mean, std


# ---------------------------------------------------------------- deltas: layout
def arrange(E, axes):
    """E: canonical tensor (s0, s1, s2, U); axes: the spec's final axis list, entries 0/1/2/'u' or a
    pair [major, minor] -> tensor laid out as the spec says"""
    def lab(a):
        return 3 if a == "u" else int(a)

    perm = []
    shape = []
    for a in axes:
        if isinstance(a, (list, tuple)):
            perm += [lab(a[0]), lab(a[1])]
            shape.append(E.size(lab(a[0])) * E.size(lab(a[1])))
        else:
            perm.append(lab(a))
            shape.append(E.size(lab(a)))
    return E.permute(*perm).contiguous().view(*shape)
