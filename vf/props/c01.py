"""C01 -- edit distance is the weighted Levenshtein distance, per pair and per prefix.

spec -> code: every behaviour of EditDistance.tla (exhaustive over padded rows, eos modes, cost
triples; TLC has checked the row machine against the set of ALL alignments) is replayed through
functional.edit_distance / prefix_edit_distances and the EditDistance / PrefixEditDistances
modules, in one large batch and in seeded small batches (batch independence)."""
import sys

import torch

from ..harness import main
from . import _ed

PROP = "C01"


def _expected(g, scale):
    """g: list of records of one (mode, c, R, H) group"""
    H = len(g[0]["hyp"])
    dist = torch.tensor([r["out"][r["hyplen"]]["cost"] * scale for r in g], dtype=torch.double)
    pre = torch.tensor([[o["cost"] * scale for o in r["out"]] for r in g], dtype=torch.double)  # (N, H+1)
    reflen = torch.tensor([r["reflen"] for r in g])
    hyplen = torch.tensor([r["hyplen"] for r in g])
    return dist, pre, reflen, hyplen, H


def _call_ed(ref, hyp, eos, inc, norm, bf, cost, module):
    from pydrobert.torch import functional as F, modules as M

    if bf:
        ref, hyp = ref.t().contiguous(), hyp.t().contiguous()
    if module:
        return _ed.quiet(M.EditDistance(eos, inc, norm, bf, cost[0], cost[1], cost[2], False), ref, hyp)
    return _ed.quiet(F.edit_distance, ref, hyp, eos, inc, norm, bf, cost[0], cost[1], cost[2], False)


def _call_ped(ref, hyp, eos, inc, norm, bf, cost, pad, excl, module):
    from pydrobert.torch import functional as F, modules as M

    if bf:
        ref, hyp = ref.t().contiguous(), hyp.t().contiguous()
    if module:
        out = _ed.quiet(M.PrefixEditDistances(eos, inc, norm, bf, cost[0], cost[1], cost[2], pad, excl, False),
                        ref, hyp)
    else:
        out = _ed.quiet(F.prefix_edit_distances, ref, hyp, eos, inc, norm, bf, cost[0], cost[1], cost[2],
                        pad, excl, False)
    return out.t() if not bf else out  # -> (N, P)


def check_group(ctx, key, g, tmap, scale, settings, tag):
    mode, c, R, H = key
    eos, inc = _ed.eos_args(mode, tmap)
    cost = [x * scale for x in c]
    ref = _ed.tensors([r["ref"] for r in g], tmap)
    hyp = _ed.tensors([r["hyp"] for r in g], tmap)
    dist, pre, reflen, hyplen, _ = _expected(g, scale)
    N = len(g)

    def case_of(i, fn, kw, exp, got):
        return dict(fn=fn, ref=[tmap[s] for s in g[i]["ref"]], hyp=[tmap[s] for s in g[i]["hyp"]],
                    eos=eos, include_eos=inc, cost=cost, kwargs=kw, expected=exp, got=got,
                    spec_case=dict(ref=g[i]["ref"], hyp=g[i]["hyp"], mode=mode, c=list(c)), batch=tag)

    for norm, bf, module in settings["ed"]:
        try:
            got = _call_ed(ref, hyp, eos, inc, norm, bf, cost, module).double()
        except Exception as ex:
            ctx.violation(dict(site="edit_distance", kind="exception"), "raised %r" % ex,
                          case_of(0, "edit_distance", dict(norm=norm, batch_first=bf, module=module), None, repr(ex)))
            continue
        exp = dist.double()
        judged = torch.ones(N, dtype=torch.bool)
        if norm:
            judged = reflen > 0  # the statement fixes no convention for an empty reference here
            exp = exp / reflen.clamp_min(1)
        ok = (got.shape == exp.shape) and bool((((got - exp).abs() <= 1e-6 * exp.abs().clamp_min(1)) | ~judged).all())
        ctx.case(n=N)
        if not ok:
            if got.shape != exp.shape:
                ctx.violation(dict(site="edit_distance", kind="shape"), "shape %s" % (tuple(got.shape),),
                              case_of(0, "edit_distance", dict(norm=norm, batch_first=bf, module=module), None, None))
                continue
            bad = (((got - exp).abs() > 1e-6 * exp.abs().clamp_min(1)) & judged).nonzero().flatten().tolist()
            i = bad[0]
            ctx.violation(dict(site="edit_distance", kind="value", batch=tag),
                          "edit_distance=%r expected %r (%d of %d pairs differ)" % (got[i].item(), exp[i].item(), len(bad), N),
                          case_of(i, "edit_distance", dict(norm=norm, batch_first=bf, module=module), exp[i].item(), got[i].item()))
    for norm, bf, excl, pad, module in settings["ped"]:
        kw = dict(norm=norm, batch_first=bf, exclude_last=excl, padding=pad, module=module)
        try:
            got = _call_ped(ref, hyp, eos, inc, norm, bf, cost, pad, excl, module).double()
        except Exception as ex:
            ctx.violation(dict(site="prefix_edit_distances", kind="exception"), "raised %r" % ex,
                          case_of(0, "prefix_edit_distances", kw, None, repr(ex)))
            continue
        P = H if excl else H + 1
        exp = pre[:, :P].double()
        ks = torch.arange(P).unsqueeze(0)
        valid = ks < (hyplen + (0 if excl else 1)).unsqueeze(1)
        judged = torch.ones_like(valid)
        if norm:
            judged = (reflen > 0).unsqueeze(1).expand_as(valid) | ~valid
            exp = exp / reflen.clamp_min(1).unsqueeze(1)
        exp = torch.where(valid, exp, torch.full_like(exp, float(pad)))
        ctx.case(n=N)
        if got.shape != exp.shape:
            ctx.violation(dict(site="prefix_edit_distances", kind="shape"),
                          "shape %s expected %s" % (tuple(got.shape), tuple(exp.shape)),
                          case_of(0, "prefix_edit_distances", kw, None, None))
            continue
        badm = ((got - exp).abs() > 1e-6 * exp.abs().clamp_min(1)) & judged
        badm = badm | (torch.isnan(got) & judged)
        if bool(badm.any()):
            i, kk = badm.nonzero()[0].tolist()
            kind = "value" if bool(valid[i, kk]) else "padding"
            ctx.violation(dict(site="prefix_edit_distances", kind=kind, batch=tag),
                          "prefix %d: got %r expected %r (%d cells differ)" % (kk, got[i, kk].item(), exp[i, kk].item(), int(badm.sum())),
                          case_of(i, "prefix_edit_distances", kw, exp[i].tolist(), got[i].tolist()))


FULL = dict(
    ed=[(n, b, m) for n in (False, True) for b in (False, True) for m in (False, True)],
    ped=[(n, b, e, p, m) for n in (False, True) for b in (False, True) for e in (False, True)
         for p, m in ((-1, False), (-7, True))],
)
LIGHT = dict(ed=[(False, False, False), (True, True, False)],
             ped=[(False, False, False, -1, False), (True, True, True, -3, False)])


def run(ctx):
    ctx.rule = ("every behaviour of EditDistance.tla (all padded ref/hyp rows over {eos,1,2}, eos unset / "
                "excluded / included, cost triples) replayed through edit_distance, prefix_edit_distances and "
                "their modules over norm x batch_first x exclude_last x padding, as one batch per shape and "
                "as seeded small batches; non-trivial = pair with 0 < distance and both effective strings "
                "non-empty, distinct by (mode, costs, ref row, hyp row)")
    ctx.assumptions += [
        "cost triples with one zero cost (and all three zero) are part of the exhaustive universe (EditDistance_zero.cfg)",
        "costs are dyadic multiples of the spec's integer costs (float32 arithmetic exact); equal costs also times 0.1 / "
        "0.3 / 0.7 (the common cost is factored out by the library: one rounding, compared at 1e-6 relative); one cost of "
        "2**23 next to costs 1 and 2 (results compared at 1e-6 relative)",
        "long strings (6..12 symbols; content padded with eos / garbage beyond 256 symbols) are chosen by the harness "
        "(seeded); their oracle is the specification's row machine, which TLC has checked against the minimum over all "
        "alignments on the exhaustive universe of short rows only",
        "tensors have R,H >= 1 (zero-sized dimensions make the library's length inference raise inside torch)",
        "norm=True with an empty reference is not judged for C01 (the statement fixes no value there)",
    ]
    recs = _ed.run_design(ctx, {"core", "zero"})
    groups = _ed.group_records(recs)
    ctx.exhaustive = True
    for key in sorted(groups):
        g = groups[key]
        for r in g:
            d = r["out"][r["hyplen"]]["cost"]
            ctx.case(key=(key[0], key[1], r["ref"], r["hyp"]), nontrivial=d > 0 and r["reflen"] > 0 and r["hyplen"] > 0,
                     sample=dict(ref=r["ref"], hyp=r["hyp"], mode=key[0], costs=key[1],
                                 per_prefix_cost=[o["cost"] for o in r["out"]]) if ctx.rng.random() < 0.0005 else None,
                     n=0)
        ti = ctx.rng.randrange(len(_ed.TOKEN_MAPS))
        for si, scale in enumerate(_ed.SCALES):
            tmap = _ed.TOKEN_MAPS[(ti + si) % len(_ed.TOKEN_MAPS)]
            check_group(ctx, key, g, tmap, scale, FULL if si == 0 else LIGHT, "all")
        # batch independence: the same pairs in small seeded batches must give the spec's values too
        nb = 6 if ctx.quick else 40
        for idxs in _ed.sub_batches(ctx.rng, len(g), nb):
            sub = [g[i] for i in idxs]
            check_group(ctx, key, sub, _ed.TOKEN_MAPS[ti], 1.0, LIGHT, "small")
        ctx.traces += len(g)
    # LONG strings (6..12 symbols, and short content padded beyond 256 symbols): harness-chosen cases, the row machine
    # of the specification (equal to the minimum over all alignments on the exhaustive universe) is the oracle; also a
    # cost of 2**23 (float32 drops odd integers from 2**24 on) and equal costs times non-dyadic factors
    long_recs = _ed.run_long(ctx) + _ed.run_long(ctx, costs=("<<1, %d, 1>>" % _ed.HUGE, "<<%d, 1, 2>>" % _ed.HUGE),
                                                 name="EditDistanceHuge", padded=False)
    lgroups = _ed.group_records(long_recs)
    for n, key in enumerate(sorted(lgroups)):
        g = lgroups[key]
        c = key[1]
        for r in g:
            d = r["out"][r["hyplen"]]["cost"]
            ctx.case(key=("long", key[0], c, tuple(r["ref"]), tuple(r["hyp"])), n=0,
                     nontrivial=d > 0 and r["reflen"] > 0 and r["hyplen"] > 0)
        scales = [1.0] + ([0.5] if max(c) < _ed.HUGE else []) + (_ed.NONDYADIC if c[0] == c[1] == c[2] else [])
        for si, scale in enumerate(scales):
            check_group(ctx, key, g, _ed.TOKEN_MAPS[(n + si) % len(_ed.TOKEN_MAPS)], scale, LIGHT, "long")
        ctx.traces += len(g)
    if not ctx.samples:
        r = recs[len(recs) // 2]
        ctx.samples.append(dict(ref=r["ref"], hyp=r["hyp"], mode=r["mode"], costs=r["c"],
                                per_prefix_cost=[o["cost"] for o in r["out"]]))


def replay(ctx, case):
    from pydrobert.torch import functional as F

    ref = torch.tensor([case["ref"]]).t()
    hyp = torch.tensor([case["hyp"]]).t()
    kw = dict(case["kwargs"])
    kw.pop("module", None)
    cost = case["cost"]
    if case["fn"] == "edit_distance":
        got = _ed.quiet(F.edit_distance, ref, hyp, case["eos"], case["include_eos"], kw["norm"], False,
                        cost[0], cost[1], cost[2], False)[0].item()
        ok = case["expected"] is not None and abs(got - case["expected"]) <= 1e-6 * max(1, abs(case["expected"]))
    else:
        got = _ed.quiet(F.prefix_edit_distances, ref, hyp, case["eos"], case["include_eos"], kw["norm"], False,
                        cost[0], cost[1], cost[2], kw["padding"], kw["exclude_last"], False)[:, 0].tolist()
        exp = case["expected"]
        ok = exp is not None and len(exp) == len(got) and all(abs(a - b) <= 1e-6 * max(1, abs(b)) for a, b in zip(got, exp))
    print("replay %s: got %r expected %r" % (case["fn"], got, case["expected"]))
    if not ok:
        ctx.violation(dict(site=case["fn"], kind="value"), "replayed case still differs", case)


if __name__ == "__main__":
    sys.exit(main(PROP, "model_checking", run, replay))
