"""X05 (extra, beyond the listed properties) -- the argument-checking combinators of pydrobert.torch.argcheck as a
decision table.

ArgCheck.tla: an abstract value universe (python int / bool / float incl. nan and +-inf, numpy integer / floating, str,
None, 0/1/2-dim tensors; payloads on the grid -1, -1/2, 0, 1/2, 1, 3/2, 2) and, per public function,
  - the DOCUMENTATION table Doc(fn, value, args) = accept + result | reject | free (documentation silent), written from the
    module docstring, the names and the annotated signatures (the functions have no docstrings);
  - the code-shaped composition (allow_none wrapper, cast, type stage, is_numlike, condition / left / right bound, predicate,
    return) as a small machine.
TLC checks ComposedIsTable, AllowNoneOnlyAddsNone, IntervalDuality, ClosedIsNotOpenAtEnds, Idempotent, Aliases,
AsIsCastThenCheck on the whole universe, and that the two compositions argcheck.py actually writes down for the typed
closed01 and the typed is_btw* checks do NOT equal the table (fault configurations).
spec -> code: every terminal state = one (function, value, arguments) case is replayed into the real function (without and
with the name arguments, numpy / torch dtype flavours, and through argparse for as_* on strings): raises exactly when the
table rejects, otherwise returns the table's value with the table's concrete type.  Cells the documentation leaves open
are not judged; what the code does there is tabulated (informational) and compared with the code-shaped machine."""
import json
import os
import sys

from .. import SPECS, par, tlc
from ..harness import MachineryError, main
from . import _argcheck as ac

PROP = "X05"


def design(ctx):
    for f in ("closed01", "btwnone"):
        res = tlc.run(ac.MOD, os.path.join(SPECS, "ArgCheck_fault_%s.cfg" % f), workers=4, timeout=900, coverage=False)
        if res.ok or "ComposedIsTable" not in (res.error or ""):
            raise MachineryError("ArgCheck with the composition %r as written violates no invariant (%s): ComposedIsTable is "
                                 "vacuous" % (f, res.error))
        ctx.add_tlc("ArgCheck/fault_%s (expected violation)" % f, res, count_states=False)
    res = tlc.run(ac.MOD, os.path.join(SPECS, "ArgCheck_%s.cfg" % ctx.tier), workers=16, timeout=2400)
    tlc.require_ok(res, "ArgCheck/" + ctx.tier)
    tlc.require_covered(res, ac.ACTIONS, "ArgCheck/" + ctx.tier)
    ctx.add_tlc("ArgCheck/" + ctx.tier, res)
    return res


def split_records(records):
    uni = [r for r in records if r["kind"] == "universe"]
    if len(uni) != 1:
        raise MachineryError("expected one universe record, got %d" % len(uni))
    vals = {v["id"]: v for v in uni[0]["vals"]}
    cases = [r for r in records if r["kind"] == "case"]
    aw = {ac.key_of(r): r for r in records if r["kind"] == "aswritten"}
    if not cases:
        raise MachineryError("no cases exported")
    if len({ac.key_of(r) for r in cases}) != len(cases):
        raise MachineryError("exported cases are not distinct")
    for r in cases:
        ids = [r["v"], r["o"], r["l"], r["r"]] + list(r["coll"])
        for i in ids:
            if i not in vals:
                raise MachineryError("case refers to unknown value %r" % i)
        r["_np"] = any(vals[i]["k"] in ("npint", "npfloat", "tensor") for i in ids)
    return uni[0], vals, cases, aw


def cause_of(rec, aw, got):
    """does the composition argcheck.py writes down (exported by the specification for the two known shapes) explain it?"""
    a = aw.get(ac.key_of(rec))
    if a is None or not ac.matches(a["m"], a["mres"], got):
        return "unexplained"
    if rec["cond"] == "closed01":
        return "typed_closed01_checks_only_nonneg"
    if rec["fam"] == "btw" and rec["an"] and rec["v"] == "none":
        return "typed_btw_type_check_before_allow_none"
    return "unexplained"


def case_blob(rec, vals, route, named, flavour):
    ids = [rec["v"], rec["o"], rec["l"], rec["r"]] + list(rec["coll"])
    return dict(rec={k: v for k, v in rec.items() if not k.startswith("_")}, vals={i: vals[i] for i in ids}, route=route,
                named=named, flavour=flavour)


def call_text(rec, vals, route, named, flavour):
    if route == "argparse":
        return "ArgumentParser().add_argument('x', type=%s).parse_args(['--', %r])" % (rec["fn"], vals[rec["v"]]["s"])
    f, args, kw, _ = ac.make_call(rec, vals, named, flavour)
    return "%s(%s)" % (rec["fn"], ", ".join([repr(a) for a in args] + ["%s=%r" % kv for kv in kw.items()]))


def judge_one(ctx, rec, vals, aw, runs, info):
    """compare every run of one case with the specification; returns the number of comparisons"""
    judged = rec["doc"] != "free"
    vcls = ac.value_class(vals[rec["v"]])
    n = 0
    for route, named, fl, got in runs:
        n += 1
        if got["exc"]:
            ctx.count("exception_%s_%s_%s" % ("judged" if judged else "informational", "as" if rec["fam"] == "as" else "is", got["exc"])
                      + ("_via_argparse" if route == "argparse" else ""))
        if judged:
            fails = ac.compare(rec["doc"], rec["res"], got)
            if route == "argparse" and not fails and got["out"] == "rej" and not got.get("usage"):
                fails = [("argparse_uncaught_exception", "%s escaped from parse_args: argparse only turns TypeError / ValueError / "
                          "ArgumentTypeError of a type= callable into a usage error" % got["exc"])]
            for kind, detail in fails:
                if route == "argparse" and not kind.startswith("argparse"):
                    kind = "argparse_" + kind
                sig = dict(site=rec["fn"], kind=kind, cause=cause_of(rec, aw, got))
                ctx.violation(sig, "%s: %s" % (call_text(rec, vals, route, named, fl), detail), case_blob(rec, vals, route, named, fl))
            if route == "direct" and got["out"] == "rej" and named:
                ctx.count("informational_message_mentions_name" if ac.NAMES["name"] in (got["msg"] or "") else
                          "informational_message_lacks_name")
            if route == "direct" and got["out"] == "acc" and rec["fam"] not in ("type", "as") and rec["ty"] == "":
                ctx.count("informational_returns_the_very_object" if got["ident"] else "informational_returns_an_equal_object")
        else:
            ctx.count("informational_cells_runs")
            model = aw.get(ac.key_of(rec), rec)  # the composition as argcheck.py writes it, where the specification has one
            agrees = ac.matches(model["m"], model["mres"], got)
            ctx.count("informational_machine_agrees" if agrees else "informational_machine_differs")
            beh = "accepts -> %s" % got["res"]["k"] if got["out"] == "acc" else "raises %s" % got["exc"]
            if route == "argparse":
                beh = "argparse: " + beh
            key = "%s <- %s" % (rec["fn"] if rec["fam"] not in ("cond", "cmp", "btw") else "is_<%s>%s" % (rec["fam"], rec["ty"]), vcls)
            info.setdefault(key, set()).add(beh)
            if not agrees:
                info.setdefault("code-shaped machine differs", set()).add("%s <- %s" % (rec["fn"], vcls))
    return n


def selftest(ctx, vals, cases, aw):
    """binding self-test: corrupted expectations must be noticed by the comparison that produces the verdicts"""
    def first(pred, what):
        for r in cases:
            if pred(r):
                return r
        raise MachineryError("self-test: no exported case with %s" % what)

    acc = first(lambda r: r["fn"] == "is_float" and r["doc"] == "acc" and r["v"] == "int:2" and not r["an"], "is_float(2)")
    rej = first(lambda r: r["fn"] == "is_nat" and r["doc"] == "rej" and r["v"] == "int:0" and not r["an"], "is_nat(0)")
    # outcomes as the table describes them (not the real function's: a changed library must not break the self-test)
    got_acc = dict(out="acc", res=ac.alpha(2.0), exc=None, msg=None, ident=False, base=False)
    got_rej = dict(out="rej", res=None, exc="ValueError", msg="argname (0) is not positive", ident=False, base=False)
    if ac.compare(acc["doc"], acc["res"], got_acc) or ac.compare(rej["doc"], rej["res"], got_rej):
        raise MachineryError("binding self-test: the uncorrupted expectations do not describe is_float(2) -> 2.0 / is_nat(0) raising")
    checks = [
        ("verdict accept -> reject", ac.compare("rej", acc["res"], got_acc), "accepts_documented_reject"),
        ("verdict reject -> accept", ac.compare("acc", vals["int:1"], got_rej), "rejects_documented_accept"),
        ("result value 2.0 -> 1.0", ac.compare("acc", dict(acc["res"], n=1), got_acc), "result_value"),
        ("result type float -> int", ac.compare("acc", dict(acc["res"], k="int"), got_acc), "result_type"),
        ("returned np.float64 instead of float", ac.compare("acc", acc["res"], dict(got_acc, res=ac.alpha(__import__("numpy").float64(2.0)))), "result_type"),
    ]
    for what, fails, kind in checks:
        if [k for k, _ in fails] != [kind]:
            raise MachineryError("binding self-test: corrupted expectation (%s) gave %r, expected %r" % (what, fails, kind))
    ctx.count("selftest_corrupted_expectations_noticed", len(checks))
    ctx.extra["selftest"] = "5 corrupted expectations / outcomes (verdict both ways, result value, result type twice) noticed; 2 compositions as " \
                            "written in argcheck.py rejected by ComposedIsTable"


def run(ctx):
    ctx.rule = ("every terminal state of ArgCheck.tla = one (function, value, arguments) cell of the decision table over the "
                "whole value universe of the tier; each cell is called without and with the name arguments, with up to 3 "
                "numpy / torch dtype flavours where such a value takes part, and through argparse for as_* on strings; "
                "non-trivial = a judged cell decided beyond the None / type gate (accepted with a non-None value, or rejected "
                "by a condition, bound or predicate stage); distinct by (function, value, arguments); evaluations = calls of "
                "the real function compared with the table")
    ctx.assumptions += [
        "this check is not tied to a listed property (extra coverage)",
        "documentation = module docstring of argcheck.py + public names + parameter names + annotated signatures (there are no "
        "function docstrings); the typed variants is_<cond><i|f|t> are read as 'type check, then condition' (docstring: 'Some, "
        "e.g. is_nat, combine type checks with conditions (is_int and is_pos)')",
        "cells the documentation leaves open are not judged: bool as a number, numeric-looking strings given to is_*, nan under "
        "an order condition, empty tensors, np.integer / integral floats given to is_int, numbers given to is_str / is_bool / "
        "is_tensor, tensors given to is_float / is_int / as_int / as_float, a fresh equal object given to is_exactly, "
        "cross-type membership (is_in), isinstance subtleties (is_a with bool / numpy scalars), non-tensors given to has_ndim "
        "/ is_nonempty",
        "the exception type is not documented: any Exception subclass counts as a rejection (types are tallied); through "
        "argparse a rejection must surface as a usage error (ArgumentError), the documented purpose of as_*",
        "as_* 'cast' = the python constructor (int truncates toward zero, float / int parse decimal strings, bool = truthiness, "
        "str = str())",
        "that the message mentions `name`, and that the very same object is returned, are not documented: tallied only",
        "is_file / is_dir / is_path / as_path* / as_file / as_dir (file system) are not modelled",
    ]
    res = design(ctx)
    uni, vals, cases, aw = split_records(res.records)
    import warnings

    with warnings.catch_warnings():
        warnings.simplefilter("ignore")
        import pydrobert.torch.argcheck  # noqa: F401  (once, before the workers fork)
    selftest(ctx, vals, cases, aw)
    # cells of the two compositions already known to contradict the documentation go last (fresh signatures are listed first)
    cases.sort(key=lambda r: r["ty"] != "" and (r["cond"] == "closed01" or r["fam"] == "btw"))
    for i, r in enumerate(cases):  # quick: one dtype flavour per cell, rotating; thorough: all of them
        r["_fl"] = [i % ac.N_FLAVOURS if r["_np"] else 0] if ctx.quick else ([0, 1, 2] if r["_np"] else [0])
    chunks = par.chunks(cases, 64)
    jobs = [dict(recs=c, vals=vals) for c in chunks]
    results = par.pmap(ac.replay_chunk, jobs, chunksize=1)
    info = {}
    judged = free = 0
    for chunk, outs in zip(chunks, results):
        for rec, runs in zip(chunk, outs):
            n = judge_one(ctx, rec, vals, aw, runs, info)
            is_judged = rec["doc"] != "free"
            judged += is_judged
            free += not is_judged
            nontrivial = is_judged and rec["st"] in ("ret", "cond", "left", "right", "pred") and not (rec["doc"] == "acc" and rec["res"]["k"] == "none")
            ctx.case(key=ac.key_of(rec), nontrivial=nontrivial, n=n,
                     sample=dict(call=call_text(rec, vals, "direct", True, 0), documentation=rec["doc"],
                                 result=ac.show(ac.spec_abs(rec["res"])) if rec["doc"] == "acc" else None)
                     if (nontrivial and ctx.rng.random() < 0.002) else None)
            ctx.traces += 1
    ctx.exhaustive = True
    ctx.extra["universe_values"] = len([v for v in vals.values()])
    ctx.extra["functions"] = uni["nfns"]
    ctx.extra["cells_total"] = len(cases)
    ctx.extra["cells_judged"] = judged
    ctx.extra["cells_informational"] = free
    ctx.extra["informational"] = {k: sorted(v) for k, v in sorted(info.items())}
    if not ctx.samples:
        r = cases[len(cases) // 2]
        ctx.samples.append(dict(call=call_text(r, vals, "direct", True, 0), documentation=r["doc"]))


def replay(ctx, case):
    """TLC recomputes the table for the stored value / arguments (a one-value universe); the stored call is made again"""
    rec, vals = case["rec"], case["vals"]
    nonev = lambda i: vals[i]["k"] == "none"  # noqa: E731
    work = ctx.subdir("argcheck_replay")
    mc = os.path.join(work, "ArgCheckReplay.tla")
    with open(mc, "w") as f:
        f.write("---- MODULE ArgCheckReplay ----\nEXTENDS ArgCheck\n")
        f.write("RVals == {%s}\n" % ac.tla_of(vals[rec["v"]]))
        f.write("ROthers == {%s}\n" % (ac.tla_of(vals[rec["o"]]) if not nonev(rec["o"]) else "IntV(1)"))
        f.write("RBounds == {<<%s, %s>>}\n" % ((ac.tla_of(vals[rec["l"]]), ac.tla_of(vals[rec["r"]])) if not nonev(rec["l"])
                                              else ("IntV(0)", "IntV(1)")))
        f.write("RColls == {<<%s>>}\n" % ", ".join(ac.tla_of(vals[i]) for i in rec["coll"]))
        f.write("RFaults == {\"none\", \"aswritten\"}\n====\n")
    cfg = tlc.write_cfg(os.path.join(work, "ArgCheckReplay.cfg"),
                        constants=dict(Vals=("<-", "RVals"), Others=("<-", "ROthers"), Bounds=("<-", "RBounds"),
                                       Colls=("<-", "RColls"), Faults=("<-", "RFaults"), JudgeFaulty="FALSE"),
                        invariants=["ShapeOK", "ComposedIsTable", "AllowNoneOnlyAddsNone", "IntervalDuality", "Idempotent", "Export"])
    res = tlc.run(mc, cfg, workers=1, timeout=600, lib=SPECS, coverage=False)
    tlc.require_ok(res, "ArgCheck/replay")
    vals2 = dict(vals)
    want = [r for r in res.records if r["kind"] == "case" and ac.key_of(r) == ac.key_of(rec)]
    aw = {ac.key_of(r): r for r in res.records if r["kind"] == "aswritten" and ac.key_of(r) == ac.key_of(rec)}
    if len(want) != 1:
        raise MachineryError("the stored case is not a cell of the recomputed table (%d matches)" % len(want))
    r = want[0]
    got = ac.run_argparse(r, vals2) if case["route"] == "argparse" else ac.run_call(r, vals2, case["named"], case["flavour"])
    print("%s  -- documentation: %s%s; real function: %s" % (
        call_text(r, vals2, case["route"], case["named"], case["flavour"]), r["doc"],
        " -> " + ac.show(ac.spec_abs(r["res"])) if r["doc"] == "acc" else "",
        "returns " + ac.show(got["res"]) if got["out"] == "acc" else "raises %s(%r)" % (got["exc"], got["msg"])))
    if r["doc"] == "free":
        print("  (cell not judged: the documentation is silent)")
        return
    judge_one(ctx, r, vals2, aw, [(case["route"], case["named"], case["flavour"], got)], {})
    for sig, detail, _ in ctx.violations:
        print("  ", json.dumps(sig, sort_keys=True), detail)


if __name__ == "__main__":
    sys.exit(main(PROP, "model_checking", run, replay))
