"""C07 -- sequence scores, random walks and greedy CTC decoding match their definitions.

spec -> code
  * SeqProbScore.tla (TLC: masked-sum machine == declarative product over counted positions, packed
    prefix values, padded/packed agreement): every behaviour replayed through
    functional.sequence_log_probs / SequenceLogProbabilities for every sequence dimension of 1-D..4-D
    batches, eos set/unset, float64/float32, and as PackedSequence with every length.
  * SeqProbCTC.tla (TLC: keep-mask machine == merge-repeats-then-drop-blanks): every behaviour replayed
    through functional.ctc_greedy_search / CTCGreedySearch over blank index forms, layouts, is_probs,
    in_lens given/omitted.
  * SeqProbWalk.tla, NB = 1 (TLC: support carries mass D^T for every table, walks end in the support):
    the exported support of every table replayed into
    SequentialLanguageModelDistribution.enumerate_support / log_prob.
code -> spec
  * RandomWalk and SequentialLanguageModelDistribution.sample/log_prob are run with TableLM under many
    seeds; every drawn batch becomes a trace (buffer rows, reported lengths, integer numerators of the
    walk's score, the wrapper's log_prob and sequence_log_probs applied to the model's outputs) that
    SeqProbTrace.tla must accept through the original StepWith action.
"""
import math
import sys

import torch

from .. import tlc
from ..harness import MachineryError, main
from . import _sp

PROP = "C07"
NOEOS = _sp.NOEOS


# =====================================================================================
# (a) sequence_log_probs
# =====================================================================================
def _oov_maps(rng, V):
    lo = rng.choice((-1, -3))
    hi = rng.choice((V, V + 2))
    return {-1: lo, V: hi}


def _score_tensors(g, V, rng, dtype):
    """g: records with equal length n.  Returns W (N,n,V) ints, hyp (N,n) impl ids, logits (N,n,V)"""
    om = _oov_maps(rng, V)
    W = torch.tensor([r["w"] for r in g], dtype=torch.long)
    hyp = torch.tensor([[om.get(x, x) for x in r["hyp"]] for r in g], dtype=torch.long)
    shift = _sp.dyadic_shifts(rng, (len(g), W.size(1)))
    logits = _sp.log_weights(W, dtype, shift)
    return W, hyp, logits


def _score_layouts(n, N):
    """yield (name, dims, builder) where builder maps (logits (N,n,V), hyp (N,n)) to the layout and
    `unbatch` maps the result back to (N,)"""
    A = 4

    def pad(x, m):  # repeat leading cases so that N' is a multiple of m
        Np = -(-x.size(0) // m) * m
        if Np == x.size(0):
            return x
        return torch.cat([x, x[: Np - x.size(0)]], 0)

    def l2_0(lg, hy):
        return lg.transpose(0, 1).contiguous(), hy.t().contiguous(), lambda o: o

    def l2_1(lg, hy):
        return lg, hy, lambda o: o

    def l3(pos):
        def f(lg, hy):
            lgp, hyp_ = pad(lg, A), pad(hy, A)
            B = lgp.size(0) // A
            lg4 = lgp.view(A, B, n, -1)
            hy3 = hyp_.view(A, B, n)
            if pos == 0:
                return lg4.permute(2, 0, 1, 3).contiguous(), hy3.permute(2, 0, 1).contiguous(), lambda o: o.reshape(-1)[:N]
            if pos == 1:
                return lg4.permute(0, 2, 1, 3).contiguous(), hy3.permute(0, 2, 1).contiguous(), lambda o: o.reshape(-1)[:N]
            return lg4, hy3, lambda o: o.reshape(-1)[:N]
        return f

    def l4(pos):
        def f(lg, hy):
            lgp, hyp_ = pad(lg, 12), pad(hy, 12)
            C = lgp.size(0) // 12
            lg5 = lgp.view(2, 3, 2 * C, n, -1)
            hy4 = hyp_.view(2, 3, 2 * C, n)
            perm = [0, 1, 2]
            perm.insert(pos, 3)  # time axis moved to `pos` of a 4-D hyp
            return (lg5.permute(*perm, 4).contiguous(), hy4.permute(*perm).contiguous(),
                    lambda o: o.reshape(-1)[:N])
        return f

    yield "2d_time_first", (0, -2), l2_0
    yield "2d_batch_first", (1, -1), l2_1
    yield "3d_dim0", (0, -3), l3(0)
    yield "3d_dim1", (1, -2), l3(1)
    yield "3d_dim2", (2, -1), l3(2)
    yield "4d_dim1", (1, -3), l4(1)
    yield "4d_dim2", (2, -2), l4(2)


def _call_slp(logits, hyp, dim, eos, module):
    from pydrobert.torch import functional as F, modules as M

    if module:
        return _sp.quiet(M.SequenceLogProbabilities(dim, eos), logits, hyp)
    return _sp.quiet(F.sequence_log_probs, logits, hyp, dim, eos)


def _judge_nums(lp, num, cnt, D, tol):
    """vectorised: exp(lp) * D^cnt == num ?  returns bool tensor of failures"""
    x = lp.double().exp() * (float(D) ** cnt.double())
    bad = (x - num.double()).abs() > tol * num.double().clamp_min(1.0)
    # probability zero (a chosen token of weight 0) is log-probability MINUS INFINITY, not a large negative number, and a
    # positive probability has a finite logarithm
    zero = num == 0
    bad = bad | (zero & (lp.double() != -float("inf"))) | (~zero & ~torch.isfinite(lp.double()))
    return bad | torch.isnan(x), x


def check_score_group(ctx, key, g, V, D, quick):
    n, eos = key
    N = len(g)
    rng = ctx.rng
    ieos = None if eos == NOEOS else eos
    num = torch.tensor([r["num"] for r in g])
    cnt = torch.tensor([r["cnt"] for r in g])

    def case_of(i, what, extra, got):
        r = g[i]
        return dict(kind="score", what=what, w=r["w"], hyp=r["hyp"], eos=eos, V=V, D=D, expected_num=r["num"],
                    expected_cnt=r["cnt"], pre=r["pre"], got=got, **extra)

    for dtype, tol in ((torch.double, 1e-6), (torch.float, 1e-4)):
        W, hyp, logits = _score_tensors(g, V, rng, dtype)
        for name, dims, build in _score_layouts(n, N):
            lg, hy, unb = build(logits, hyp)
            for di, dim in enumerate(dims):
                module = bool((di + (dtype == torch.float)) % 2)
                extra = dict(layout=name, dim=dim, dtype=str(dtype), module=module)
                try:
                    out = _call_slp(lg, hy, dim, ieos, module)
                except Exception as ex:
                    ctx.violation(dict(site="sequence_log_probs", kind="exception", layout=name),
                                  "raised %r (dim=%d eos=%r)" % (ex, dim, ieos), case_of(0, "padded", extra, repr(ex)))
                    continue
                ctx.case(n=N)
                exp_shape = tuple(s for j, s in enumerate(hy.shape) if j != dim % hy.dim())
                if tuple(out.shape) != exp_shape:
                    ctx.violation(dict(site="sequence_log_probs", kind="shape", layout=name),
                                  "shape %s expected %s" % (tuple(out.shape), exp_shape), case_of(0, "padded", extra, None))
                    continue
                bad, x = _judge_nums(unb(out), num, cnt, D, tol)
                if bool(bad.any()):
                    i = int(bad.nonzero()[0])
                    r = g[i]
                    # classify
                    if eos != NOEOS and eos in r["hyp"] and r["efflen"] < len(r["hyp"]):
                        kind = "value_eos"
                    elif any(t < 0 or t >= V for t in r["hyp"]):
                        kind = "value_oov"
                    else:
                        kind = "value"
                    ctx.violation(dict(site="sequence_log_probs", kind=kind, layout=name),
                                  "numerator %.6f over D^%d, spec %d (%d of %d cases differ; dim=%d eos=%r)" % (
                                      float(x[i]), r["cnt"], r["num"], int(bad.sum()), N, dim, ieos),
                                  case_of(i, "padded", extra, float(x[i])))
            if quick and dtype == torch.float:
                break  # float32: two layouts suffice in the quick tier
        # 1-D input: a handful of single sequences
        for i in [rng.randrange(N) for _ in range(4 if quick else 12)]:
            for dim in (0, -1):
                extra = dict(layout="1d", dim=dim, dtype=str(dtype), module=False)
                try:
                    out = _call_slp(logits[i], hyp[i], dim, ieos, False)
                except Exception as ex:
                    ctx.violation(dict(site="sequence_log_probs", kind="exception", layout="1d"),
                                  "raised %r" % ex, case_of(i, "padded", extra, repr(ex)))
                    continue
                ctx.case(n=1)
                bad, x = _judge_nums(out.reshape(1), num[i:i + 1], cnt[i:i + 1], D, tol)
                if out.dim() != 0 or bool(bad.any()):
                    ctx.violation(dict(site="sequence_log_probs", kind="value", layout="1d"),
                                  "numerator %r, spec %d" % (x.tolist(), g[i]["num"]), case_of(i, "padded", extra, x.tolist()))

        # ---- packed sequences: every length for every case; eos (if passed) is documented to be ignored
        for s in range(n):
            lens = torch.tensor([((i + s) % n) + 1 for i in range(N)])
            if eos != NOEOS and s == 0:
                lens = torch.tensor([r["efflen"] for r in g])  # then packed == padded-with-eos (TLC: PaddedPackedAgree)
            pnum = torch.tensor([r["pre"][int(L)][0] for r, L in zip(g, lens)])
            pcnt = torch.tensor([r["pre"][int(L)][1] for r, L in zip(g, lens)])
            for bf in (False, True):
                for sort in (False, True, "ties"):
                    # "ties": a PackedSequence whose sorted_indices order equal-length sequences differently from
                    # torch.sort (built the way pack_padded_sequence builds it, from an explicit permutation)
                    if quick and (s + bf + (sort is True)) % 2 and dtype == torch.float:
                        continue
                    idx = torch.argsort(lens, descending=True, stable=True) if sort is True else torch.arange(N)
                    lg = logits[idx]
                    hy = hyp[idx]
                    ln = lens[idx]
                    if not bf:
                        lg, hy = lg.transpose(0, 1).contiguous(), hy.t().contiguous()
                    dim = 1 if bf else 0
                    extra = dict(layout="packed", dim=dim, dtype=str(dtype), batch_first=bf, enforce_sorted=sort is True, tie_order=str(sort),
                                 lens_rule="efflen" if (eos != NOEOS and s == 0) else "shift%d" % s)
                    try:
                        if sort == "ties":
                            perm = torch.tensor(sorted(range(N), key=lambda i: (-int(ln[i]), -i)))
                            inv = torch.empty_like(perm)
                            inv[perm] = torch.arange(N)
                            ps0 = torch.nn.utils.rnn.pack_padded_sequence(lg[perm] if bf else lg[:, perm], ln[perm], batch_first=bf,
                                                                          enforce_sorted=True)
                            ps = torch.nn.utils.rnn.PackedSequence(ps0.data, ps0.batch_sizes, perm, inv)
                        else:
                            ps = torch.nn.utils.rnn.pack_padded_sequence(lg, ln, batch_first=bf, enforce_sorted=sort)
                        out = _call_slp(ps, hy, dim, ieos if s % 2 == 0 else None, bool(s % 2))
                    except Exception as ex:
                        ctx.violation(dict(site="sequence_log_probs", kind="exception", layout="packed"),
                                      "raised %r" % ex, case_of(int(idx[0]), "packed", extra, repr(ex)))
                        continue
                    ctx.case(n=N)
                    if tuple(out.shape) != (N,):
                        ctx.violation(dict(site="sequence_log_probs", kind="shape", layout="packed"),
                                      "shape %s" % (tuple(out.shape),), case_of(int(idx[0]), "packed", extra, None))
                        continue
                    bad, x = _judge_nums(out, pnum[idx], pcnt[idx], D, tol)
                    if bool(bad.any()):
                        j = int(bad.nonzero()[0])
                        i = int(idx[j])
                        extra["length"] = int(lens[i])
                        ctx.violation(dict(site="sequence_log_probs", kind="value_packed", layout="packed"),
                                      "packed length %d: numerator %.6f, spec %d over D^%d (%d of %d differ)" % (
                                          int(lens[i]), float(x[j]), int(pnum[i]), int(pcnt[i]), int(bad.sum()), N),
                                      case_of(i, "packed", extra, float(x[j])))
    ctx.traces += N


def check_packed_negative_dim(ctx, g, V, D):
    """the packed path validates dim in [-2, 1]; negative values must then behave like their
    non-negative equivalents (as they do for padded input)"""
    rng = ctx.rng
    n = len(g[0]["hyp"])
    W, hyp, logits = _score_tensors(g, V, rng, torch.double)
    lens = torch.tensor([len(r["hyp"]) for r in g])
    pnum = torch.tensor([r["pre"][n][0] for r in g])
    pcnt = torch.tensor([r["pre"][n][1] for r in g])
    for bf, dim in ((False, -2), (True, -1)):
        lg, hy = (logits, hyp) if bf else (logits.transpose(0, 1).contiguous(), hyp.t().contiguous())
        ps = torch.nn.utils.rnn.pack_padded_sequence(lg, lens, batch_first=bf)
        case = dict(kind="score", what="packed", w=g[0]["w"], hyp=g[0]["hyp"], eos=NOEOS, V=V, D=D,
                    expected_num=g[0]["pre"][n][0], expected_cnt=g[0]["pre"][n][1], pre=g[0]["pre"],
                    layout="packed", dim=dim, batch_first=bf, enforce_sorted=True, length=n, dtype="torch.float64",
                    module=False)
        ctx.case(n=len(g))
        try:
            out = _call_slp(ps, hy, dim, None, False)
        except Exception as ex:
            ctx.violation(dict(site="sequence_log_probs", kind="exception_packed_negative_dim"),
                          "PackedSequence logits with dim=%d (accepted range [-2, 1], equivalent to dim=%d) raised %r" % (
                              dim, dim + 2, ex), case)
            continue
        bad, x = _judge_nums(out, pnum, pcnt, D, 1e-6)
        if bool(bad.any()):
            ctx.violation(dict(site="sequence_log_probs", kind="value_packed", layout="packed_negative_dim"),
                          "dim=%d differs from the spec" % dim, case)


# =====================================================================================
# (c) ctc_greedy_search
# =====================================================================================
def check_ctc_group(ctx, key, g, V, D, quick):
    from pydrobert.torch import functional as F, modules as M

    n, blank = key
    rng = ctx.rng
    N = len(g)
    W = torch.tensor([r["w"] for r in g], dtype=torch.long)  # (N, n, V)
    L = torch.tensor([r["L"] for r in g])
    num = torch.tensor([r["num"] for r in g])
    outs = [r["out"] for r in g]
    full = [i for i in range(N) if g[i]["L"] == n]

    def case_of(i, extra, got):
        r = g[i]
        return dict(kind="ctc", w=r["w"], blank=blank, L=r["L"], V=V, D=D, expected_out=r["out"],
                    expected_num=r["num"], got=got, **extra)

    combos = []
    for is_probs in (False, True):
        for bf in (False, True):
            for neg in (False, True):
                for dtype in (torch.double, torch.float):
                    for with_lens in (True, False):
                        combos.append((is_probs, bf, neg, dtype, with_lens))
    if quick:
        combos = [c for j, c in enumerate(combos) if j % 3 == 0 or (c[3] == torch.double and c[4])]
    for ci, (is_probs, bf, neg, dtype, with_lens) in enumerate(combos):
        sel = list(range(N)) if with_lens else full
        if not sel:
            continue
        idx = torch.tensor(sel)
        Ws = W[idx]
        if is_probs:
            x = (Ws.double() / D).to(dtype)
        else:
            x = _sp.log_weights(Ws, dtype, _sp.dyadic_shifts(rng, (len(sel), n)))
        filler = None
        if with_lens and ci % 2 == 0:
            # whatever lies beyond an element's valid length must not matter -- non-finite values included
            filler = rng.choice((math.nan, math.inf, 0.0) if is_probs else (-math.inf, math.nan, math.inf))
            x = x.clone()
            for j, i in enumerate(sel):
                if g[i]["L"] < n:
                    x[j, g[i]["L"]:] = filler
        if not bf:
            x = x.transpose(0, 1).contiguous()
        b = blank - V if neg else blank
        module = bool(ci % 2)
        extra = dict(is_probs=is_probs, batch_first=bf, blank_idx=b, dtype=str(dtype), in_lens=with_lens, module=module,
                     invalid_frames_filled_with=repr(filler))
        in_lens = L[idx] if with_lens else None
        try:
            if module:
                mx, paths, olens = _sp.quiet(M.CTCGreedySearch(b, bf, is_probs), x, in_lens)
            else:
                mx, paths, olens = _sp.quiet(F.ctc_greedy_search, x, in_lens, b, bf, is_probs)
        except Exception as ex:
            ctx.violation(dict(site="ctc_greedy_search", kind="exception"), "raised %r" % ex,
                          case_of(sel[0], extra, repr(ex)))
            continue
        ctx.case(n=len(sel))
        if not bf:
            paths = paths.t()
        if tuple(paths.shape) != (len(sel), n) or tuple(mx.shape) != (len(sel),) or tuple(olens.shape) != (len(sel),):
            ctx.violation(dict(site="ctc_greedy_search", kind="shape"),
                          "shapes %s %s %s" % (tuple(mx.shape), tuple(paths.shape), tuple(olens.shape)),
                          case_of(sel[0], extra, None))
            continue
        tol = 1e-6 if dtype == torch.double else 1e-4
        Ls = L[idx].double()
        val = (mx.double() if is_probs else mx.double().exp()) * (float(D) ** Ls)
        badv = ((val - num[idx].double()).abs() > tol * num[idx].double()) | torch.isnan(val)
        for j, i in enumerate(sel):
            ol = int(olens[j])
            got_path = paths[j, :max(ol, 0)].tolist()
            if ol != len(outs[i]):
                ctx.violation(dict(site="ctc_greedy_search", kind="out_lens"),
                              "out_len %d, spec %d (path %r vs %r)" % (ol, len(outs[i]), got_path, outs[i]),
                              case_of(i, extra, dict(out_len=ol, path=got_path)))
                break
            if got_path != outs[i]:
                ctx.violation(dict(site="ctc_greedy_search", kind="paths"),
                              "path %r, spec %r" % (got_path, outs[i]), case_of(i, extra, dict(out_len=ol, path=got_path)))
                break
            if bool(badv[j]):
                ctx.violation(dict(site="ctc_greedy_search", kind="score"),
                              "score numerator %.6f over D^%d, spec %d" % (float(val[j]), g[i]["L"], g[i]["num"]),
                              case_of(i, extra, float(val[j])))
                break
    # long utterances: every behaviour repeated R times back to back.  The best path is the collapse of the repeated
    # frame-wise argmax sequence and the log score is R times the single score -- far below what a product of
    # probabilities can represent, as for any real utterance of a few hundred frames
    R = 120
    for dtype in (torch.float, torch.double):
        for bf in (False, True):
            x = torch.full((N, n * R, V), math.nan, dtype=dtype)
            exp_paths, exp_scores = [], []
            for i in range(N):
                Li = g[i]["L"]
                if Li:
                    one = _sp.log_weights(W[i:i + 1, :Li], dtype, _sp.dyadic_shifts(rng, (1, Li)))[0]
                    x[i, :Li * R] = one.repeat(R, 1)
                am = W[i, :Li].argmax(1).tolist() * R
                path, last = [], None
                for a in am:
                    if a != blank and a != last:
                        path.append(a)
                    last = a
                exp_paths.append(path)
                exp_scores.append(R * (math.log(g[i]["num"]) - Li * math.log(D)) if Li else 0.0)
            xin = x if bf else x.transpose(0, 1).contiguous()
            extra = dict(is_probs=False, batch_first=bf, blank_idx=blank, dtype=str(dtype), in_lens=True, module=False,
                         repeated=R)
            try:
                mx, paths, olens = _sp.quiet(F.ctc_greedy_search, xin, L * R, blank, bf, False)
            except Exception as ex:
                ctx.violation(dict(site="ctc_greedy_search", kind="exception"), "raised %r on a long utterance" % ex,
                              case_of(0, extra, repr(ex)))
                continue
            ctx.case(n=N)
            if not bf:
                paths = paths.t()
            for i in range(N):
                ol = int(olens[i])
                got_path = paths[i, :max(ol, 0)].tolist()
                if got_path != exp_paths[i]:
                    ctx.violation(dict(site="ctc_greedy_search", kind="paths"),
                                  "long utterance (%d frames): path of length %d, expected length %d" % (g[i]["L"] * R, ol, len(exp_paths[i])),
                                  case_of(i, extra, dict(out_len=ol)))
                    break
                got = float(mx[i])
                if not abs(got - exp_scores[i]) <= 1e-4 * max(1.0, abs(exp_scores[i])):
                    ctx.violation(dict(site="ctc_greedy_search", kind="score"),
                                  "long utterance (%d frames): log score %r, expected %r (= %d x the single score)"
                                  % (g[i]["L"] * R, got, exp_scores[i], R), case_of(i, extra, got))
                    break
    ctx.traces += N


# =====================================================================================
# (b1) support / log_prob of the distribution wrapper (deterministic, spec -> code)
# =====================================================================================
def check_support_batch(ctx, recs, eos, V, T, D, batched):
    """recs: support records (same eos).  batched: one distribution with batch_size = len(recs) and the
    table chosen through initial_state['elem']; else one unbatched distribution per record."""
    from pydrobert.torch.distributions import SequentialLanguageModelDistribution as SLMD
    from pydrobert.torch.modules import RandomWalk

    ieos = None if eos == NOEOS else eos
    groups = [recs] if batched else [[r] for r in recs]
    for grp in groups:
        Nb = len(grp)
        if batched:
            lm = _sp.make_lm([r["tab"] for r in grp], V)
        else:
            # unbatched: the model conditions on the initial state too -- element 1 selects the record's table,
            # element 0 (what a dropped initial state falls back to) is a decoy table
            decoy = recs[(recs.index(grp[0]) + 1) % len(recs)]["tab"]
            lm = _sp.make_lm([decoy, grp[0]["tab"]], V)
        walk = RandomWalk(lm, ieos)
        site = "SequentialLanguageModelDistribution"

        def case_of(i, got, what):
            return dict(kind="support", tab=grp[i]["tab"], eos=eos, V=V, T=T, D=D, support=grp[i]["support"],
                        batched=batched, what=what, got=got)

        try:
            if batched:
                dist = SLMD(walk, Nb, {"elem": torch.arange(Nb)}, T, validate_args=True)
            else:
                dist = SLMD(walk, None, {"elem": torch.ones(1, dtype=torch.long)}, T, validate_args=True)
            sup = _sp.quiet(dist.enumerate_support)
            lp = _sp.quiet(dist.log_prob, sup)
        except Exception as ex:
            ctx.violation(dict(site=site + ".enumerate_support/log_prob", kind="exception"), "raised %r" % ex,
                          case_of(0, repr(ex), "exception"))
            continue
        ctx.case(n=Nb)
        exp_shape_tail = ((Nb,) if batched else ()) + (T,)
        if tuple(sup.shape[1:]) != exp_shape_tail or tuple(lp.shape) != tuple(sup.shape[:-1]):
            ctx.violation(dict(site=site + ".enumerate_support", kind="shape"),
                          "support %s log_prob %s" % (tuple(sup.shape), tuple(lp.shape)), case_of(0, None, "shape"))
            continue
        for b in range(Nb):
            rows = (sup[:, b] if batched else sup).tolist()
            paths = [tuple(_sp.trunc(r_, ieos)) for r_ in rows]
            spec_sup = {tuple(e["p"]): e["num"] for e in grp[b]["support"]}
            if len(set(paths)) != len(paths) or set(paths) != set(spec_sup):
                ctx.violation(dict(site=site + ".enumerate_support", kind="support_set"),
                              "enumerated support (cut after first eos) %r, spec %r" % (sorted(set(paths)), sorted(spec_sup)),
                              case_of(b, rows, "support_set"))
                break
            lpb = (lp[:, b] if batched else lp).tolist()
            total = 0
            ok = True
            for p, l in zip(paths, lpb):
                got = _sp.to_num(l, D ** len(p), 1e-6)
                if got != spec_sup[p]:
                    ctx.violation(dict(site=site + ".log_prob", kind="support_value"),
                                  "log_prob of %r gives numerator %r over D^%d, spec %d" % (list(p), got, len(p), spec_sup[p]),
                                  case_of(b, dict(path=list(p), log_prob=l), "support_value"))
                    ok = False
                    break
                total += got * D ** (T - len(p))
            if not ok:
                break
            if total != D ** T:  # cannot happen when every member matched (TLC: SupportSumsToOne); kept as a guard
                ctx.violation(dict(site=site + ".log_prob", kind="support_sum"), "support mass %d / %d" % (total, D ** T),
                              case_of(b, total, "support_sum"))
                break
    ctx.traces += len(recs)


# =====================================================================================
# (b2) random walks and samples -> traces (code -> spec)
# =====================================================================================
class TraceBook:
    def __init__(self, V, T, D):
        self.V, self.T, self.D = V, T, D
        self.tables = []
        self.traces = []
        self.meta = {}

    def add_tables(self, tabs):
        base = len(self.tables)
        self.tables.extend(tabs)
        return [base + j + 1 for j in range(len(tabs))]

    def add(self, origin, eos, tab_ids, y_rows, lens, nums, info):
        tid = len(self.traces) + 1
        self.traces.append(dict(tid=tid, eos=NOEOS if eos is None else eos, tabs=tab_ids,
                                y=y_rows, lens=lens, nums=nums))
        self.meta[tid] = dict(origin=origin, info=info)
        return tid


def _def_nums(lm, init, y, ieos, D, lens):
    """'that definition applied to the model's outputs': sequence_log_probs(lm(hist), tokens)"""
    from pydrobert.torch import functional as F

    lp_all = _sp.quiet(lm, y[:-1], dict(init))
    lp = _sp.quiet(F.sequence_log_probs, lp_all, y, 0, ieos)
    return [_sp.to_num(lp[n], D ** lens[n]) for n in range(y.size(1))]


def record_walks(ctx, book, cfg, seed_base, n_rounds, exc_seen):
    """Run the real RandomWalk / distribution wrapper and append traces to `book`."""
    from pydrobert.torch.distributions import SequentialLanguageModelDistribution as SLMD
    from pydrobert.torch.modules import RandomWalk

    V, T, D = book.V, book.T, book.D
    rng = ctx.rng
    for rnd in range(n_rounds):
        eos_arg = rng.choice(cfg["eos"])  # None or an id, possibly negative
        ieos = None if eos_arg is None else eos_arg % V
        unlimited = cfg.get("unlimited", False) and ieos is not None and rng.random() < 0.5
        max_iters = None if unlimited else T
        N = rng.choice(cfg["batch"])
        tabs = [_sp.random_table(rng, V, T, D, force_eos=ieos if unlimited else None) for _ in range(N)]
        ids = book.add_tables(tabs)
        dtype = torch.double if rng.random() < 0.7 else torch.float
        # half of the models keep their recurrent state by writing into the dictionary they were handed
        lm = _sp.make_lm(tabs, V, dtype=dtype, inplace=rng.random() < 0.5)
        walk = RandomWalk(lm, eos_arg)
        init = {"elem": torch.arange(N)}
        torch.manual_seed(ctx.seed * 1000003 + seed_base + rnd)
        info = dict(V=V, T=T, D=D, eos=eos_arg, max_iters=max_iters, N=N, dtype=str(dtype),
                    torch_seed=ctx.seed * 1000003 + seed_base + rnd)

        # ---------- (i) the walk itself, batched
        try:
            y, lens, lp = _sp.quiet(walk, dict(init), N, max_iters)
        except Exception as ex:
            _exc(ctx, exc_seen, "RandomWalk", "exception", "batched walk raised %r" % ex, info)
            continue
        S = y.size(0)
        lens_l = [int(x) for x in lens]
        ok_shape = y.dim() == 2 and y.size(1) == N and tuple(lens.shape) == (N,) and tuple(lp.shape) == (N,) \
            and all(0 <= L <= S for L in lens_l)
        if not ok_shape:
            _exc(ctx, exc_seen, "RandomWalk", "shape", "shapes y=%s lens=%s log_probs=%s" % (
                tuple(y.shape), lens_l, tuple(lp.shape)), info)
            continue
        # entries beyond a path's reported length are documented as invalid: normalise them to eos
        yn = y.clone()
        raw_pad_ok = True
        for n in range(N):
            if lens_l[n] < S:
                if ieos is None or bool((y[lens_l[n]:, n] != ieos).any()):
                    raw_pad_ok = False
                yn[lens_l[n]:, n] = ieos if ieos is not None else 0
        if not raw_pad_ok:
            ctx.count("informational_walk_padding_not_eos")
        nums = [[_sp.to_num(lp[n], D ** lens_l[n])] for n in range(N)]
        try:
            dn = _def_nums(lm, init, yn, ieos, D, lens_l)
            for n in range(N):
                nums[n].append(dn[n])
        except Exception as ex:
            _exc(ctx, exc_seen, "sequence_log_probs", "exception", "definition on model outputs raised %r" % ex, info)
            continue
        names = ["walk", "definition"]
        # the wrapper's log_prob of the drawn paths (sample_shape [1] x batch_shape [N])
        va = rng.random() < 0.5
        winfo = dict(info, batch_shape=N, sample_shape=[1], validate_args=va)
        dl = _wrapper_lp(ctx, exc_seen, lambda v: SLMD(walk, N, dict(init), max_iters, validate_args=v),
                         yn.t().unsqueeze(0), (1, N), 1, max_iters, va, winfo)
        if dl is not None:
            for n in range(N):
                nums[n].append(_sp.to_num(dl[0, n], D ** lens_l[n]))
            names.append("wrapper_log_prob")
        book.add("RandomWalk", ieos, ids, yn.tolist(), lens_l, nums, dict(info, names=names, raw_y=y.tolist()))

        # ---------- (ii) unbatched walk (batch_size=None): returns without a batch dimension
        try:
            y1, l1, p1 = _sp.quiet(walk, {"elem": torch.zeros(1, dtype=torch.long)}, None, max_iters)
            if y1.dim() != 1 or l1.dim() != 0 or p1.dim() != 0:
                _exc(ctx, exc_seen, "RandomWalk", "shape", "unbatched walk returned shapes %s %s %s" % (
                    tuple(y1.shape), tuple(l1.shape), tuple(p1.shape)), info)
            else:
                L1 = int(l1)
                y1n = y1.clone()
                if L1 < y1.size(0):
                    y1n[L1:] = ieos if ieos is not None else 0
                nn = [[_sp.to_num(p1, D ** L1)] + _def_nums(lm, {"elem": torch.zeros(1, dtype=torch.long)},
                                                           y1n.unsqueeze(1), ieos, D, [L1])]
                book.add("RandomWalk", ieos, ids[:1], y1n.unsqueeze(1).tolist(), [L1], nn,
                         dict(info, names=["walk", "definition"], unbatched=True))
        except Exception as ex:
            _exc(ctx, exc_seen, "RandomWalk", "exception", "unbatched walk raised %r" % ex, info)

        # ---------- (iii) the distribution wrapper: sample / log_prob for batch shapes [] and [N]
        for bshape in (None, N):
            for sshape in ([], [rng.choice((2, 3))], [2, 2]):
                for cache in (False, True):
                    if cache and rng.random() < 0.5:
                        continue
                    va = rng.random() < 0.5
                    sinfo = dict(info, batch_shape=bshape, sample_shape=sshape, cache_samples=cache, validate_args=va)
                    ub = N - 1  # the unbatched wrapper conditions on the LAST table through its initial state
                    st = dict(init) if bshape else {"elem": torch.full((1,), ub, dtype=torch.long)}
                    ids_b = ids if bshape else ids[ub:ub + 1]
                    Nb = bshape or 1

                    def make(v, c=False):
                        return SLMD(walk, bshape, st, max_iters, cache_samples=c, validate_args=v)

                    try:
                        dist = make(va, cache)
                        smp = _sp.quiet(dist.sample, sshape)
                    except Exception as ex:
                        _exc(ctx, exc_seen, "SequentialLanguageModelDistribution.sample", "exception",
                             "sample(%r) with batch shape %r raised %r" % (sshape, bshape, ex), sinfo)
                        continue
                    lead = tuple(sshape) + ((bshape,) if bshape else ())
                    if tuple(smp.shape[:-1]) != lead or smp.size(-1) < 1 or smp.size(-1) > T:
                        _exc(ctx, exc_seen, "SequentialLanguageModelDistribution.sample", "shape",
                             "sample shape %s for sample_shape %r batch_shape %r" % (tuple(smp.shape), sshape, bshape), sinfo)
                        continue
                    S2 = smp.size(-1)
                    M = 1
                    for d in sshape:
                        M *= d
                    lps = []
                    names2 = []
                    lp1 = _wrapper_lp(ctx, exc_seen, make, smp, lead, len(sshape), max_iters, va, sinfo, dist=dist)
                    if lp1 is not None:  # the cached walk scores when cache_samples
                        lps.append(lp1.reshape(M, Nb) if bshape else lp1.reshape(1, M))
                        names2.append("wrapper_log_prob_cached" if cache else "wrapper_log_prob")
                    if cache:
                        lp2 = _wrapper_lp(ctx, exc_seen, make, smp, lead, len(sshape), max_iters, va, sinfo)
                        if lp2 is not None:
                            lps.append(lp2.reshape(M, Nb) if bshape else lp2.reshape(1, M))
                            names2.append("wrapper_log_prob")
                    # one trace per underlying walk
                    if bshape:
                        walks = smp.reshape(M, Nb, S2)  # m-th walk: (N, S)
                    else:
                        walks = smp.reshape(1, M, S2)  # a single walk with batch M, all on the table selected by the initial state
                    for m in range(walks.size(0)):
                        ym = walks[m].t().contiguous()  # (S, n_elems)
                        ne = ym.size(1)
                        plens = [len(_sp.trunc(ym[:, n].tolist(), ieos)) for n in range(ne)]
                        nums2 = [[] for _ in range(ne)]
                        for lpm in lps:
                            for n in range(ne):
                                nums2[n].append(_sp.to_num(lpm[m, n], D ** plens[n]))
                        el_ids = ids_b if bshape else ids_b * ne
                        el_init = {"elem": torch.arange(ne)} if bshape else {"elem": torch.full((ne,), ub, dtype=torch.long)}
                        try:
                            dn = _def_nums(lm, el_init, ym, ieos, D, plens)
                            for n in range(ne):
                                nums2[n].append(dn[n])
                        except Exception as ex:
                            _exc(ctx, exc_seen, "sequence_log_probs", "exception",
                                 "definition on model outputs raised %r" % ex, sinfo)
                            continue
                        book.add("SequentialLanguageModelDistribution.sample", ieos, el_ids, ym.tolist(), [], nums2,
                                 dict(sinfo, names=names2 + ["definition"], walk_index=m))


def _wrapper_lp(ctx, seen, make, value, lead, rank, max_iters, va, sinfo, dist=None):
    """log_prob of `value` through the wrapper.  On an exception: classify it by finding the smallest
    change of the CALL that makes it work (argument validation off; sample dimensions flattened to
    one), report it once per class, and return the value obtained that way so that the numerators are
    still validated.  Returns a tensor of shape `lead` or None."""
    first = None
    try:
        d = dist if dist is not None else make(va)
        lp = _sp.quiet(d.log_prob, value)
        if tuple(lp.shape) != tuple(lead):
            raise ValueError("log_prob shape %s for value shape %s" % (tuple(lp.shape), tuple(value.shape)))
        return lp
    except Exception as ex:
        first = ex
    short = max_iters is not None and value.size(-1) < max_iters
    kind, out = "exception", None
    try:
        lp = _sp.quiet(make(False).log_prob, value)
        if tuple(lp.shape) == tuple(lead) and va:
            kind, out = ("exception_validate_args_short_sample" if short else "exception_validate_args"), lp
    except Exception:
        pass
    if out is None and rank != 1:
        try:
            flat = value.reshape((-1,) + tuple(value.shape[rank:]))
            lp = _sp.quiet(make(False).log_prob, flat)
            kind, out = "exception_log_prob_sample_rank", lp.reshape(lead)
        except Exception:
            pass
    _exc(ctx, seen, "SequentialLanguageModelDistribution.log_prob", kind,
         "log_prob(value of shape %s) with batch shape %r, sample rank %d, max_iters %r, validate_args=%r raised %r" % (
             tuple(value.shape), sinfo.get("batch_shape"), rank, max_iters, va, first), sinfo,
         key=(kind, sinfo.get("batch_shape") is None, rank))
    return out


def _exc(ctx, seen, site, kind, detail, info, key=None):
    """report an exception/shape failure once per (site, kind, key) with a count"""
    k = (site, kind, key)
    ctx.count("failures_%s_%s" % (site.split(".")[-1], kind))
    if k in seen:
        return
    seen.add(k)
    ctx.violation(dict(site=site, kind=kind), detail, dict(kind="call", site=site, failure=kind, info=info, detail=detail))


def classify_rejection(meta, rep, trace):
    names = meta["info"].get("names", [])
    if not rep.get("done", False):
        return "path_not_a_walk", "replay stopped before buffer row %d of %d: the logged row is not a legal step " \
            "(token of zero weight, token after eos, walk continued past a terminal state, or padding that is not eos)" % (
                rep.get("pos", -1) + 1, len(trace["y"]))
    if not rep.get("terminal", False):
        return "path_incomplete", "the path ends before its first eos and before the step limit"
    if not rep.get("lens_ok", True):
        return "length", "reported lengths %r differ from the machine's" % (trace["lens"],)
    bad = [names[j] if j < len(names) else str(j) for j, ok in enumerate(rep.get("nums_ok", [])) if not ok]
    return "score_" + "+".join(bad), "numerators reported by %s differ from SeqNum of the path (logged %r)" % (bad, trace["nums"])


WALK_CONFIGS_QUICK = [
    dict(V=2, T=3, D=4, eos=[None, 0, 1, -1], batch=[1, 2, 3], rounds=14, unlimited=True),
    dict(V=3, T=3, D=4, eos=[None, 0, 2, -2], batch=[2, 4], rounds=12, unlimited=True),
    dict(V=3, T=4, D=6, eos=[None, 1, -1], batch=[2, 3], rounds=10, unlimited=True),
    dict(V=2, T=1, D=4, eos=[None, 0], batch=[1, 3], rounds=4),
    dict(V=4, T=2, D=8, eos=[None, 3, 0], batch=[3], rounds=6),
]
WALK_CONFIGS_THOROUGH = [
    dict(V=2, T=3, D=4, eos=[None, 0, 1, -1], batch=[1, 2, 3, 5], rounds=90, unlimited=True),
    dict(V=3, T=3, D=4, eos=[None, 0, 2, -2], batch=[2, 4], rounds=80, unlimited=True),
    dict(V=3, T=4, D=6, eos=[None, 1, -1], batch=[2, 3], rounds=70, unlimited=True),
    dict(V=2, T=5, D=4, eos=[None, 0, 1], batch=[2, 4], rounds=60, unlimited=True),
    dict(V=2, T=1, D=4, eos=[None, 0], batch=[1, 3], rounds=12),
    dict(V=4, T=2, D=8, eos=[None, 3, 0], batch=[3], rounds=40),
    dict(V=4, T=3, D=8, eos=[None, 2, -1], batch=[2, 3], rounds=50, unlimited=True),
    dict(V=5, T=2, D=5, eos=[None, 4], batch=[2], rounds=30),
]


def record_walk_traces(ctx):
    configs = WALK_CONFIGS_QUICK if ctx.quick else WALK_CONFIGS_THOROUGH
    wd = ctx.subdir("traces")
    books = []
    jobs = []
    exc_seen = set()
    for ci, cfg in enumerate(configs):
        book = TraceBook(cfg["V"], cfg["T"], cfg["D"])
        record_walks(ctx, book, cfg, ci * 100000, cfg["rounds"], exc_seen)
        if not book.traces:
            raise MachineryError("no traces recorded for %r" % cfg)
        # binding self-test: corrupted copies of recorded traces must be rejected by the trace specification
        import copy
        base = [t for t in book.traces if t["lens"] and all(t["nums"][n] and min(t["nums"][n]) >= 0 for n in range(len(t["tabs"])))]
        if not base:
            raise MachineryError("no trace suitable for the binding self-test in %r" % cfg)
        for variant in ("num", "len", "row"):
            t = copy.deepcopy(base[ctx.rng.randrange(len(base))])
            if variant == "num":
                t["nums"][0][0] += 1
            elif variant == "len":
                t["lens"][0] += 1
            else:
                t["y"] = t["y"] + [t["y"][-1]]  # one more row after a terminal state that is not eos padding
                if t["eos"] != NOEOS and all(x == t["eos"] for x in t["y"][-1]):
                    t["y"][-1] = [(x + 1) % book.V for x in t["y"][-1]]
            tid = book.add("selftest", None, t["tabs"], t["y"], t["lens"], t["nums"], dict(variant=variant))
            book.traces[-1]["eos"] = t["eos"]
        name = "c%d" % ci
        path, cfgp = _sp.validate_traces(ctx, name, book.V, book.T, book.D, book.tables, book.traces, wd)
        books.append((name, book))
        jobs.append((name, path, cfgp))
    return books, jobs


def finish_walk_traces(ctx, books, results):
    for name, book in books:
        res = results[name]
        rejected = _sp.trace_report(res, book.traces, name)
        for tr in list(book.traces):
            if book.meta[tr["tid"]]["origin"] == "selftest":
                if tr["tid"] not in rejected:
                    raise MachineryError("binding self-test: SeqProbTrace accepted a corrupted trace (%s, %r)" % (
                        name, book.meta[tr["tid"]]["info"]))
                del rejected[tr["tid"]]
                book.traces.remove(tr)
                ctx.count("selftest_corrupted_traces_rejected")
        ctx.add_tlc("SeqProbTrace/%s(V=%d,T=%d,D=%d)" % (name, book.V, book.T, book.D), res)
        ctx.traces += len(book.traces) - len(rejected)
        by_tid = {t["tid"]: t for t in book.traces}
        for tr in book.traces:
            meta = book.meta[tr["tid"]]
            paths = [tuple(_sp.trunc([row[n] for row in tr["y"]], tr["eos"])) for n in range(len(tr["tabs"]))]
            for n, p in enumerate(paths):
                tab = book.tables[tr["tabs"][n] - 1]
                ctx.case(key=("walk", book.V, book.T, book.D, tr["eos"], _tabkey(tab), p),
                         nontrivial=len(p) >= 2 and tr["tid"] not in rejected,
                         sample=dict(trace=tr, origin=meta["origin"], numerators_from=meta["info"].get("names"))
                         if (tr["tid"] % 41 == 1 and len(p) >= 2 and _quota(ctx, meta["origin"])) else None)
        for tid, rep in sorted(rejected.items()):
            tr = by_tid[tid]
            meta = book.meta[tid]
            kind, why = classify_rejection(meta, rep, tr)
            ctx.violation(dict(site=meta["origin"], kind=kind),
                          "SeqProbTrace rejected trace %d (%s): %s" % (tid, name, why),
                          dict(kind="trace", V=book.V, T=book.T, D=book.D, trace=tr, info=meta["info"],
                               tables=[book.tables[j - 1] for j in tr["tabs"]], diagnosis=rep))


def _tabkey(tab):
    return tuple(tuple(e["row"]) for e in tab)


# =====================================================================================
# driver
# =====================================================================================
def _quota(ctx, machine, limit=2):
    """at most `limit` written-out samples per machine, so that the evidence shows every kind of case"""
    q = ctx.extra.setdefault("_quota", {})
    if q.get(machine, 0) >= limit:
        return False
    q[machine] = q.get(machine, 0) + 1
    return True


def run(ctx):
    q = ctx.quick
    ctx.max_samples = 12
    torch.set_num_threads(1)  # tensors are tiny; intra-op threads only add contention
    ctx.rule = (
        "spec->code: every behaviour of SeqProbScore.tla (all hyps over vocabulary+2 OOV ids of length 1..T, every "
        "weight row per position, eos unset/set) through sequence_log_probs for each sequence dimension of 1-D..4-D "
        "batches and as PackedSequence with every length; every behaviour of SeqProbCTC.tla through ctc_greedy_search; "
        "the support of every table of SeqProbWalk.tla through enumerate_support/log_prob.  code->spec: batches drawn by "
        "RandomWalk / SequentialLanguageModelDistribution.sample under seeded RNG validated by SeqProbTrace.tla.  "
        "Non-trivial = score case with 1 <= counted positions < length (a mask matters), CTC case whose output is "
        "shorter than its valid length and non-empty, support with >= 3 members of positive mass, accepted walk path of "
        "length >= 2; distinct by the full abstract case.")
    ctx.assumptions += [
        "weights are small naturals with a common row sum D (probabilities w/D); logits fed to the code are log(w) plus "
        "dyadic per-position shifts; reported log-probabilities are converted to integer numerators over D^len "
        "(relative residual 1e-6 for float64, 1e-4 for float32)",
        "language models are TableLM doubles (history threaded through `prev`); walks without a step limit use tables "
        "that force eos at depth T",
        "greedy CTC rows have no within-frame ties (the argmax is unique)",
        "entries of RandomWalk's y beyond the reported lengths are documented invalid and are not judged (counted as "
        "informational when they are not eos); sample() padding is judged",
        "tensors have at least one step (T >= 1)",
    ]
    S = _sp.spec
    kw = dict(workers=16, timeout=3000)
    jobs = [
        ("score", S("SeqProbScore.tla"), S("SeqProbScore_quick.cfg" if q else "SeqProbScore_thorough.cfg"), kw),
        ("walk1", S("SeqProbWalk.tla"), S("SeqProbWalk_quick1.cfg" if q else "SeqProbWalk_thorough1.cfg"), kw),
        ("walk2", S("SeqProbWalk.tla"), S("SeqProbWalk_quick2.cfg" if q else "SeqProbWalk_thorough2.cfg"), kw),
        ("ctc", S("SeqProbCTC.tla"), S("SeqProbCTC_quick.cfg" if q else "SeqProbCTC_thorough.cfg"), kw),
    ]
    if not q:
        jobs += [
            ("score4", S("SeqProbScore.tla"), S("SeqProbScore_thorough4.cfg"), kw),
            ("walk3", S("SeqProbWalk.tla"), S("SeqProbWalk_thorough3.cfg"), kw),
            ("walk4", S("SeqProbWalk.tla"), S("SeqProbWalk_thorough4.cfg"), kw),
            ("ctc2", S("SeqProbCTC.tla"), S("SeqProbCTC_thorough2.cfg"), kw),
        ]
    import os as _os, time as _time
    _t0 = _time.time()

    def lap(what):
        if _os.environ.get("VF_TIMING"):
            print("  [timing] %-10s %.1fs" % (what, _time.time() - _t0), file=sys.stderr)

    # the design runs (TLC) go on in the background while the real code is exercised for the traces
    import threading
    box = {}

    def bg(key, fn, *a):
        def w():
            try:
                box[key] = fn(*a)
            except Exception as ex:
                box[key] = ex
        th = threading.Thread(target=w)
        th.start()
        return th

    th_design = bg("design", _sp.run_parallel, jobs)
    books, tjobs = record_walk_traces(ctx)
    lap("record")
    th_design.join()
    if isinstance(box["design"], Exception):
        raise box["design"]
    results = box["design"]
    lap("tlc")
    th_trace = bg("trace", _sp.trace_jobs_run, tjobs)
    actions = dict(score=["Init", "AddPosition"], walk=["Init", "Step"], ctc=["Init", "Frame"])
    for name, res in results.items():
        tlc.require_ok(res, "SeqProb/" + name)
        tlc.require_covered(res, actions[name.rstrip("0123456789")], "SeqProb/" + name)
        ctx.add_tlc("SeqProb/" + name, res)
    ctx.exhaustive = True

    # ---- (a) scores
    for name, (V, D) in (("score", (2, 4) if q else (3, 4)), ("score4", (2, 4))):
        if name not in results:
            continue
        recs = results[name].records
        if not recs:
            raise MachineryError("SeqProbScore export produced no behaviours")
        groups = {}
        for r in recs:
            groups.setdefault((len(r["hyp"]), r["eos"]), []).append(r)
            ctx.case(key=("score", V, r["w"], r["hyp"], r["eos"]), nontrivial=1 <= r["cnt"] < len(r["hyp"]), n=0,
                     sample=dict(machine="SeqProbScore", **r) if (r["cnt"] == 2 and r["efflen"] == 2 and len(r["hyp"]) == 3
                                                                 and ctx.rng.random() < 0.01 and _quota(ctx, "score")) else None)
        for key in sorted(groups):
            g = sorted(groups[key], key=lambda r: (r["hyp"], r["w"]))
            check_score_group(ctx, key, g, V, D, q)
        gneg = sorted(groups[(max(k[0] for k in groups), NOEOS)], key=lambda r: (r["hyp"], r["w"]))[:64]
        check_packed_negative_dim(ctx, gneg, V, D)

    lap("score")
    # ---- (c) greedy CTC
    for name, (V, D) in (("ctc", (3, 8)), ("ctc2", (2, 4))):
        if name not in results:
            continue
        recs = results[name].records
        if not recs:
            raise MachineryError("SeqProbCTC export produced no behaviours")
        groups = {}
        for r in recs:
            groups.setdefault((len(r["w"]), r["blank"]), []).append(r)
            ctx.case(key=("ctc", V, r["w"], r["blank"], r["L"]), nontrivial=0 < len(r["out"]) < r["L"], n=0,
                     sample=dict(machine="SeqProbCTC", **r) if (0 < len(r["out"]) < r["L"] and ctx.rng.random() < 0.002 and _quota(ctx, "ctc")) else None)
        for key in sorted(groups):
            check_ctc_group(ctx, key, sorted(groups[key], key=lambda r: (r["w"], r["L"])), V, D, q)

    lap("ctc")
    # ---- (b1) support of every table
    for name, (V, T, D) in (("walk1", (2, 3, 4)), ("walk4", (3, 3, 4))):
        if name not in results:
            continue
        recs = results[name].records
        if not recs:
            raise MachineryError("SeqProbWalk export produced no supports")
        by_eos = {}
        for r in recs:
            by_eos.setdefault(r["eos"], []).append(r)
            ctx.case(key=("support", V, T, _tabkey(r["tab"]), r["eos"]),
                     nontrivial=sum(1 for e in r["support"] if e["num"] > 0) >= 3, n=0,
                     sample=dict(machine="SeqProbWalk", **r) if (sum(1 for e in r["support"] if e["num"] > 0) >= 4
                                                                  and ctx.rng.random() < 0.002 and _quota(ctx, "support", 1)) else None)
        for eos, rs in sorted(by_eos.items()):
            ctx.rng.shuffle(rs)
            B = 48
            for j in range(0, len(rs), B):
                check_support_batch(ctx, rs[j:j + B], eos, V, T, D, batched=True)
            check_support_batch(ctx, rs[:40 if q else 300], eos, V, T, D, batched=False)

    lap("support")
    # ---- (b2) random walks, code -> spec
    th_trace.join()
    if isinstance(box["trace"], Exception):
        raise box["trace"]
    finish_walk_traces(ctx, books, box["trace"])
    lap("walks")
    ctx.extra.pop("_quota", None)


# =====================================================================================
# replay of one stored case
# =====================================================================================
def replay(ctx, case):
    kind = case.get("kind")
    if kind == "score":
        V, D = case["V"], case["D"]
        eos = case["eos"]
        ieos = None if eos == NOEOS else eos
        W = torch.tensor([case["w"]])
        hyp = torch.tensor([case["hyp"]])
        logits = _sp.log_weights(W, torch.double)
        n = hyp.size(1)
        if case["what"] == "packed":
            L = case.get("length", n)
            bf = case.get("batch_first", False)
            lg, hy = (logits, hyp) if bf else (logits.transpose(0, 1), hyp.t())
            exp_num, exp_cnt = case["pre"][L]
            try:
                ps = torch.nn.utils.rnn.pack_padded_sequence(lg, torch.tensor([L]), batch_first=bf)
                out = _call_slp(ps, hy, case["dim"], None, False)
            except Exception as ex:
                print("replay packed: raised %r" % ex)
                ctx.violation(dict(site="sequence_log_probs", kind="exception"), "replayed case still raises", case)
                return
        else:
            exp_num, exp_cnt = case["expected_num"], case["expected_cnt"]
            out = _call_slp(logits.transpose(0, 1), hyp.t(), 0, ieos, False)
        got = _sp.to_num(out[0], D ** exp_cnt, 1e-6)
        print("replay sequence_log_probs: numerator %r over D^%d, spec %d" % (got, exp_cnt, exp_num))
        if got != exp_num:
            ctx.violation(dict(site="sequence_log_probs", kind="value"), "replayed case still differs", case)
    elif kind == "ctc":
        from pydrobert.torch import functional as F

        V, D = case["V"], case["D"]
        W = torch.tensor([case["w"]])
        if case.get("repeated"):
            R, Li = case["repeated"], case["L"]
            dtype = torch.float if "float32" in case["dtype"] else torch.double
            x = _sp.log_weights(W[:, :Li], dtype)[0].repeat(R, 1).unsqueeze(0)
            mx, paths, ol = _sp.quiet(F.ctc_greedy_search, x, torch.tensor([Li * R]), case["blank_idx"], True, False)
            want = R * (math.log(case["expected_num"]) - Li * math.log(D)) if Li else 0.0
            print("replay ctc_greedy_search on %d frames: log score %r, expected %r" % (Li * R, float(mx[0]), want))
            if not abs(float(mx[0]) - want) <= 1e-4 * max(1.0, abs(want)):
                ctx.violation(dict(site="ctc_greedy_search", kind="score"), "replayed case still differs", case)
            return
        x = (W.double() / D) if case["is_probs"] else _sp.log_weights(W, torch.double)
        mx, paths, ol = _sp.quiet(F.ctc_greedy_search, x, torch.tensor([case["L"]]) if case["in_lens"] else None,
                                  case["blank_idx"], True, case["is_probs"])
        got_path = paths[0, :int(ol[0])].tolist()
        val = float(mx[0]) if case["is_probs"] else float(mx[0].exp())
        got = _sp.to_num(torch.tensor(val).log(), D ** case["L"], 1e-6)
        print("replay ctc_greedy_search: path %r score numerator %r; spec %r %r" % (got_path, got, case["expected_out"], case["expected_num"]))
        if got_path != case["expected_out"] or got != case["expected_num"]:
            ctx.violation(dict(site="ctc_greedy_search", kind="value"), "replayed case still differs", case)
    elif kind == "support":
        rec = dict(tab=case["tab"], support=case["support"], eos=case["eos"])
        check_support_batch(ctx, [rec], case["eos"], case["V"], case["T"], case["D"], batched=case["batched"])
    elif kind == "trace":
        # re-validate the recorded trace with TLC (the trace is what the implementation produced)
        wd = ctx.subdir("replay")
        tr = dict(case["trace"], tid=1, tabs=list(range(1, len(case["tables"]) + 1)))
        path, cfg = _sp.validate_traces(ctx, "replay", case["V"], case["T"], case["D"], case["tables"], [tr], wd)
        res = _sp.trace_jobs_run([("replay", path, cfg)])["replay"]
        rejected = _sp.trace_report(res, [tr], "replay")
        print("replay trace: %s" % ("rejected %r" % rejected if rejected else "accepted"))
        if rejected:
            ctx.violation(dict(site="RandomWalk", kind="trace"), "recorded trace still rejected by SeqProbTrace", case)
    elif kind == "call":
        info = case["info"]
        book = TraceBook(info["V"], info["T"], info["D"])
        seen = set()
        cfg = dict(eos=[info["eos"]], batch=[info["N"]], unlimited=info["max_iters"] is None)
        record_walks(ctx, book, cfg, 0, 3, seen)
        print("replay call: %d failure kind(s) reproduced" % len(seen))
    else:
        raise MachineryError("unknown case kind %r" % kind)


if __name__ == "__main__":
    sys.exit(main(PROP, "model_checking", run, replay))
