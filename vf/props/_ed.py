"""Shared machinery for C01-C03: run EditDistance.tla, export every behaviour, replay into
pydrobert.torch's string-matching functions."""
import itertools
import math
import os
import threading
import warnings

import torch

from .. import SPECS, tlc
from ..harness import MachineryError

MOD = os.path.join(SPECS, "EditDistanceMC.tla")
ACTIONS = ["Init", "ConsumeHypToken"]

# spec symbol (0 = Eos, 1, 2, 3) -> implementation token id; several maps so that neither the eos id
# nor the ordering of ids is special
TOKEN_MAPS = [
    {0: 0, 1: 1, 2: 2, 3: 3},
    {0: 2, 1: 0, 2: 1, 3: 4},
    {0: -1, 1: 5, 2: 0, 3: 2},
]
SCALES = [1.0, 0.5]


def run_design(ctx, what):
    """Exhaustive TLC run(s).  Returns exported behaviours (list of records).
    what: subset of {'core', 'decl'}"""
    results = {}
    threads = []
    errs = []

    def job(name, cfg, workers, cov):
        try:
            results[name] = tlc.run(MOD, os.path.join(SPECS, cfg), workers=workers, coverage=cov,
                                    timeout=3000)
        except Exception as ex:  # propagate to main thread
            errs.append(ex)

    core_cfg = "EditDistance_quick.cfg" if ctx.quick else "EditDistance_thorough.cfg"
    if "core" in what:
        threads.append(threading.Thread(target=job, args=("core", core_cfg, 16, True)))
    if "decl" in what:
        decl_cfg = "EditDistance_decl_quick.cfg" if ctx.quick else "EditDistance_decl_thorough.cfg"
        threads.append(threading.Thread(target=job, args=("decl", decl_cfg, 16, True)))
    if "zero" in what:
        threads.append(threading.Thread(target=job, args=("zero", "EditDistance_zero.cfg", 8, True)))
    for t in threads:
        t.start()
    for t in threads:
        t.join()
    if errs:
        raise errs[0]
    for name, res in results.items():
        tlc.require_ok(res, "EditDistance/" + name)
        tlc.require_covered(res, ACTIONS, "EditDistance/" + name)
        ctx.add_tlc("EditDistance/" + name, res)
    recs = (results["core"].records if "core" in results else []) + (results["zero"].records if "zero" in results else [])
    if "core" in what and not recs:
        raise MachineryError("EditDistance export produced no behaviours")
    return recs


# ---- LONG strings (harness-chosen cases, the specification's row machine is the oracle) ---------------------
# equal costs times a NON-dyadic factor: the library factors the common cost out (`mult`), so distances are
# factor x unit distance (one rounding) and the optimal-completion targets are those of unit costs
NONDYADIC = [0.1, 0.3, 0.7]
HUGE = 8388608  # 2**23: two deletions reach 2**24, where float32 drops odd integers


def _row(rng, n, p_eos):
    return [0 if rng.random() < p_eos else rng.randint(1, 3) for _ in range(n)]


def long_cases(ctx, padded=True):
    """seeded <<ref row, hyp row>> pairs: medium (6..12 symbols, eos anywhere) and a few LONG PADDED ones"""
    rng = ctx.rng
    n_mid = 40 if ctx.quick else 300
    cases = []
    for i in range(n_mid):
        R, H = rng.randint(6, 12), rng.randint(6, 12)
        p = rng.choice((0.0, 0.05, 0.2))
        ref, hyp = _row(rng, R, p), _row(rng, H, p)
        if i % 3 == 0:  # related strings: the hypothesis is an edited copy of the reference
            hyp = [s for s in ref if rng.random() > 0.2]
            hyp = [rng.randint(1, 3) if rng.random() < 0.2 else s for s in hyp] or [1]
            hyp = hyp[:12]
        cases.append((ref, hyp))
    # LONG PADDED rows: one side short, the other short content + eos + filler holding MORE THAN 256 eos symbols (more
    # than a byte can count); the long side alternates so that TLC's behaviours stay cheap (few steps x wide rows, or
    # many steps x narrow rows)
    for T in (() if not padded else (300,) if ctx.quick else (300, 520, 700)):
        for kind in ("eos", "garbage"):
            for long_side in ("ref", "hyp"):
                body = _row(rng, rng.randint(3, 7), 0.0)
                other = _row(rng, rng.randint(3, 8), 0.1)
                n_fill = T - len(body) - 1
                if kind == "eos":
                    fill = [0] * n_fill
                else:  # at least 260 eos among the filler, the rest arbitrary symbols, shuffled
                    fill = [0] * 260 + [rng.randint(0, 3) for _ in range(n_fill - 260)]
                    rng.shuffle(fill)
                long_row = body + [0] + fill
                cases.append((long_row, other) if long_side == "ref" else (other, long_row))
    return cases


def run_long(ctx, costs=("<<1, 1, 1>>", "<<1, 2, 1>>", "<<2, 1, 3>>", "<<2, 1, 1>>"), name="EditDistanceLong", padded=True):
    """TLC on the harness-chosen long cases -> exported behaviours (records as in run_design).
    padded=False: without the > 256-symbol rows (a cost of 2**23 times 262 rows leaves TLC's 32-bit integers)"""
    cases = long_cases(ctx, padded)
    gdir = ctx.subdir("ed_long")
    tup = lambda r: "<<" + ", ".join(str(x) for x in r) + ">>"
    with open(os.path.join(gdir, name + ".tla"), "w") as f:
        f.write("---- MODULE %s ----\nEXTENDS EditDistanceMC\n" % name)
        f.write("GivenCases == <<\n  " + ",\n  ".join("<<%s, %s>>" % (tup(r), tup(h)) for r, h in cases) + "\n>>\n")
        f.write("LongCosts == {" + ", ".join(costs) + "}\n====\n")
    with open(os.path.join(SPECS, "EditDistance_long.cfg")) as f:
        cfg = f.read()
    cfgp = os.path.join(gdir, name + ".cfg")
    with open(cfgp, "w") as f:
        f.write(cfg.replace("CostSet <- CostsLong", "CostSet <- LongCosts"))
    res = tlc.run(os.path.join(gdir, name + ".tla"), cfgp, workers=8, coverage=True, timeout=3000, lib=SPECS)
    tlc.require_ok(res, "EditDistance/" + name)
    tlc.require_covered(res, ACTIONS, "EditDistance/" + name)
    ctx.add_tlc("EditDistance/" + name, res)
    if len(res.records) < len(cases):
        raise MachineryError("EditDistance long export: %d records for %d cases" % (len(res.records), len(cases)))
    ctx.count("long_behaviours", len(res.records))
    return res.records


def group_records(recs):
    groups = {}
    for r in recs:
        key = (r["mode"], tuple(r["c"]), len(r["ref"]), len(r["hyp"]))
        groups.setdefault(key, []).append(r)
    for g in groups.values():
        g.sort(key=lambda r: (r["ref"], r["hyp"]))
    return groups


def tensors(rows, tmap):
    """rows: list of equal-length lists of spec symbols -> (L, N) long tensor"""
    return torch.tensor([[tmap[s] for s in row] for row in rows], dtype=torch.long).t().contiguous()


def eos_args(mode, tmap):
    if mode == "none":
        return None, False
    return tmap[0], mode == "incl"


def quiet(fn, *a, **kw):
    with warnings.catch_warnings():
        warnings.simplefilter("ignore")
        return fn(*a, **kw)


def sub_batches(rng, n, max_batches, sizes=(1, 2, 3, 5)):
    """seeded random small batches of indices (with mixed members) for batch-independence"""
    out = []
    for _ in range(max_batches):
        k = rng.choice(sizes)
        out.append([rng.randrange(n) for _ in range(k)])
    return out


def close(a, b, tol=1e-6):
    if isinstance(a, float) and (math.isinf(a) or math.isnan(a)):
        return False
    return abs(a - b) <= tol * max(1.0, abs(b))


def flag_grid(*names):
    for vals in itertools.product([False, True], repeat=len(names)):
        yield dict(zip(names, vals))
