"""Shared machinery for C01-C03: run EditDistance.tla, export every behaviour, replay into
pydrobert.torch's string-matching functions."""
import itertools
import math
import os
import threading
import warnings

import torch

from .. import SPECS, tlc
from ..harness import MachineryError

MOD = os.path.join(SPECS, "EditDistanceMC.tla")
ACTIONS = ["Init", "ConsumeHypToken"]

# spec symbol (0 = Eos, 1, 2, 3) -> implementation token id; several maps so that neither the eos id
# nor the ordering of ids is special
TOKEN_MAPS = [
    {0: 0, 1: 1, 2: 2, 3: 3},
    {0: 2, 1: 0, 2: 1, 3: 4},
    {0: -1, 1: 5, 2: 0, 3: 2},
]
SCALES = [1.0, 0.5]


def run_design(ctx, what):
    """Exhaustive TLC run(s).  Returns exported behaviours (list of records).
    what: subset of {'core', 'decl'}"""
    results = {}
    threads = []
    errs = []

    def job(name, cfg, workers, cov):
        try:
            results[name] = tlc.run(MOD, os.path.join(SPECS, cfg), workers=workers, coverage=cov,
                                    timeout=3000)
        except Exception as ex:  # propagate to main thread
            errs.append(ex)

    core_cfg = "EditDistance_quick.cfg" if ctx.quick else "EditDistance_thorough.cfg"
    if "core" in what:
        threads.append(threading.Thread(target=job, args=("core", core_cfg, 16, True)))
    if "decl" in what:
        decl_cfg = "EditDistance_decl_quick.cfg" if ctx.quick else "EditDistance_decl_thorough.cfg"
        threads.append(threading.Thread(target=job, args=("decl", decl_cfg, 16, True)))
    for t in threads:
        t.start()
    for t in threads:
        t.join()
    if errs:
        raise errs[0]
    for name, res in results.items():
        tlc.require_ok(res, "EditDistance/" + name)
        tlc.require_covered(res, ACTIONS, "EditDistance/" + name)
        ctx.add_tlc("EditDistance/" + name, res)
    recs = results["core"].records if "core" in results else []
    if "core" in what and not recs:
        raise MachineryError("EditDistance export produced no behaviours")
    return recs


def group_records(recs):
    groups = {}
    for r in recs:
        key = (r["mode"], tuple(r["c"]), len(r["ref"]), len(r["hyp"]))
        groups.setdefault(key, []).append(r)
    for g in groups.values():
        g.sort(key=lambda r: (r["ref"], r["hyp"]))
    return groups


def tensors(rows, tmap):
    """rows: list of equal-length lists of spec symbols -> (L, N) long tensor"""
    return torch.tensor([[tmap[s] for s in row] for row in rows], dtype=torch.long).t().contiguous()


def eos_args(mode, tmap):
    if mode == "none":
        return None, False
    return tmap[0], mode == "incl"


def quiet(fn, *a, **kw):
    with warnings.catch_warnings():
        warnings.simplefilter("ignore")
        return fn(*a, **kw)


def sub_batches(rng, n, max_batches, sizes=(1, 2, 3, 5)):
    """seeded random small batches of indices (with mixed members) for batch-independence"""
    out = []
    for _ in range(max_batches):
        k = rng.choice(sizes)
        out.append([rng.randrange(n) for _ in range(k)])
    return out


def close(a, b, tol=1e-6):
    if isinstance(a, float) and (math.isinf(a) or math.isnan(a)):
        return False
    return abs(a - b) <= tol * max(1.0, abs(b))


def flag_grid(*names):
    for vals in itertools.product([False, True], repeat=len(names)):
        yield dict(zip(names, vals))
