"""C06 -- the n-gram lookup model computes Katz back-off on any table.

Katz.tla: declarative back-off recursion vs the code-shaped reverse-trie loop (placeholder nodes,
"clobbering", early accumulation of back-off weights); TLC checks they agree on every table of the
universe, every history and token.  spec -> code: every table is built as a real
LookupLanguageModel and the exported next-token vectors are compared exactly (integer-valued
floats) along every evaluation path: all positions at once, every chunk size, every scalar idx
(positive and negative), per-element idx tensors, and a fresh instance after
load_state_dict(state_dict()).  parse_arpa_lm is checked against the same tables printed in ARPA
syntax."""
import io
import itertools
import math
import os
import sys

import torch

from .. import SPECS, par, tlc
from ..harness import MachineryError, main

PROP = "C06"
NEG = -100000


def gen_tables(rng, V, N, sos_in, count):
    """seeded presence patterns for higher orders + structured extremes (as TLA+ text and python)"""
    syms = list(range(V)) + ([] if sos_in else [V])
    grams = {k: [tuple(g) for g in itertools.product(syms, repeat=k)] for k in range(1, N + 1)}
    allg = [g for k in grams for g in grams[k]]
    tabs = []
    # extremes: dense, only highest order (+ nothing else), a single chain, highest order with explicit -inf lower
    tabs.append((set(allg), set()))
    tabs.append((set(grams[N]), set()))
    chain = tuple(syms[i % len(syms)] for i in range(N))
    tabs.append(({chain[i:] for i in range(N)} | {(s,) for s in syms}, set()))
    tabs.append((set(grams[N]) | set(grams[1]), set(grams[N - 1]) if N > 2 else set()))
    while len(tabs) < count:
        dens = rng.choice((0.15, 0.3, 0.5, 0.8))
        fin, inf = set(), set()
        for g in allg:
            r = rng.random()
            if r < dens:
                fin.add(g)
            elif r < dens + 0.07:
                inf.add(g)
        if not any(len(g) == N for g in fin | inf):
            fin.add(rng.choice(grams[N]))
        tabs.append((fin, inf))
    return tabs


def tla_set(gs):
    return "{" + ", ".join("<<" + ", ".join(str(x) for x in g) + ">>" for g in sorted(gs)) + "}"


def write_gen_module(path, name, tabs):
    lines = ["---- MODULE %s ----" % name, "EXTENDS Katz", "GenTables == {"]
    lines.append(",\n".join("  [fin |-> %s, inf |-> %s]" % (tla_set(f), tla_set(i)) for f, i in tabs))
    lines += ["}", "===="]
    with open(path, "w") as f:
        f.write("\n".join(lines) + "\n")


def run_tlc(ctx):
    """returns list of (config dict, records)"""
    out = []
    mod = os.path.join(SPECS, "KatzMC.tla")
    for cfg, V, N, sos_in, T in (("o1", 3, 1, False, 2), ("o2_in", 2, 2, True, 3), ("o2_out", 2, 2, False, 3)):
        res = tlc.run(mod, os.path.join(SPECS, "Katz_%s.cfg" % cfg), workers=16, timeout=1800)
        tlc.require_ok(res, "Katz/" + cfg)
        ctx.add_tlc("Katz/" + cfg, res)
        out.append((dict(V=V, N=N, sos_in=sos_in, T=T, name=cfg, exhaustive=True), res.records))
    gens = [(2, 3, True, 4, 60), (2, 3, False, 4, 60), (3, 2, False, 3, 40), (2, 4, True, 5, 40), (2, 4, False, 5, 30), (17, 2, False, 2, 5)]  # V=17: > 255 nodes per level, offsets leave uint8
    if not ctx.quick:
        gens = [(2, 3, True, 4, 400), (2, 3, False, 4, 400), (3, 2, False, 3, 300), (3, 3, True, 4, 150), (2, 4, True, 5, 150), (2, 4, False, 5, 100), (17, 2, False, 2, 12), (17, 2, True, 2, 6)]
    gdir = ctx.subdir("katz_gen")
    for V, N, sos_in, T, count in gens:
        name = "KatzGen_V%d_N%d_%s" % (V, N, "in" if sos_in else "out")
        tabs = gen_tables(ctx.rng, V, N, sos_in, count)
        write_gen_module(os.path.join(gdir, name + ".tla"), name, tabs)
        cfg = os.path.join(gdir, name + ".cfg")
        tlc.write_cfg(cfg, constants=dict(V=V, N=N, SosIn="TRUE" if sos_in else "FALSE", T=T, Tables=("<-", "GenTables")),
                      invariants=["WellFormed", "IterIsRecursion", "Export"])
        res = tlc.run(os.path.join(gdir, name + ".tla"), cfg, workers=16, timeout=3000, lib=SPECS)
        tlc.require_ok(res, "Katz/" + name)
        ctx.add_tlc("Katz/" + name, res)
        out.append((dict(V=V, N=N, sos_in=sos_in, T=T, name=name, exhaustive=False), res.records))
    return out


def fl(x):
    return -math.inf if x == NEG else float(x)


def build_dicts(rec, cfg, sos):
    V, N = cfg["V"], cfg["N"]

    def key(g):
        g = tuple(sos if (not cfg["sos_in"] and x == V) else x for x in g)
        return g[0] if len(g) == 1 else g

    dicts = [dict() for _ in range(N)]
    for v in rec["vals"]:
        g = v["g"]
        k = len(g)
        if k == N:
            dicts[k - 1][key(g)] = fl(v["lp"])
        else:
            dicts[k - 1][key(g)] = (fl(v["lp"]), float(v["bo"]))
    return dicts


def expected(rec, cfg):
    """-> hist (T, B) long, exp (T+1, B, V) double"""
    hs = rec["hists"]
    hist = torch.tensor([h["h"] for h in hs], dtype=torch.long).t().contiguous() if cfg["T"] > 0 else torch.zeros(0, len(hs), dtype=torch.long)
    exp = torch.tensor([[[fl(x) for x in row] for row in h["lp"]] for h in hs], dtype=torch.double).transpose(0, 1).contiguous()
    return hist, exp


def same(a, b):
    return a.shape == b.shape and bool(((a == b) | (torch.isnan(a) & torch.isnan(b))).all())


def check_table(job):
    rec, cfg, seed = job
    import random
    import warnings

    from pydrobert.torch.modules import LookupLanguageModel

    rng = random.Random(seed)
    out = []
    V, N, T = cfg["V"], cfg["N"], cfg["T"]
    # a start symbol OUTSIDE the vocabulary may be any other integer: next to the usual -1 / V also ids that coincide
    # with a real token modulo 256 / 65536 (the trie stores token ids in the narrowest unsigned type that holds V)
    sos = 0 if cfg["sos_in"] else rng.choice((-1, V, V + 4, 256, 256 + rng.randrange(V), rng.randrange(V) - 256,
                                              65536 + rng.randrange(V), 1000))
    case = dict(cfg=cfg, fin=rec["fin"], inf=rec["inf"], vals=rec["vals"], sos=sos)

    def bad(site, kind, detail, extra=None):
        c = dict(case)
        if extra:
            c.update(extra)
        out.append((dict(site=site, kind=kind), detail, c))

    dicts = build_dicts(rec, cfg, sos)
    if not dicts[-1]:
        return out, "skipped_empty_highest_order"
    try:
        with warnings.catch_warnings():
            warnings.simplefilter("ignore")
            lm = LookupLanguageModel(V, sos, [dict(d) for d in dicts])
    except Exception as ex:
        bad("LookupLanguageModel", "construct_exception", "building the model raised %r" % ex)
        return out, "ok"
    hist, exp = expected(rec, cfg)
    B = hist.size(1)

    def first_diff(got):
        d = (got != exp).nonzero()
        t, b, w = d[0].tolist()
        return "position %d history %r token %d: got %r expected %r (%d values differ)" % (
            t, hist[:, b].tolist(), w, got[t, b, w].item(), exp[t, b, w].item(), d.size(0))

    try:
        full = lm(hist).double()
        if not same(full, exp):
            bad("LookupLanguageModel.__call__", "value" if full.shape == exp.shape else "shape",
                first_diff(full) if full.shape == exp.shape else "shape %s" % (tuple(full.shape),))
        # the same history as a contiguous VIEW into a larger tensor (non-zero storage offset, e.g. big[1:])
        if T > 0:
            big = torch.cat([torch.full((2, B), V - 1, dtype=torch.long), hist, torch.zeros(1, B, dtype=torch.long)], 0)
            view = big[2:2 + T]
            got = lm(view).double()
            if not same(got, exp):
                bad("LookupLanguageModel.__call__", "value_view_with_storage_offset",
                    "history given as a slice big[2:%d] of a larger tensor: %s" % (2 + T, first_diff(got) if got.shape == exp.shape else got.shape))
        # every history ALONE (batch size 1): what one element gets must not depend on which other histories are batched
        # with it (e.g. on whether some OTHER candidate n-gram is still alive at a higher order)
        for b in (range(B) if B <= 32 else rng.sample(range(B), 32)):
            got = lm(hist[:, b:b + 1]).double()
            if got.shape != exp[:, b:b + 1].shape or not same(got, exp[:, b:b + 1]):
                bad("LookupLanguageModel.__call__", "value_batch_of_one", "history %r evaluated alone differs from the specification "
                    "(and from the same history inside the batch)" % (hist[:, b].tolist(),), dict(alone=hist[:, b].tolist()))
                break
            got = lm(hist[:, b:b + 1], None, T)[0].double()
            if not same(got, exp[T, b:b + 1]):
                bad("LookupLanguageModel.__call__", "idx_value_batch_of_one", "history %r evaluated alone at idx=%d" % (hist[:, b].tolist(), T),
                    dict(alone=hist[:, b].tolist(), idx=T))
                break
        for chunk in range(1, T + 2):
            got = lm.calc_full_log_probs_chunked(hist, dict(), chunk).double()
            if not same(got, exp):
                bad("calc_full_log_probs_chunked", "value", "chunk_size %d: %s" % (chunk, first_diff(got) if got.shape == exp.shape else got.shape),
                    dict(chunk=chunk))
                break
        for i in range(T + 1):
            for idx in (i, i - T - 1, torch.tensor(i), torch.tensor([i])):
                got = lm(hist, None, idx)[0].double()
                if not same(got, exp[i]):
                    bad("LookupLanguageModel.__call__", "idx_value", "idx=%r differs from position %d of the full computation/spec" % (idx, i),
                        dict(idx=i))
                    break
        if B > 1:
            for _ in range(3):
                idx = torch.tensor([rng.randrange(T + 1) for _ in range(B)])
                got = lm(hist, None, idx)[0].double()
                want = exp[idx, torch.arange(B)]
                if not same(got, want):
                    bad("LookupLanguageModel.__call__", "per_element_idx_value", "per-element idx %r" % (idx.tolist(),), dict(idx=idx.tolist()))
                    break
        lm2 = LookupLanguageModel(V, sos)
        lm2.load_state_dict(lm.state_dict())
        got = lm2(hist).double()
        if not same(got, exp):
            bad("LookupLanguageModel.load_state_dict", "value", "reloaded model: " + (first_diff(got) if got.shape == exp.shape else str(got.shape)))
        got = lm2(hist, None, T)[0].double()
        if not same(got, exp[T]):
            bad("LookupLanguageModel.load_state_dict", "idx_value", "reloaded model, idx=%d" % T)
    except Exception as ex:
        bad("LookupLanguageModel", "exception", "evaluation raised %r" % ex)
    # ARPA round trip of the finite entries
    try:
        from pydrobert.torch.data import parse_arpa_lm

        tok = {s: "t%d" % s for s in range(V)}
        tok[V] = "<s>"
        fin = [v for v in rec["vals"] if v["lp"] != NEG]
        by_k = {k: [v for v in fin if len(v["g"]) == k] for k in range(1, N + 1)}
        if by_k[N]:
            lines = ["\\data\\"] + ["ngram %d=%d" % (k, len(by_k[k])) for k in range(1, N + 1)] + [""]
            for k in range(1, N + 1):
                lines.append("\\%d-grams:" % k)
                for j, v in enumerate(by_k[k]):
                    # every other lower-order entry is written WITHOUT its back-off column (implicit weight 0)
                    implicit = k < N and j % 2 == 1
                    if implicit:
                        v = dict(v, bo=0)
                        by_k[k][j] = v
                    lines.append("%d %s%s" % (v["lp"], " ".join(tok[x] for x in v["g"]), (" %d" % v["bo"]) if (k < N and not implicit) else ""))
                lines.append("")
            lines.append("\\end\\")
            text = "\n".join(lines) + "\n"
            t2i = {v: k for k, v in tok.items()}
            for base_e, via_path in ((False, False), (True, False), (False, True), (True, True)):
                if via_path:  # the path entry point must honour the same options as an open file
                    import tempfile

                    with tempfile.NamedTemporaryFile("w", suffix=".arpa", delete=False) as tf:
                        tf.write(text)
                    try:
                        with warnings.catch_warnings():
                            warnings.simplefilter("ignore")
                            got = parse_arpa_lm(tf.name, t2i, base_e)
                    finally:
                        os.unlink(tf.name)
                else:
                    got = parse_arpa_lm(io.StringIO(text), t2i, base_e)
                norm = math.log10(math.e) if base_e else 1.0
                want = [dict() for _ in range(N)]
                for k in range(1, N + 1):
                    for v in by_k[k]:
                        key = v["g"][0] if k == 1 else tuple(v["g"])
                        want[k - 1][key] = (v["lp"] / norm) if k == N else (v["lp"] / norm, v["bo"] / norm)
                ok = len(got) == N
                for k in range(N):
                    if not ok or set(got[k]) != set(want[k]):
                        ok = False
                        break
                    for key in want[k]:
                        a, b = got[k][key], want[k][key]
                        a = a if isinstance(a, tuple) else (a,)
                        b = b if isinstance(b, tuple) else (b,)
                        if len(a) != len(b) or any(abs(x - y) > 1e-12 * max(1, abs(y)) for x, y in zip(a, b)):
                            ok = False
                if not ok:
                    bad("parse_arpa_lm", "entries_via_path" if via_path else "entries",
                        "parsed dictionaries differ from the listed entries (to_base_e=%r, %s)" % (base_e, "path" if via_path else "open file"), dict(arpa=text))
                    break
    except Exception as ex:
        bad("parse_arpa_lm", "exception", "raised %r" % ex)
    return out, "ok"


def run(ctx):
    ctx.rule = ("tables: every presence pattern of orders 1-2 over V<=3 (exhaustive TLC configs) + seeded random and extreme "
                "patterns for orders 3-4 (generated MC modules); per table every history of length T at every position; each "
                "table is built as a real LookupLanguageModel and compared along 5 evaluation paths + ARPA; non-trivial = "
                "table for which some evaluated n-gram backs off (value differs from its listed or unigram value); distinct by "
                "(universe, listed n-grams)")
    ctx.assumptions += ["log-probabilities / back-off weights are small negative integers (exact in float32)",
                        "tables whose highest order lists nothing are skipped (the constructor documents a ValueError)",
                        "ARPA: finite entries only (the format has no -inf literal the parser accepts)"]
    jobs = []
    for cfg, recs in run_tlc(ctx):
        if not recs:
            raise MachineryError("no tables exported for %s" % cfg["name"])
        for rec in recs:
            jobs.append((rec, cfg, ctx.rng.randrange(1 << 30)))
    results = par.pmap(check_table, jobs)
    skipped = 0
    for (rec, cfg, _), (out, status) in zip(jobs, results):
        if status != "ok":
            skipped += 1
            continue
        nh = len(rec["hists"]) * (cfg["T"] + 1) * cfg["V"]
        listed = {tuple(v["g"]): v["lp"] for v in rec["vals"]}
        backs = any(len(g) > 1 for g in listed) and len(listed) < sum((cfg["V"] + (0 if cfg["sos_in"] else 1)) ** k for k in range(1, cfg["N"] + 1))
        ctx.case(key=(cfg["name"], rec["fin"], rec["inf"]), nontrivial=backs, n=nh,
                 sample=dict(universe=cfg["name"], listed_finite=rec["fin"], listed_neg_inf=rec["inf"],
                             first_history=rec["hists"][0]) if ctx.rng.random() < 0.001 else None)
        ctx.traces += 1
        for sig, detail, case in out:
            ctx.violation(sig, detail, case)
    ctx.extra["tables_skipped_empty_highest_order"] = skipped
    ctx.exhaustive = True
    if not ctx.samples:
        rec, cfg, _ = jobs[len(jobs) // 2]
        ctx.samples.append(dict(universe=cfg["name"], listed_finite=rec["fin"], listed_neg_inf=rec["inf"], first_history=rec["hists"][0]))


def replay(ctx, case):
    cfg = case["cfg"]
    # recompute the expected values with TLC for exactly this table
    gdir = ctx.subdir("katz_replay")
    name = "KatzReplay"
    tabs = [({tuple(g) for g in case["fin"]}, {tuple(g) for g in case["inf"]})]
    write_gen_module(os.path.join(gdir, name + ".tla"), name, tabs)
    cfgp = os.path.join(gdir, name + ".cfg")
    tlc.write_cfg(cfgp, constants=dict(V=cfg["V"], N=cfg["N"], SosIn="TRUE" if cfg["sos_in"] else "FALSE", T=cfg["T"], Tables=("<-", "GenTables")),
                  invariants=["WellFormed", "IterIsRecursion", "Export"])
    res = tlc.run(os.path.join(gdir, name + ".tla"), cfgp, workers=1, lib=SPECS)
    tlc.require_ok(res, "Katz/replay")
    out, _ = check_table((res.records[0], cfg, ctx.seed))
    for sig, detail, c in out:
        print("  ", sig, detail)
        ctx.violation(sig, detail, c)


if __name__ == "__main__":
    sys.exit(main(PROP, "model_checking", run, replay))
