"""X01 (extra, beyond the listed properties) -- distributed use of TrainingStateController.

TrainCtlDist.tla: W ranks, collectives, only rank 0 writes (non-atomically), reads fenced by barriers;
TLC checks NoTornRead / ReadSeesOwnEpochs / NoDeadlock / Termination over every interleaving, and that
the same model without the fences violates NoTornRead (non-vacuity).
code -> spec: W real controllers run as cooperatively scheduled threads (ThreadDist, fake
torch.distributed with real collective semantics) on one state directory under adversarial and seeded
schedules; every collective, file-system mutation/read and finished update is an event; the traces are
validated by TrainCtlDistTrace.tla."""
import itertools
import json
import os
import shutil
import sys
import tempfile

from .. import SPECS, tlc
from ..harness import MachineryError, main
from . import _tc
from .c16 import namer, rows_for

PROP = "X01"


def one_run(workdir, W, vals, policy_name, seed, keep_lb):
    import random

    from ..doubles.fsinterposer import FsInterposer
    from ..doubles.threaddist import ThreadDist

    rng = random.Random(seed)
    if policy_name == "writer_last":
        policy = lambda runnable, step: max(runnable)
    elif policy_name == "writer_first":
        policy = lambda runnable, step: min(runnable)
    else:
        policy = lambda runnable, step: rng.choice(runnable)
    events = []
    td = ThreadDist(W, policy, events.append)
    p = dict(P=2, B=0, TH=1, RP=1, RB=0, RC=1, RTH=1, ne=0, EK=9)
    rows = rows_for(vals)
    d = tempfile.mkdtemp(dir=workdir)

    def prog(r):
        def f():
            sim = _tc.Sim(d, p, keep_lb=keep_lb)
            events.append(dict(rank=r, op="constructed"))
            for row in rows:
                mine = dict(row)
                # every rank sees a different local metric; their mean is the row's metric (exact on the grid)
                off = (r - (W - 1) / 2.0) * (1.0 if W % 2 else 0.5)
                mine["val"] = row["val"] + off
                mine["trn"] = row["trn"] + off
                sim.update(mine)
                info = sim.ctl.get_info(row["epoch"])
                events.append(dict(rank=r, op="updated", e=row["epoch"], val=int(round(info["val_met"] / _tc.UNIT * 4)),
                                   info="lr=%r|val=%r|trn=%r|cd=%d,%d,%d,%d" % (info["lr"], info["val_met"], info["train_met"],
                                                                                info["es_resume_cd"], info["es_patience_cd"],
                                                                                info["rlr_resume_cd"], info["rlr_patience_cd"])))
            sim.ctl.load_model_for_epoch(sim.model)
            events.append(dict(rank=r, op="loaded_best", w=int(round(float(sim.model.weight.detach().flatten()[0])))))
        return f

    try:
        def observe(ev):
            # unrelated library code may create directories of its own (caches); only the run's files count
            if ev["op"] == "makedirs" and not os.path.abspath(ev.get("raw", "")).startswith(os.path.abspath(d)):
                return
            td.point({k: v for k, v in ev.items() if k != "raw"})

        with FsInterposer(namer, observer=observe, reads=True):
            errs = td.run([prog(r) for r in range(W)])
    finally:
        shutil.rmtree(d, ignore_errors=True)
    norm = []
    for ev in events:
        norm.append(dict(rank=ev.get("rank", 0), op=ev["op"], idx=ev.get("idx", -1), e=ev.get("e", 0), val=ev.get("val", 0),
                         info=ev.get("info", ""), w=ev.get("w", 0)))
    return norm, [repr(e) if e is not None else None for e in errs]


def run(ctx):
    ctx.rule = ("W in {2,3} real controllers as scheduled threads x metric histories of 3 epochs over 3 levels x keep modes x "
                "schedules {rank 0 slowest, rank 0 fastest, seeded random}; each run is one trace validated by "
                "TrainCtlDistTrace.tla; non-trivial = trace with a read issued while another rank still had work to do; distinct "
                "by (W, history, keep mode, schedule)")
    ctx.assumptions += ["threads are scheduled cooperatively: a rank yields only at collectives and at intercepted file-system calls",
                        "this check is not tied to a listed property (extra coverage)"]
    mod = os.path.join(SPECS, "TrainCtlDist.tla")
    res = tlc.run(mod, os.path.join(SPECS, "TrainCtlDist_fenced.cfg"), workers=8, timeout=1800)
    tlc.require_ok(res, "TrainCtlDist/fenced")
    tlc.require_covered(res, ["Enter", "Leave", "BeginWrite", "EndWrite", "LocalUpdate", "Read"], "TrainCtlDist/fenced")
    ctx.add_tlc("TrainCtlDist/fenced", res)
    res = tlc.run(mod, os.path.join(SPECS, "TrainCtlDist_unfenced.cfg"), workers=4, timeout=1800, coverage=False)
    if res.ok:
        raise MachineryError("TrainCtlDist without fences does not violate NoTornRead: the invariant is vacuous")
    ctx.add_tlc("TrainCtlDist/unfenced (expected violation)", res, count_states=False)
    base = ctx.subdir("dist")
    traces = []
    hists = list(itertools.product((1, 2, 3), repeat=3))
    if ctx.quick:
        hists = ctx.rng.sample(hists, 6)
    for W in (2, 3):
        for vals in hists:
            for pol in ("writer_last", "writer_first", "random", "random"):
                keep_lb = ctx.rng.random() < 0.5
                seed = ctx.rng.randrange(1 << 30)
                case = dict(W=W, vals=list(vals), policy=pol, seed=seed, keep_lb=keep_lb)
                try:
                    evs, errs = one_run(base, W, list(vals), pol, seed, keep_lb)
                except Exception as ex:
                    ctx.violation(dict(site="TrainingStateController", kind="distributed_run_failed"), "run raised %r" % ex, case)
                    continue
                if any(errs):
                    ctx.violation(dict(site="TrainingStateController", kind="distributed_exception"),
                                  "a rank raised: %r" % (errs,), case)
                    continue
                traces.append(dict(tid=len(traces) + 1, W=W, events=evs, case=case))
    if not traces:
        raise MachineryError("no distributed traces recorded")
    path = os.path.join(ctx.workdir, "dist_traces.json")
    with open(path, "w") as f:
        json.dump([dict(tid=t["tid"], W=t["W"], events=t["events"]) for t in traces], f)
    upto = {}

    def on_rec(r):
        upto[r["tid"]] = max(upto.get(r["tid"], 0), r["upto"])

    res = tlc.run(os.path.join(SPECS, "TrainCtlDistTrace.tla"), os.path.join(SPECS, "TrainCtlDistTrace.cfg"), workers=1,
                  env={"TRACE_FILE": path}, timeout=3000, coverage=False, on_record=on_rec)
    tlc.require_ok(res, "TrainCtlDistTrace")
    ctx.add_tlc("TrainCtlDistTrace", res)
    for t in traces:
        n = len(t["events"])
        k = upto.get(t["tid"], 0)
        reads = [j for j, e in enumerate(t["events"]) if e["op"] in ("load", "read")]
        ctx.case(key=(t["W"], t["case"]["vals"], t["case"]["policy"], t["case"]["seed"]), nontrivial=bool(reads), n=1,
                 sample=dict(W=t["W"], case=t["case"], first_events=t["events"][:12]) if t["tid"] % 37 == 1 else None)
        if k == n:
            ctx.traces += 1
            continue
        ev = t["events"][k]
        kind = {"load": "torn_or_stale_read", "read": "torn_or_stale_read", "updated": "ranks_disagree",
                "loaded_best": "not_best_epoch"}.get(ev["op"], "non_writer_mutation" if ev["rank"] != 0 and ev["op"] in
                                                    ("makedirs", "mktemp", "write", "replace", "append", "remove") else "collective")
        ctx.violation(dict(site="TrainingStateController(distributed)", kind=kind),
                      "trace rejected at event %d of %d: %r (W=%d, schedule %s)" % (k + 1, n, ev, t["W"], t["case"]["policy"]),
                      dict(case=t["case"], rejected_event=ev, prefix=t["events"][max(0, k - 8):k]))
    ctx.exhaustive = False


def replay(ctx, case):
    c = case["case"]
    evs, errs = one_run(ctx.subdir("dist"), c["W"], c["vals"], c["policy"], c["seed"], c["keep_lb"])
    print("replayed %d events, errors %r; validate by re-running the check" % (len(evs), errs))


if __name__ == "__main__":
    sys.exit(main(PROP, "model_checking", run, replay))
