"""Directory part of C10: build a temporary SpectDataSet directory from an abstract case, run the
chunk-torch-spect-data-dir command in-process, re-read and project its output, compare with the directory the
specification (Slicer.tla) prescribes: one file per NAME (Slicer.tla NameOf / FileGroups for the abstract form of
--format-utt), holding any one of the chunks that format to that name (TLC has checked that a name carrying the
window determines the chunk, FilesOK).  The command is run with and without --quiet.  Lives in its own module so
that worker processes can import it."""
import os
import shutil
import traceback
import warnings

import torch

from . import _ps

LABEL = {1: 4, 2: 9, 3: 0}  # spec label -> alignment id
PAD_CONST = -3  # --pad-constant


# abstract format (Slicer.tla Fmts) -> concrete --format-utt strings (None = the command's default)
FORMATS = {
    "se": [None, "{utt_id}@{start}@{end}"],
    "ise": ["{utt_id}@{idx}@{start}@{end}"],
    "i": ["{utt_id}.{idx}"],
    "s": ["{utt_id}_{start}"],
}
DEFAULT_FORMAT = "{utt_id}.{start:05d}.{end:05d}"


def token_kind(got_ids, exp_ids):
    """the kept token ids differ: only their order ('token_order') or the tokens themselves ('tokens')"""
    return "token_order" if sorted(got_ids) == sorted(exp_ids) else "tokens"


def _classify_tokens(got, exp, a, retain):
    """got/exp: lists of [id, start, end] with equal ids -> None or the kind of boundary failure"""
    if got == exp:
        return None
    if not retain and a != 0 and all(g[1] == x[1] + 2 * a and g[2] == x[2] + 2 * a for g, x in zip(got, exp)):
        return "boundary_plus_slice_start"  # observed = original + slice_start (original - slice_start documented)
    return "boundary"


def _feat_of(ui, T):
    t = torch.arange(T, dtype=torch.float32).view(T, 1)
    return 100.0 * (ui + 1) + 10.0 * (t + 1) + torch.arange(2, dtype=torch.float32).view(1, 2)


def _dir_exception_kind(case, ex_type):
    o = case["opt"]
    if o["policy"] == "ali" and any(u["T"] >= 1 for u in case["src"]):
        return "exception_ali_full_length"  # the command never passes in_lens
    if o["policy"] == "ref" and any(len(u["ref"]) >= 1 for u in case["src"]):
        return "exception_ref_other_lens_omitted"  # the command never passes other_lens
    if o["padmode"] == "replicate" and _dir_pad_gt_T(case):
        return "exception_replicate_pad_gt_T"
    if o["policy"] == "fixed" and o["wt"] == "symmetric" and o["padmode"] == "reflect" and ex_type == "NotImplementedError":
        # the surplus trailing window (middle >= T) of the fixed/symmetric policy without in_lens needs
        # more reflect padding than the utterance is long
        return "exception_extra_window_fixed_symmetric_no_in_lens"
    return "exception"


def _dir_pad_gt_T(case):
    T_of = {uid: u["T"] for uid, u in zip(case["utts"], case["src"])}
    return any(max(0, -ch["s"]) > T_of[ch["utt"]] or max(0, ch["e"] - T_of[ch["utt"]]) > T_of[ch["utt"]]
               for ch in case["chunks"])


def eval_dir_case(case, workdir):
    """Build the directory, run the command, re-read its output, compare with the spec's chunks.
    returns (failures, info)"""
    from pydrobert.torch import command_line as CL

    o = case["opt"]
    prefix, suffix, fmt = case["prefix"], case["suffix"], case["fmt"]
    if fmt not in FORMATS[case["fmt_kind"]]:
        raise RuntimeError("format %r is not a realisation of the abstract format %r" % (fmt, case["fmt_kind"]))
    root = os.path.join(workdir, "d%d" % case["salt"])
    shutil.rmtree(root, ignore_errors=True)
    in_dir, out_dir = os.path.join(root, "in"), os.path.join(root, "out")
    os.makedirs(os.path.join(in_dir, "feat"))
    if case["hasAli"]:
        os.makedirs(os.path.join(in_dir, "ali"))
    if case["hasRef"]:
        os.makedirs(os.path.join(in_dir, "ref"))
    names, feats = {}, {}
    for uid, u in zip(case["utts"], case["src"]):
        name = "utt%d" % uid
        names[uid] = name
        feats[uid] = _feat_of(uid, u["T"])
        torch.save(feats[uid], os.path.join(in_dir, "feat", prefix + name + suffix))
        if case["hasAli"]:
            torch.save(torch.tensor([LABEL[a] for a in u["ali"]], dtype=torch.long),
                       os.path.join(in_dir, "ali", prefix + name + suffix))
        if case["hasRef"]:
            torch.save(torch.tensor(u["ref"], dtype=torch.long).view(-1, 3),
                       os.path.join(in_dir, "ref", prefix + name + suffix))
    args = [in_dir, out_dir, "--num-workers", "0", "--policy", o["policy"], "--lobe-size", str(o["lobe"]),
            "--window-type", o["wt"]]
    if case["quiet"]:
        args.append("--quiet")
    if o["padmode"] != "none":
        args += ["--pad-mode", o["padmode"], "--pad-constant", str(PAD_CONST)]
    if o["partial"]:
        args.append("--partial-tokens")
    if o["retain"]:
        args.append("--retain-token-boundaries")
    if prefix:
        args += ["--file-prefix", prefix]
    if suffix != ".pt":
        args += ["--file-suffix", suffix]
    if fmt:
        args += ["--format-utt", fmt]
    fmt_ = fmt or DEFAULT_FORMAT
    info = dict(validate_disagrees=0)
    try:
        with warnings.catch_warnings():
            warnings.simplefilter("ignore")
            rc = CL.chunk_torch_spect_data_dir(args)
    except Exception as ex:
        shutil.rmtree(root, ignore_errors=True)
        return [(_dir_exception_kind(case, type(ex).__name__), "%s: %s" % (type(ex).__name__, str(ex)[:200]))], info
    if rc:
        shutil.rmtree(root, ignore_errors=True)
        return [("exit_code", "command returned %r" % (rc,))], info
    # expected directory, from the spec's file groups: name -> the chunks the documentation allows in that file
    exp = {}
    for g in case["files"]:
        cands = [case["chunks"][j - 1] for j in g["any"]]
        concrete = {fmt_.format(utt_id=names[ch["utt"]], idx=ch["idx"], start=ch["s"], end=ch["e"]) for ch in cands}
        if len(concrete) != 1 or next(iter(concrete)) in exp:
            raise RuntimeError("format %r does not realise the abstract format %r: group %s gives names %s" % (
                fmt_, case["fmt_kind"], g["name"], sorted(concrete)))
        uniq = []
        for ch in cands:
            if not any(all(ch[k] == x[k] for k in ("feat", "ali", "ref")) for x in uniq):
                uniq.append(ch)
        if g["same"] != (len(uniq) == 1):
            raise RuntimeError("exported file group %s: 'same' flag disagrees with the exported chunks" % (g["name"],))
        exp[next(iter(concrete))] = uniq
    if sum(len(g["any"]) for g in case["files"]) != len(case["chunks"]):
        raise RuntimeError("exported file groups do not partition the chunks")
    fails = []
    suffix_pad = "_replicate_pad_gt_T" if o["padmode"] == "replicate" and _dir_pad_gt_T(case) else ""

    def listing(sub):
        d = os.path.join(out_dir, sub)
        if not os.path.isdir(d):
            return None
        return sorted(f[len(prefix):len(f) - len(suffix)] for f in os.listdir(d)
                      if f.startswith(prefix) and f.endswith(suffix))

    got_names = listing("feat")
    if got_names is None:
        got_names = []
    if sorted(exp) != got_names:
        missing, extra = sorted(set(exp) - set(got_names)), sorted(set(got_names) - set(exp))
        kind = "chunks"
        if (o["policy"] == "fixed" and o["wt"] == "symmetric" and o["padmode"] != "none" and not missing
                and len(extra) <= len(case["utts"])):
            kind = "extra_window_fixed_symmetric_no_in_lens"
        fails.append((kind, "chunk set differs: missing %s, unexpected %s" % (missing, extra)))
    for sub, has in (("ali", case["hasAli"]), ("ref", case["hasRef"])):
        lst = listing(sub)
        if has and lst != got_names:
            fails.append(("chunks", "%s/ holds %s but feat/ holds %s" % (sub, lst, got_names)))
        if not has and lst:
            fails.append(("chunks", "%s/ written although the source has none" % sub))
    inv_label = {v: k for k, v in LABEL.items()}

    def against(name, ch, f, a, rr):
        """the file `name` (projected feat / ali / ref) against one chunk the spec allows there"""
        out = []
        got_feat = _ps.project_row(feats[ch["utt"]], f, float(PAD_CONST))
        if got_feat != ch["feat"]:
            kind = "feat" + suffix_pad
            other = [x for x in case["chunks"] if x["utt"] == ch["utt"] and x["feat"] == got_feat and x["feat"]
                     and (x["s"], x["e"]) != (ch["s"], ch["e"])]
            if other and not suffix_pad:
                kind = "file_holds_other_window"  # the frames of another window of the same utterance
            out.append((kind, "%s: frames %s, expected %s (0 = pad constant)%s" % (
                name, got_feat, ch["feat"],
                "; these are the frames of window [%d, %d)" % (other[0]["s"], other[0]["e"]) if other else "")))
        if a is not None:
            got_ali = [0 if v == PAD_CONST else inv_label.get(v, -1) for v in a.tolist()]
            if got_ali != ch["ali"]:
                out.append(("ali" + suffix_pad, "%s: alignment %s, expected %s" % (name, got_ali, ch["ali"])))
        if rr is not None:
            got_ref = rr.tolist()
            if [t[0] for t in got_ref] != [t[0] for t in ch["ref"]]:
                out.append((token_kind([t[0] for t in got_ref], [t[0] for t in ch["ref"]]),
                            "%s: tokens %s, expected %s" % (name, got_ref, ch["ref"])))
            else:
                kind = _classify_tokens(got_ref, ch["ref"], ch["s"], o["retain"])
                if kind:
                    out.append((kind, "%s: tokens %s, expected %s" % (name, got_ref, ch["ref"])))
        return out

    for name in got_names:
        cands = exp.get(name)
        if cands is None:
            continue
        f = torch.load(os.path.join(out_dir, "feat", prefix + name + suffix))
        if f.dim() != 2 or f.size(1) != 2 or f.dtype != torch.float32:
            fails.append(("shape", "%s: feat %s %s" % (name, tuple(f.shape), f.dtype)))
            continue
        a = rr = None
        if case["hasAli"] and os.path.exists(os.path.join(out_dir, "ali", prefix + name + suffix)):
            a = torch.load(os.path.join(out_dir, "ali", prefix + name + suffix))
            if a.dim() != 1 or a.dtype != torch.long:
                fails.append(("shape", "%s: ali %s %s" % (name, tuple(a.shape), a.dtype)))
                continue
        if case["hasRef"] and os.path.exists(os.path.join(out_dir, "ref", prefix + name + suffix)):
            rr = torch.load(os.path.join(out_dir, "ref", prefix + name + suffix))
            if rr.dim() != 2 or rr.size(1) != 3 or rr.dtype != torch.long:
                fails.append(("shape", "%s: ref %s %s" % (name, tuple(rr.shape), rr.dtype)))
                continue
        # accepted iff the file agrees with one of the allowed chunks; otherwise report the nearest one
        # (fewest failed parts; a candidate failing only by the recorded boundary sign first)
        best = None
        for ch in cands:
            out = against(name, ch, f, a, rr)
            rank = (len([k for k, _ in out if k != "boundary_plus_slice_start"]), len(out))
            if best is None or rank < best[0]:
                best = (rank, out)
            if not out:
                break
        fails.extend(best[1])
    if not fails and got_names and not o["partial"] and not o["retain"]:
        # informational cross-check with the library's own validator (the verdict above is the spec's)
        try:
            from pydrobert.torch import data

            with warnings.catch_warnings():
                warnings.simplefilter("ignore")
                data.validate_spect_data_set(data.SpectDataSet(out_dir, file_prefix=prefix, file_suffix=suffix,
                                                               suppress_alis=False, tokens_only=False))
        except Exception:
            info["validate_disagrees"] += 1
    shutil.rmtree(root, ignore_errors=True)
    return fails, info




def run_shard(path_in, path_out, workdir):
    """worker process: evaluate the cases of one shard file"""
    import json

    torch.set_num_threads(1)
    with open(path_in) as f:
        cases = json.load(f)
    out = []
    for case in cases:
        try:
            fails, info = eval_dir_case(case, workdir)
            out.append(dict(fails=fails, info=info))
        except Exception:
            out.append(dict(error=traceback.format_exc()))
    with open(path_out, "w") as f:
        json.dump(out, f)


def eval_dir_cases(cases, workdir, nproc):
    """evaluate many cases, spread over `nproc` fresh python processes (one command run costs 10-20 ms of
    file traffic); returns a list of (failures, info) in order.  Raises RuntimeError if a worker failed."""
    import json
    import subprocess
    import sys

    if nproc <= 1 or len(cases) < 64:
        return [eval_dir_case(c, workdir) for c in cases]
    shards = [cases[i::nproc] for i in range(nproc)]
    procs = []
    for i, shard in enumerate(shards):
        pin, pout = os.path.join(workdir, "shard%d.in.json" % i), os.path.join(workdir, "shard%d.out.json" % i)
        with open(pin, "w") as f:
            json.dump(shard, f)
        procs.append((subprocess.Popen([sys.executable, "-m", "vf.props._slicerdir", pin, pout, workdir],
                                       stdout=subprocess.PIPE, stderr=subprocess.STDOUT, text=True), pout))
    results = [None] * len(cases)
    for i, (proc, pout) in enumerate(procs):
        log, _ = proc.communicate()
        if proc.returncode != 0 or not os.path.exists(pout):
            raise RuntimeError("directory replay worker %d failed (exit %s):\n%s" % (i, proc.returncode, log[-2000:]))
        with open(pout) as f:
            out = json.load(f)
        for j, o in enumerate(out):
            if "error" in o:
                raise RuntimeError("directory replay crashed:\n%s" % o["error"])
            results[i + j * nproc] = ([tuple(x) for x in o["fails"]], o["info"])
    return results


if __name__ == "__main__":
    import sys

    run_shard(sys.argv[1], sys.argv[2], sys.argv[3])
