"""C09 -- variable-length padding and chunking equal per-sequence pad-and-slice.

spec -> code: every behaviour of PadSlice.tla (exhaustive over lengths, pad amounts beyond the time
dimension, slices wholly left / right / inside the padding / empty / inverted, the three modes, every
mask; TLC has checked that the concatenation form, the virtual-index form and the cell-by-cell machine
agree) is replayed through functional.pad_variable / chunk_by_slices / pad_masked_sequence (and the
modules) in seeded ragged batches; valid part, reported lengths and (for compaction) filler compared
exactly.

code -> spec: modules.RandomShift is run under many seeds; each sequence of each call is one trace
(reported length + projected output row) that PadSliceTrace.tla must accept through the Draw / WriteCell
actions of the specification."""
import json
import os
import sys

import torch

from .. import SPECS, tlc
from ..harness import MachineryError, main
from . import _ps

PROP = "C09"
MOD = os.path.join(SPECS, "PadSliceMC.tla")
TRACE_MOD = os.path.join(SPECS, "PadSliceTrace.tla")
TRACE_CFG = os.path.join(SPECS, "PadSliceTrace.cfg")
ACTIONS = ["Init", "Draw", "WriteCell", "Scan", "Fill"]
VALUE = -7.5  # the padding value: never equal to an element (elements are positive integers)
SITE = {"pad": "pad_variable", "slice": "chunk_by_slices", "mask": "pad_masked_sequence"}
# mirrors PropsQuick / PropsThorough of PadSliceMC.tla (only used to build inputs)
PROPS = {"quick": [(0, 1), (1, 2), (1, 1), (3, 2)],
         "thorough": [(0, 1), (1, 4), (1, 2), (3, 4), (1, 1), (3, 2), (2, 1)]}


# ------------------------------------------------------------------ spec -> code
def _pads(r, op):
    if op == "pad":
        return r["a"], r["b"]
    if r["b"] <= r["a"]:
        return 0, 0
    return max(0, -r["a"]), max(0, r["b"] - r["len"])


def eval_batch(case):
    """Run one batch described by a JSON-able case; returns (failures, info) where failures is a list
    of (kind, detail, row index or None)."""
    from pydrobert.torch import functional as F, modules as M

    op, mode, T, feat, salt = case["op"], case["mode"], case["T"], tuple(case["feat"]), case["salt"]
    rows = case["rows"]
    N = len(rows)
    x = _ps.make_x(N, T, feat, salt)
    lens = torch.tensor([r["len"] for r in rows], dtype=torch.long)
    fails, info = [], dict(informational_padding_cells=0)
    suffix = ""
    if op in ("pad", "slice") and mode == "replicate":
        if max(max(_pads(r, op)) for r in rows) > T:
            suffix = "_replicate_pad_gt_T"  # pad amount beyond the time dimension of the batch
    if op == "slice" and T == 0:
        suffix = "_zero_T"
    try:
        if op == "pad":
            pad = torch.tensor([[r["a"] for r in rows], [r["b"] for r in rows]], dtype=torch.long)
            if case["module"]:
                got = _ps.quiet(M.PadVariable(mode, VALUE), x, lens, pad)
            else:
                got = _ps.quiet(F.pad_variable, x, lens, pad, mode, VALUE)
            got_lens = None
        elif op == "slice":
            sl = torch.tensor([[r["a"], r["b"]] for r in rows], dtype=torch.long).view(N, 2)
            if case.get("colmajor"):  # the same bounds as a column-major view, e.g. torch.stack([starts, ends]).t()
                sl = torch.stack([sl[:, 0].clone(), sl[:, 1].clone()]).t()
            keep = [("slices", sl, sl.clone()), ("x", x, x.clone()), ("lens", lens, lens.clone())]
            lens_arg = lens if case["lens_given"] else None
            if case["module"]:
                got, got_lens = _ps.quiet(M.ChunkBySlices(mode, VALUE), x, sl, lens_arg)
            else:
                got, got_lens = _ps.quiet(F.chunk_by_slices, x, sl, lens_arg, mode, VALUE)
        else:
            mask = torch.zeros(N, T, dtype=torch.bool)
            for i, r in enumerate(rows):
                for t, b in enumerate(r["mask"]):
                    mask[i, t] = bool(b)
                for t in range(r["len"], T):  # beyond this row's positions: unselected
                    mask[i, t] = False
            bf = case["batch_first"]
            xi, mi = (x, mask) if bf else (x.transpose(0, 1).contiguous(), mask.t().contiguous())
            if case["module"]:
                got, got_lens = _ps.quiet(M.PadMaskedSequence(bf, VALUE), xi, mi)
            else:
                got, got_lens = _ps.quiet(F.pad_masked_sequence, xi, mi, bf, VALUE)
            if not bf:
                got = got.transpose(0, 1)
    except Exception as ex:
        return [("exception" + suffix, "%s: %s" % (type(ex).__name__, str(ex)[:200]), None)], info
    # the caller's tensors are inputs: the bounds the caller asked for must still be there for the next call (features,
    # then alignments, are chunked with the same slices)
    for name, t, t0 in (keep if op == "slice" else ()):
        if not torch.equal(t, t0):
            fails.append(("arguments_mutated", "chunk_by_slices changed its argument `%s` in place: %s -> %s" % (
                name, t0.tolist() if t0.numel() < 40 else "...", t.tolist() if t.numel() < 40 else "..."), None))
            return fails, info
    # shapes
    want_T = max([r["n"] for r in rows] + [0]) if op != "mask" else T
    if got.dim() != 2 + len(feat) or got.shape[0] != N or tuple(got.shape[2:]) != feat or (
            got.shape[1] < want_T if op != "mask" else got.shape[1] != T):
        if op == "slice" and got_lens is not None and got_lens.shape == (N,) and any(
                int(got_lens[i]) != rows[i]["n"] for i in range(N)):
            i = [i for i in range(N) if int(got_lens[i]) != rows[i]["n"]][0]
            return [("length" + suffix, "row %d: reported length %d, requested %d" % (
                i, int(got_lens[i]), rows[i]["n"]), i)], info
        return [("shape" + suffix, "output shape %s for N=%d, longest row %d, feat %s" % (
            tuple(got.shape), N, want_T, feat), None)], info
    if got_lens is not None and got_lens.shape != (N,):
        return [("shape" + suffix, "lengths of shape %s" % (tuple(got_lens.shape),), None)], info
    for i, r in enumerate(rows):
        n = r["n"]
        if got_lens is not None and int(got_lens[i]) != n:
            fails.append(("length" + suffix, "row %d: reported length %d, requested %d" % (i, int(got_lens[i]), n), i))
            continue
        if op == "mask":
            exp = _ps.cells_to_tensor(x[i], r["out"] + [0] * (T - len(r["out"])), VALUE)
            g = got[i]
            if not torch.equal(g[:n], exp[:n]):
                fails.append(("value", "row %d: selected part %s, expected %s" % (
                    i, _ps.project_row(x[i], g[:n], VALUE), r["out"][:n]), i))
            elif not torch.equal(g[n:], exp[n:]):
                fails.append(("padding", "row %d: filler %s is not the padding value" % (i, g[n:].tolist()), i))
            continue
        exp = _ps.cells_to_tensor(x[i], r["out"], VALUE)
        g = got[i, :n]
        if not torch.equal(g, exp):
            fails.append(("value" + suffix, "row %d (len %d, %s %d,%d, %s): valid part %s, expected %s" % (
                i, r["len"], op, r["a"], r["b"], mode, _ps.project_row(x[i], g, VALUE), r["out"]), i))
        elif not bool((got[i, n:] == VALUE).all()):
            info["informational_padding_cells"] += 1  # cells beyond the valid part: the statement is silent
    return fails, info


def _row(r):
    return dict(len=r["len"], a=r["a"], b=r["b"], mask=r["mask"], out=r["out"], n=r["n"])


def _nontrivial(r):
    return r["n"] > 0 and r["out"] != list(range(1, r["len"] + 1))


def _replay_group(ctx, op, mode, recs, passes):
    site = SITE[op]
    feats = [(), (2,)] if ctx.quick else [(), (2,), (2, 3)]
    for p in range(passes):
        variants = ["given"]
        if op == "slice":
            variants.append("omitted")
        for variant in variants:
            if variant == "given":
                pools = [recs]
            else:  # lens omitted <=> every sequence has the full length T (T >= 1)
                by_len = {}
                for r in recs:
                    if r["len"] >= 1:
                        by_len.setdefault(r["len"], []).append(r)
                pools = [by_len[k] for k in sorted(by_len)]
            for pool in pools:
                for batch in _ps.split_batches(ctx.rng, pool):
                    maxlen = max(r["len"] for r in batch)
                    T = maxlen if variant == "omitted" else maxlen + ctx.rng.choice([0, 0, 1, 2])
                    case = dict(op=op, mode=mode, T=T, feat=list(ctx.rng.choice(feats)), salt=ctx.rng.randrange(1 << 20),
                                lens_given=variant == "given", module=ctx.rng.random() < 0.3,
                                batch_first=ctx.rng.random() < 0.5, colmajor=ctx.rng.random() < 0.4,
                                rows=[_row(r) for r in batch])
                    _judge(ctx, site, case)
                    ctx.traces += len(batch)


def _long_mask_rows(ctx, recs, count):
    """Selection distributes over concatenation: the mask m1 ++ m2 ++ ... selects out1 ++ (out2 shifted by len1) ++ ...
    Rows of 17 .. ~60 positions are built that way from the model's behaviours (real utterances are never 5 frames)."""
    rows = []
    pool = [r for r in recs if r["len"] >= 1]
    for _ in range(count):
        mask, out, off = [], [], 0
        target = ctx.rng.choice([17, 20, 33, 48, 64])
        while off < target:
            r = ctx.rng.choice(pool)
            mask += list(r["mask"][:r["len"]])
            out += [k + off for k in r["out"][:r["n"]]]
            off += r["len"]
        rows.append(dict(len=off, a=0, b=0, mask=mask, out=out, n=len(out)))
    return rows


def _replay_long_masks(ctx, recs, batches):
    for _ in range(batches):
        rows = _long_mask_rows(ctx, recs, ctx.rng.randint(1, 6))
        T = max(r["len"] for r in rows) + ctx.rng.choice([0, 0, 3])
        case = dict(op="mask", mode="constant", T=T, feat=list(ctx.rng.choice([(), (2,)])), salt=ctx.rng.randrange(1 << 20),
                    lens_given=True, module=ctx.rng.random() < 0.3, batch_first=ctx.rng.random() < 0.5, rows=rows)
        _judge(ctx, SITE["mask"], case)
        ctx.traces += len(rows)


def _replay_full_masks(ctx):
    """masks that select EVERYTHING (every row as long as the batch): N x T for N, T in 1..4 (N = T and N != T), both
    layouts, function and module -- compaction is then the identity, with length T"""
    for N in (1, 2, 3, 4):
        for T in (1, 2, 3, 4):
            for bf in (False, True):
                for module in (False, True):
                    rows = [dict(len=T, a=0, b=0, mask=[1] * T, out=list(range(1, T + 1)), n=T) for _ in range(N)]
                    case = dict(op="mask", mode="constant", T=T, feat=list(ctx.rng.choice([(), (2,)])),
                                salt=ctx.rng.randrange(1 << 20), lens_given=True, module=module, batch_first=bf, rows=rows)
                    _judge(ctx, SITE["mask"], case)
                    ctx.traces += N


def _judge(ctx, site, case, depth=0):
    fails, info = eval_batch(case)
    ctx.case(n=len(case["rows"]))
    for k, v in info.items():
        if v:
            ctx.count(k, v)
    if not fails:
        return
    for kind, detail, i in fails:
        ctx.violation(dict(site=site, kind=kind, mode=case["mode"]), detail, case)
    # keep judging the rows of a batch that raised: each one alone, with its own time dimension
    if depth == 0 and len(case["rows"]) > 1 and fails[0][2] is None:
        for r in case["rows"]:
            T = r["len"] if not case["lens_given"] else r["len"] + (case["salt"] + r["a"]) % 2
            sub = dict(case, rows=[r], T=T)
            _judge(ctx, site, sub, depth=1)


# ------------------------------------------------------------------ code -> spec (RandomShift)
def _shift_call(case):
    """Run RandomShift once; returns the list of per-row events (without tid) or raises."""
    from pydrobert.torch import modules as M

    lens_l = case["lens"]
    N, T, feat = len(lens_l), case["T"], tuple(case["feat"])
    x = _ps.make_x(N, T, feat, case["salt"])
    lens = torch.tensor(lens_l, dtype=torch.long)
    pl, pr = case["pl"], case["pr"]
    fl, fr = pl[0] / pl[1], pr[0] / pr[1]
    ctor_error = None
    try:
        # the documented forms: one float for both sides, or a pair (left, right)
        layer = M.RandomShift(fl if (fl == fr and case["salt"] % 2) else (fl, fr), case["mode"], VALUE)
        layer.train(case["training"])
    except Exception as ex:
        layer, ctor_error = None, ex
    torch.manual_seed(case["seed"])
    if layer is not None:
        out, out_lens = _ps.quiet(layer, x, lens)
    else:  # keep validating the draws through the functional entry point
        from pydrobert.torch import functional as F

        out, out_lens = _ps.quiet(F.random_shift, x, lens, (fl, fr), case["mode"], VALUE, case["training"])
    case["_ctor_error"] = None if ctor_error is None else "%s: %s" % (type(ctor_error).__name__, str(ctor_error)[:200])
    identity = bool(out.shape == x.shape and torch.equal(out, x) and torch.equal(out_lens, lens))
    events = []
    for n in range(N):
        ol = int(out_lens[n])
        row = out[n, : max(ol, 0)]
        events.append(dict(len=lens_l[n], mode=case["mode"], pl=list(pl), pr=list(pr), training=case["training"],
                           out_len=ol, out=_ps.project_row(x[n, : lens_l[n]], row, VALUE), identity=identity))
    return events


def _shift_suffix(case):
    big = max(case["pl"][0] / case["pl"][1], case["pr"][0] / case["pr"][1]) * max(case["lens"] + [0])
    return "_replicate_pad_gt_T" if case["mode"] == "replicate" and big > case["T"] else ""


def _validate_traces(ctx, traces, name):
    path = os.path.join(ctx.workdir, name + ".json")
    with open(path, "w") as f:
        json.dump(traces, f)
    res = tlc.run(TRACE_MOD, TRACE_CFG, workers=1, env={"TRACE_FILE": path}, timeout=1800)
    accepted = {r["tid"] for r in res.records}
    if res.ok != (len(accepted) == len(traces)):
        raise MachineryError("trace validation verdict inconsistent: ok=%s accepted=%d of %d\n%s" % (
            res.ok, len(accepted), len(traces), res.stdout[-2000:]))
    if not res.ok and "Post" not in (res.error or ""):
        raise tlc.TLCFailure("PadSliceTrace failed other than by rejection: %s\n%s" % (res.error, res.stdout[-2000:]))
    return res, accepted


def _random_shift(ctx):
    props = PROPS[ctx.tier]
    calls = 22 if ctx.quick else 60
    traces, meta = [], {}
    k = 0
    for mode in ("constant", "reflect", "replicate"):
        for pl in props:
            for pr in props:
                if mode == "reflect" and (pl[0] > pl[1] or pr[0] > pr[1]):
                    continue  # documented: the constructor refuses proportions above 1 with reflect
                for _ in range(calls):
                    N = ctx.rng.choice([1, 2, 3])
                    T = ctx.rng.randint(1, 5)
                    lo = 0 if mode == "constant" else 1
                    k += 1
                    case = dict(op="shift", mode=mode, pl=list(pl), pr=list(pr), T=T,
                                feat=list(ctx.rng.choice([(), (2,)])), salt=ctx.rng.randrange(1 << 20),
                                lens=[ctx.rng.randint(lo, T) for _ in range(N)],
                                training=ctx.rng.random() < 0.85, seed=ctx.seed * 1000003 + k)
                    try:
                        events = _shift_call(case)
                    except Exception as ex:
                        ctx.case(n=N)
                        ctx.violation(dict(site="RandomShift", kind="exception" + _shift_suffix(case), mode=mode),
                                      "%s: %s" % (type(ex).__name__, str(ex)[:200]), case)
                        continue
                    if case.pop("_ctor_error", None):
                        ctx.case(n=1)
                        ctx.violation(dict(site="RandomShift", kind="exception_prop_pair_constructor", mode=mode),
                                      "RandomShift((%r, %r), %r) cannot be constructed: the documented pair form of "
                                      "`prop` raises" % (pl[0] / pl[1], pr[0] / pr[1], mode), dict(case, ctor_only=True))
                    for n, ev in enumerate(events):
                        ev["tid"] = len(traces) + 1
                        traces.append(ev)
                        meta[ev["tid"]] = (case, n)
                        ctx.case(key=("shift", mode, pl, pr, ev["len"], ev["out_len"], ev["training"]),
                                 nontrivial=ev["out_len"] > ev["len"],
                                 sample=dict(random_shift=ev) if len(traces) % 997 == 1 else None)
    _ps.need(traces, "RandomShift produced no traces")
    res, accepted = _validate_traces(ctx, traces, "shift_traces")
    ctx.add_tlc("PadSliceTrace", res)
    ctx.traces += len(traces)
    ctx.extra["random_shift_traces"] = dict(validated=len(traces), accepted=len(accepted),
                                            padded=sum(1 for e in traces if e["out_len"] > e["len"]),
                                            eval_mode=sum(1 for e in traces if not e["training"]))
    for ev in traces:
        if ev["tid"] in accepted:
            continue
        case, n = meta[ev["tid"]]
        ctx.violation(dict(site="RandomShift", kind="trace_rejected" + _shift_suffix(case), mode=case["mode"]),
                      "sequence %d of the call (len %d, proportions %s/%s, %s, training=%s): reported length %d, "
                      "row %s is no behaviour of the shift specification" % (
                          n, ev["len"], ev["pl"], ev["pr"], ev["mode"], ev["training"], ev["out_len"], ev["out"]),
                      dict(case, row=n))


def _selftest(ctx, recs):
    """binding self-test: a corrupted expectation / a corrupted trace must be noticed"""
    r = next(r for r in recs if r["op"] == "slice" and r["mode"] == "constant" and len(set(r["out"])) >= 2 and r["len"] >= 2)
    bad = dict(_row(r), out=list(reversed(r["out"])))
    case = dict(op="slice", mode="constant", T=r["len"] + 1, feat=[], salt=1, lens_given=True, module=False,
                batch_first=True, rows=[bad])
    fails, _ = eval_batch(case)
    _ps.need(any(k.startswith("value") for k, _, _ in fails), "self-test: a corrupted expected row was not noticed")
    good = dict(tid=1, len=3, mode="constant", pl=[1, 2], pr=[1, 2], training=True, out_len=4, out=[0, 1, 2, 3], identity=False)
    late = dict(good, tid=2, out_len=5, out=[0, 0, 1, 2, 3])          # 2 > floor(3 / 2) on the left
    torn = dict(good, tid=3, out=[0, 1, 3, 2])                        # original not embedded unchanged
    res, accepted = _validate_traces(ctx, [good, late, torn], "selftest_traces")
    _ps.need(accepted == {1}, "self-test: the trace specification accepted %s (expected only trace 1)" % sorted(accepted))
    ctx.extra["selftest"] = "corrupted expectation and corrupted traces rejected"


# ------------------------------------------------------------------ entry points
def run(ctx):
    ctx.rule = ("every behaviour of PadSlice.tla: (length, left pad, right pad, mode), (length, slice start, slice end, "
                "mode) and (length, mask), restricted to pads legal for the mode, plus masks of 17..~70 positions "
                "concatenated from the model's masks (selection distributes over concatenation), replayed in seeded ragged batches "
                "(time dimension = longest row + 0..2 cells of distinct garbage, feature dims () / (2,) / (2,3), lens "
                "given or omitted, functional and module entry points); RandomShift: recorded runs validated by "
                "PadSliceTrace.  Non-trivial = non-empty output that differs from the untouched sequence (padding, "
                "cropping or compaction actually happened), distinct by case; for RandomShift a sequence that was "
                "actually lengthened")
    ctx.assumptions += [
        "elements are pairwise distinct positive integers stored as float32; the padding value is -7.5",
        "reflect / replicate cases are restricted to the documented legal pads (reflect: pad < length; replicate: "
        "length >= 1); the documented exceptions outside that range are not judged",
        "cells beyond the valid part of pad_variable / chunk_by_slices outputs are not judged (counted as informational)",
        "RandomShift proportions are dyadic (0, 1/4, 1/2, 3/4, 1, 3/2, 2) so that proportion * length is exact in float32",
    ]
    cfg = os.path.join(SPECS, "PadSlice_quick.cfg" if ctx.quick else "PadSlice_thorough.cfg")
    res = tlc.run(MOD, cfg, workers=16, timeout=1800)
    tlc.require_ok(res, "PadSlice")
    tlc.require_covered(res, ACTIONS, "PadSlice")
    ctx.add_tlc("PadSlice", res)
    recs = res.records
    _ps.need(recs, "PadSlice export produced no behaviours")
    groups = {}
    for r in recs:
        r["out"] = _ps.seqlist(r["out"])
        r["mask"] = [bool(b) for b in _ps.seqlist(r["mask"])]
        groups.setdefault((r["op"], r["mode"]), []).append(r)
        ctx.case(key=(r["op"], r["mode"], r["len"], r["a"], r["b"], r["mask"]), nontrivial=_nontrivial(r), n=0,
                 sample=dict(spec_case=_row(r), op=r["op"], mode=r["mode"]) if ctx.rng.random() < 0.002 else None)
    _ps.need({k[0] for k in groups} == {"pad", "slice", "mask"}, "PadSlice export lacks an operation")
    ctx.exhaustive = True
    passes = 2 if ctx.quick else 4
    for key in sorted(groups):
        g = sorted(groups[key], key=lambda r: (r["len"], r["a"], r["b"], r["mask"]))
        _replay_group(ctx, key[0], key[1], g, passes if key[0] != "mask" else 3 * passes)
        if key[0] == "mask":
            _replay_long_masks(ctx, g, 60 if ctx.quick else 600)
            _replay_full_masks(ctx)
    _random_shift(ctx)
    if not ctx.quick:
        _selftest(ctx, recs)


def replay(ctx, case):
    if case["op"] == "shift":
        try:
            events = _shift_call(case)
            err = case.pop("_ctor_error", None)
            if err:
                print("replay RandomShift: constructor raised", err)
                ctx.violation(dict(site="RandomShift", kind="exception_prop_pair_constructor"), err, case)
            if case.get("ctor_only"):
                return
        except Exception as ex:
            print("replay RandomShift: raised %r" % ex)
            ctx.violation(dict(site="RandomShift", kind="exception"), repr(ex), case)
            return
        ev = events[case.get("row", 0)]
        ev["tid"] = 1
        print("replay RandomShift row:", ev)
        res, accepted = _validate_traces(ctx, [ev], "replay_trace")
        if 1 not in accepted:
            ctx.violation(dict(site="RandomShift", kind="trace_rejected"), "replayed trace still rejected", case)
        return
    fails, _ = eval_batch(case)
    for kind, detail, i in fails:
        print("replay %s: %s: %s" % (SITE[case["op"]], kind, detail))
        ctx.violation(dict(site=SITE[case["op"]], kind=kind), detail, case)
    if not fails:
        print("replay %s: batch agrees with the specification" % SITE[case["op"]])


if __name__ == "__main__":
    sys.exit(main(PROP, "model_checking", run, replay))
