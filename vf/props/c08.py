"""C08 (partial) -- SpecAugment draws stay within bounds; masking touches only masked cells; warps resample.

code -> spec (SpecAugmentTrace.tla): SpecAugment.draw_parameters is run over a grid of
configurations (every combination of zero / small / large mask limits, proportions 0, 1/4, 1/2, 1,
warps smaller and larger than half the length; interpolation order 1 everywhere, orders 2 and 3 on
a subset of the warp-enabled configurations), shapes, length vectors, feature dtypes (float32 and
float64, WITH and without warps) and random sources (seeded generator; torch.rand stubbed to the
extreme values it can return).  Every batch element becomes one trace: the drawn parameters (warp
values quantised SOUNDLY to half frames), the half-frame quantisation of the linear warp's sampling
grid (order 1 only), the zeroed cells of apply_parameters / forward, the "Hull" event (finiteness and
range of the non-masked output cells against the range of the element's input plane, in units of
1/1024, for every order), the output shape and the eval-mode result.  TLC accepts a trace iff every
event is allowed by the documented bounds / effects.

The linear time warp is also OBSERVED through all four entry points on ramp features (both dtypes)
and, deterministically (no randomness), in a "long padded batch" family: padded lengths 100, 200, 500
(thorough: 1000), valid lengths T, T/2, 50, 10, centre L/2, shifts +-0.96 W and +-0.5 W with
W = min(80, L/2), directly from warp_1d_grid and through spec_augment_apply_parameters; the same Grid
event, the same GridOK.  A rejected grid of that family is classified BY THE SPECIFICATION (GridDiag:
which of order / first / last failed).

spec -> code (SpecAugment.tla): TLC enumerates every in-bounds mask parameter vector for small
(T, F, length); apply_parameters is run on integer-valued, pairwise distinct, non-zero features and
compared cell by cell with the spec's zero set (masked => 0, every other cell bit-identical), in big
batches and in seeded small batches.

Decided at the abstraction level only (real-valued interpolation, see DESIGN 1.1): "no warp of any
order yields a non-finite value or one outside the range of its input" as hull containment per
element (HullOK in SpecAugment.tla, with its rationale and a design check of the border-padded
bilinear read); monotonicity / pinned ends of the linear warp on the half-frame quantisation.
NOT decided: monotone / pinned beyond the half-frame abstraction; anything about the VALUES of a
warp of order >= 2 beyond hull containment (its grid is not constrained by the property)."""
import itertools
import json
import math
import os
import sys
import warnings

import torch

from .. import SPECS, tlc
from ..harness import MachineryError, main

PROP = "C08"
MOD = os.path.join(SPECS, "SpecAugment.tla")
TRACE_MOD = os.path.join(SPECS, "SpecAugmentTrace.tla")
ACTIONS = ["Init", "DrawTimeWidths", "DrawTimeStarts", "DrawFreqWidths", "DrawFreqStarts", "DrawWarpCentre",
           "DrawWarpShift", "ApplyDraw", "Apply", "ComputeGrid", "ComputeHull"]
MAX_PER_SIG = 12
BIG = 10 ** 6


def _viol(ctx, sig, detail, case):
    key = json.dumps(sig, sort_keys=True)
    n = ctx.counters.get("viol:" + key, 0)
    ctx.count("viol:" + key)
    if n < MAX_PER_SIG:
        ctx.violation(sig, detail, case)


def quiet(fn, *a, **kw):
    with warnings.catch_warnings():
        warnings.simplefilter("ignore")
        return fn(*a, **kw)


# ---------------------------------------------------------------------------------------------
# spec -> code: mask application
# ---------------------------------------------------------------------------------------------
def features(N, T, F, positive=False, dtype=torch.float32):
    """integer-valued, pairwise distinct, non-zero.  positive (used when a warp is drawn): 1..N*T*F in a scrambled
    order (k -> 1 + k * s mod n, s coprime to n near 0.618 n), so that the planes are NOT affine in (frame,
    coefficient): an interpolation that merely reproduces affine data cannot hide an overshoot from the Hull event"""
    n = N * T * F
    if positive:
        s = max(1, int(0.618 * n))
        while math.gcd(s, n) != 1:
            s += 1
        return (1 + (torch.arange(n, dtype=torch.long) * s) % n).to(dtype).view(N, T, F)
    x = torch.arange(1, n + 1, dtype=dtype).view(N, T, F)
    if not positive:
        sign = torch.where(torch.arange(N * T * F).view(N, T, F) % 3 == 1, -1.0, 1.0).to(dtype)
        x = x * sign
    return x


def mask_params(recs, empty_as_none):
    def col(name, width):
        if width == 0:
            return None if empty_as_none else torch.empty(0)
        return torch.tensor([r[name] for r in recs], dtype=torch.long)

    nt, nf = len(recs[0]["t"]), len(recs[0]["f"])
    e = None if empty_as_none else torch.empty(0)
    return (e, e, e, e, col("t0", nt), col("t", nt), col("f0", nf), col("f", nf))


def check_apply_group(ctx, recs, tag, variant):
    from pydrobert.torch import functional as Fn
    from pydrobert.torch import modules as M

    T, F = recs[0]["T"], recs[0]["F"]
    N = len(recs)
    feats = features(N, T, F, dtype=torch.float64 if variant % 4 == 3 else torch.float32)
    if variant % 3 == 1:
        # log-domain features hold -inf for empty bins (and a broken front end inf / NaN): masking still ZEROES a masked
        # cell whatever it held, and leaves every other cell bit-identical
        flat = feats.view(-1)
        for k, v in enumerate((-float("inf"), float("inf"), float("nan"))):
            flat[k + (variant % 5)::4 + k] = v
    lens = torch.tensor([r["len"] for r in recs])
    use_lens = not (variant % 2 == 1 and all(r["len"] == T for r in recs))
    params = mask_params(recs, empty_as_none=(variant // 2) % 2 == 1)
    site = "SpecAugment.apply_parameters" if variant % 2 == 0 else "spec_augment_apply_parameters"
    case = dict(type="apply", recs=recs[:1], variant=variant, batch=tag)
    try:
        if variant % 2 == 0:
            out = quiet(M.SpecAugment().apply_parameters, feats, params, lens if use_lens else None)
        else:
            out = quiet(Fn.spec_augment_apply_parameters, feats, params, 1, lens if use_lens else None)
    except Exception as ex:
        _viol(ctx, dict(site=site, kind="exception", exc=type(ex).__name__), "raised %r" % ex, case)
        return
    ctx.case(n=N)
    if tuple(out.shape) != tuple(feats.shape):
        _viol(ctx, dict(site=site, kind="shape"), "output shape %r, input %r" % (tuple(out.shape), tuple(feats.shape)), case)
        return
    want_zero = torch.zeros(N, T, F, dtype=torch.bool)
    for n, r in enumerate(recs):
        for i, j in r["zero"]:
            want_zero[n, i, j] = True
    got_zero = out == 0
    bad_zero = (got_zero != want_zero).flatten(1).any(1)
    same = (out == feats) | (torch.isnan(out) & torch.isnan(feats))  # bit-identical, NaN included
    bad_keep = (~same & ~want_zero).flatten(1).any(1)
    if bool(bad_zero.any()):
        n = int(bad_zero.nonzero()[0])
        _viol(ctx, dict(site=site, kind="masked_cells", batch=tag),
              "zeroed cells %r, spec %r (T=%d F=%d t0=%r t=%r f0=%r f=%r)" % (
                  got_zero[n].nonzero().tolist(), recs[n]["zero"], T, F, recs[n]["t0"], recs[n]["t"],
                  recs[n]["f0"], recs[n]["f"]), dict(case, recs=[recs[n]]))
    elif bool(bad_keep.any()):
        n = int(bad_keep.nonzero()[0])
        _viol(ctx, dict(site=site, kind="unmasked_cell_changed", batch=tag),
              "cells outside the masks differ from the input: %r" % ((out[n] != feats[n]) & ~want_zero[n]).nonzero().tolist(),
              dict(case, recs=[recs[n]]))


def run_apply(ctx, recs):
    groups = {}
    for r in recs:
        groups.setdefault((r["T"], r["F"], len(r["t"]), len(r["f"])), []).append(r)
    v = 0
    for key in sorted(groups):
        g = sorted(groups[key], key=lambda r: json.dumps(r, sort_keys=True))
        for r in g:
            ctx.case(key=("apply", json.dumps(r, sort_keys=True)), nontrivial=0 < len(r["zero"]) < r["T"] * r["F"], n=0,
                     sample=dict(kind="apply", **r) if ctx.rng.random() < 0.0003 else None)
        for variant in range(4):
            check_apply_group(ctx, g, "all", variant)
        for _ in range(4 if ctx.quick else 30):
            k = ctx.rng.choice([1, 2, 3, 5])
            sub = [g[ctx.rng.randrange(len(g))] for _ in range(k)]
            check_apply_group(ctx, sub, "small", v)
            v += 1
        ctx.traces += len(g)
    ctx.count("apply_cases_replayed", len(recs))


# ---------------------------------------------------------------------------------------------
# code -> spec: recorded calls
# ---------------------------------------------------------------------------------------------
class RandStub:
    """torch.rand replacement: values torch.rand can return (multiples of 2^-24 in [0, 1)), biased to
    the extremes; deterministic in the call sequence"""

    VALUES = [0.0, 2.0 ** -24, 0.5, 1.0 - 2.0 ** -24, 1.0 - 2.0 ** -23]

    def __init__(self, seed, mode):
        import random

        self.seed, self.mode = seed, mode
        self.reset()

    def reset(self):
        import random

        self.rng = random.Random(self.seed)

    def __call__(self, *size, **kw):
        if len(size) == 1 and isinstance(size[0], (list, tuple, torch.Size)):
            size = tuple(size[0])
        n = 1
        for s in size:
            n *= int(s)
        if self.mode == "hi":
            vals = [1.0 - 2.0 ** -24] * n
        elif self.mode == "lo":
            vals = [0.0] * n
        else:
            vals = [self.rng.choice(self.VALUES) if self.rng.random() < 0.8 else
                    math.floor(self.rng.random() * 2 ** 24) / 2 ** 24 for _ in range(n)]
        return torch.tensor(vals, dtype=torch.float32).view(*size) if n else torch.empty(*size)


class Source:
    def __init__(self, kind, seed):
        self.kind, self.seed = kind, seed
        self.stub = RandStub(seed, kind) if kind != "seed" else None

    def __enter__(self):
        if self.stub is None:
            torch.manual_seed(self.seed)
        else:
            self.stub.reset()
            self._old = torch.rand
            torch.rand = self.stub
        return self

    def __exit__(self, *a):
        if self.stub is not None:
            torch.rand = self._old


def qfloor2(x):
    x = float(x)
    if x != x or math.isinf(x):
        return -BIG
    return max(-BIG, min(BIG, math.floor(2 * x)))


def qceil2(x):
    x = float(x)
    if x != x or math.isinf(x):
        return BIG
    return max(-BIG, min(BIG, math.ceil(2 * x)))


def spec_cfg(c):
    return dict(mtw2=int(round(2 * c["max_time_warp"])), mfw2=int(round(2 * c["max_freq_warp"])),
                mtm=c["max_time_mask"], mfm=c["max_freq_mask"], p4=int(round(4 * c["max_time_mask_proportion"])),
                ntm=c["num_time_mask"], q4=int(round(4 * c["num_time_mask_proportion"])), nfm=c["num_freq_mask"])


UNIT = 1024  # Hull events: 1/1024 of a feature unit


def hull_event(order, x_in, x_out):
    """project one element's input plane / output plane to the Hull event of the trace spec (masked cells are
    zeros - the zero set is what the Apply event carries and the spec validates - and are excluded)"""
    x_in, x_out = x_in.double(), x_out.double()
    inlo, inhi = int(round(float(x_in.min()) * UNIT)), int(round(float(x_in.max()) * UNIT))
    finite = bool(torch.isfinite(x_out).all())
    keep = x_out[x_out != 0]
    if finite and keep.numel():
        outlo, outhi = math.floor(float(keep.min()) * UNIT), math.ceil(float(keep.max()) * UNIT)
        outlo, outhi = max(-BIG * UNIT, outlo), min(BIG * UNIT, outhi)
    else:
        outlo, outhi = inlo, inhi
    return dict(a="Hull", order=int(order), finite=1 if finite else 0, inlo=inlo, inhi=inhi, outlo=outlo, outhi=outhi)


def record_call(call):
    """Run one SpecAugment call description; -> (list of per-element traces, error or None).
    call: dict(cfg, N, T, F, lens or None, source kind/seed, dtype)"""
    from pydrobert.torch import functional as Fn
    from pydrobert.torch import modules as M

    c = call["cfg"]
    N, T, F = call["N"], call["T"], call["F"]
    dtype = {"float64": torch.float64, "float16": torch.float16}.get(call["dtype"], torch.float32)
    warp = c["max_time_warp"] > 0 or c["max_freq_warp"] > 0
    feats = features(N, T, F, positive=warp, dtype=dtype)
    lens_list = call["lens"] if call["lens"] is not None else [T] * N
    lens = torch.tensor(call["lens"]) if call["lens"] is not None else None
    module = M.SpecAugment(**c)
    module.train()
    src = Source(call["source"], call["seed"])
    evs = [[] for _ in range(N)]

    def rows(x, n_cols):
        """project a mask parameter: None / empty -> None; (N, n_cols) -> per-element lists"""
        if x is None or x.numel() == 0:
            return None
        if x.dim() != 2 or x.size(0) != N:
            raise ValueError("parameter of shape %r is neither empty nor (N, M)" % (tuple(x.shape),))
        return [[int(v) for v in row] for row in x.tolist()]

    def vec(x):
        if x is None or x.numel() == 0:
            return None
        if x.dim() != 1 or x.size(0) != N:
            raise ValueError("parameter of shape %r is neither empty nor (N,)" % (tuple(x.shape),))
        return [float(v) for v in x.tolist()]

    with src:
        params = quiet(module.draw_parameters, feats, lens)
    w_0, w, v_0, v, t_0, t, f_0, f = params
    for name, cen, sh in (("TimeWarp", vec(w_0), vec(w)), ("FreqWarp", vec(v_0), vec(v))):
        for n in range(N):
            if cen is None or sh is None:
                evs[n].append(dict(a=name, on=0, clo=0, chi=0, slo=0, shi=0))
            else:
                evs[n].append(dict(a=name, on=1, clo=qfloor2(cen[n]), chi=qceil2(cen[n]),
                                   slo=qfloor2(sh[n]), shi=qceil2(sh[n])))
    for name, a0, a1, k0, k1 in (("TimeMask", rows(t_0, None), rows(t, None), "t0", "t"),
                                 ("FreqMask", rows(f_0, None), rows(f, None), "f0", "f")):
        for n in range(N):
            if a0 is None or a1 is None:
                evs[n].append({"a": name, "on": 0, k0: [], k1: []})
            else:
                evs[n].append({"a": name, "on": 1, k0: a0[n], k1: a1[n]})
    # the linear warp's sampling grid (what apply_parameters feeds to grid_sample), in half frames
    lens_t = torch.tensor(lens_list)
    if c["interpolation_order"] == 1:
        for axis, cen, sh, size, ls in (("time", w_0, w, T, lens_t), ("freq", v_0, v, F, torch.full((N,), F))):
            if cen is None or cen.numel() == 0:
                continue
            grid = quiet(Fn.warp_1d_grid, cen, sh, ls.to(dtype), size, 1)
            pix = ((grid.double() + 1) * size - 1) / 2
            for n in range(N):
                L = int(ls[n])
                evs[n].append(dict(a="Grid", axis=axis, q=[qfloor2(x) for x in pix[n, :L].tolist()]))
    # apply / forward / shape / eval
    out = quiet(module.apply_parameters, feats, params, lens)
    with src:
        fwd = quiet(module, feats, lens)
    module.eval()
    ev_out = quiet(module, feats, lens)
    for n in range(N):
        for o in (out, fwd):
            if tuple(o.shape) == tuple(feats.shape):
                z = o[n] == 0
                evs[n].append(dict(a="Apply", zero=[[int(i), int(j)] for i, j in z.nonzero().tolist()],
                                   changed=int(((o[n] != feats[n]) & ~z).sum()), exact=0 if warp else 1))
                evs[n].append(hull_event(c["interpolation_order"], feats[n], o[n]))
            evs[n].append(dict(a="Shape", shape=[int(x) for x in o.shape]))
        same = tuple(ev_out.shape) == tuple(feats.shape)
        evs[n].append(dict(a="Eval", changed=int((ev_out[n] != feats[n]).sum()) if same else 1))
    traces = []
    raw = dict(time=(vec(w_0), vec(w)), freq=(vec(v_0), vec(v)))
    for n in range(N):
        traces.append(dict(cfg=spec_cfg(c), T=T, F=F, len=lens_list[n], shape=[N, T, F], ev=evs[n], elem=n,
                           raw={ax: (None if cs is None else (cs[n], sh[n])) for ax, (cs, sh) in raw.items()}))
    return traces


def destination_class(t, axis):
    """where the drawn warp sends its source point (classification of a rejected grid only)"""
    L = t["len"] if axis == "time" else t["F"]
    r = t["raw"].get(axis)
    if r is None:
        return "unknown"
    src = max(0.0, min(r[0], L - 1.0))
    dst = src + r[1]
    # "at": clamped onto, or within 1e-3 frames of, the pinned first / last valid frame
    return "at_last_frame" if dst >= L - 1.0 - 1e-3 else "at_first_frame" if dst <= 1e-3 else "inside"


def higher_orders(ctx, k):
    """interpolation orders >= 2 tried on configuration number k of the grid (when it enables a warp): quick -
    order 2 on every fourth, order 3 on another fourth (the selector is coprime to the cycles of the grid, so
    every time / frequency warp value meets both orders); thorough - orders 2 and 3 on every one"""
    if not ctx.quick:
        return (2, 3)
    sel = (k + k // 5 + k // 60) % 4
    return (2,) if sel == 1 else (3,) if sel == 3 else ()


def configs(ctx):
    """the configuration grid: every time-mask limit combination x every time warp; the frequency
    side and the shapes cycle; interpolation order 1, and orders 2 / 3 on the subset higher_orders"""
    mws = [0, 1, 3] if ctx.quick else [0, 1, 2, 5]
    props = [0.0, 0.25, 0.5, 1.0] if ctx.quick else [0.0, 0.25, 0.5, 0.75, 1.0]
    nums = [0, 1, 2] if ctx.quick else [0, 1, 2, 3]
    twarps = [0.0, 0.5, 1.0, 2.5, 10.0] if ctx.quick else [0.0, 0.5, 1.0, 1.5, 2.5, 10.0]
    fwarps = [0.0, 0.0, 0.5, 2.5]
    fm = [(a, b) for a in mws for b in nums]
    k = 0
    for mtm, p, ntm, q, tw in itertools.product(mws, props, nums, props, twarps):
        mfm, nfm = fm[k % len(fm)]
        c = dict(max_time_warp=tw, max_freq_warp=fwarps[(k // 3) % len(fwarps)], max_time_mask=mtm,
                 max_freq_mask=mfm, max_time_mask_proportion=p, num_time_mask=ntm,
                 num_time_mask_proportion=q, num_freq_mask=nfm, interpolation_order=1)
        yield c
        if c["max_time_warp"] > 0 or c["max_freq_warp"] > 0:
            for order in higher_orders(ctx, k):
                yield dict(c, interpolation_order=order)
        k += 1


def calls(ctx):
    maxT, maxF = (4, 3) if ctx.quick else (6, 4)
    sources = ["seed", "seed", "mix", "hi"] if ctx.quick else ["seed"] * 6 + ["mix", "mix", "hi", "lo"]
    j = 0
    for c in configs(ctx):
        for s in sources:
            T = 1 + (j * 7 + j // 5) % maxT
            F = 1 + (j * 3 + j // 7) % maxF
            N = 1 + j % 3
            lens = None if j % 6 == 5 else [ctx.rng.randint(1, T) for _ in range(N)]
            # float64 features with AND without warps (the values stay integer-valued either way)
            yield dict(cfg=c, N=N, T=T, F=F, lens=lens, source=s, seed=ctx.seed * 1000003 + j,
                       dtype="float64" if (j + j // 4) % 4 == 2 else "float32")
            j += 1
    # half-precision features with sequences longer than half precision counts exactly (> 2048 frames; 4099 and 4095 are
    # not representable): the limits are those of the TRUE lengths.  Masks only (no warp), draws at both ends of their
    # ranges and seeded ones
    for p4, mtm in ((1, 2000), (2, 3000), (4, 60)):
        c = dict(max_time_warp=0.0, max_freq_warp=0.0, max_time_mask=mtm, max_freq_mask=1, max_time_mask_proportion=p4 / 4,
                 num_time_mask=2, num_time_mask_proportion=1.0, num_freq_mask=1, interpolation_order=1)
        for lens in ([4099], [4095, 4099], [2049, 4097]):
            for s in ("hi", "lo", "mix", "seed"):
                yield dict(cfg=c, N=len(lens), T=4100, F=2, lens=lens, source=s, seed=ctx.seed * 1000003 + j, dtype="float16")
                j += 1


KIND = {"TimeWarp": "time_warp_window", "FreqWarp": "freq_warp_window", "TimeMask": "time_mask_bounds",
        "FreqMask": "freq_mask_bounds", "Grid": "linear_warp_grid", "FineGrid": "linear_warp_grid", "Apply": "apply_zeroed_cells",
        "Hull": "warp_value_outside_input_range", "Shape": "output_shape", "Eval": "eval_not_identity"}


def validate(ctx, traces, name="SpecAugmentTrace", grid_diag=None):
    """-> (set of accepted tids, dict tid -> longest accepted prefix for the rejected ones); grid_diag (a dict),
    when given, receives for every rejected trace tid -> {event index -> the specification's verdict on each
    clause of GridOK for that Grid event: dict(order=0/1, first=0/1, last=0/1)}"""
    path = os.path.join(ctx.workdir, "%s_%d.json" % (name.replace("/", "_"), len(ctx.tlc_runs)))
    with open(path, "w") as f:
        json.dump([{k: t[k] for k in ("tid", "cfg", "T", "F", "len", "shape", "ev")} for t in traces], f)
    cfgdir = os.path.dirname(TRACE_MOD)
    res = tlc.run(TRACE_MOD, os.path.join(cfgdir, "SpecAugmentTrace.cfg"), workers=1, env={"TRACE_FILE": path},
                  timeout=3000, coverage=False)
    ctx.add_tlc(name, res)
    if not res.ok and "AllAccepted" not in (res.error or ""):
        raise tlc.TLCFailure("trace validation run failed: %s\n%s" % (res.error, res.stdout[-2000:]))
    accepted = {r["tid"] for r in res.records if "info" not in r and "upto" not in r}
    for r in res.records:
        if "info" in r:  # documented by the library, not a clause of the property
            ctx.count("informational_%s_%s_against_configuration" % (r["info"], "drawn" if r["on"] else "empty"))
    if res.ok and len(accepted) != len(traces):
        raise MachineryError("trace spec accepted %d of %d traces but reported success" % (len(accepted), len(traces)))
    rejected = [t for t in traces if t["tid"] not in accepted]
    upto = {}
    if rejected:
        sub = rejected[:100000]
        path2 = path + ".rej"
        with open(path2, "w") as f:
            json.dump([{k: t[k] for k in ("tid", "cfg", "T", "F", "len", "shape", "ev")} for t in sub], f)
        diag = os.path.join(ctx.workdir, "SpecAugmentTraceDiag.cfg")
        with open(os.path.join(cfgdir, "SpecAugmentTrace.cfg")) as f:
            txt = f.read().replace("INVARIANT Accept\n", "INVARIANT Accept\nINVARIANT Progress\nINVARIANT GridDiag\n")
        if "INVARIANT GridDiag" not in txt:
            raise MachineryError("could not derive the diagnosis configuration from SpecAugmentTrace.cfg")
        txt = txt.replace("POSTCONDITION AllAccepted\n", "")
        with open(diag, "w") as f:
            f.write(txt)
        res2 = tlc.run(TRACE_MOD, diag, workers=1, env={"TRACE_FILE": path2}, timeout=3000, coverage=False)
        ctx.add_tlc(name + "/diagnosis", res2, count_states=False)
        for r in res2.records:
            if "upto" in r:
                upto[r["tid"]] = max(upto.get(r["tid"], 0), r["upto"])
            elif "gridat" in r and grid_diag is not None:
                grid_diag.setdefault(r["tid"], {})[r["gridat"]] = dict(order=r["order"], first=r["first"], last=r["last"])
    return accepted, upto


def trace_sig(t, ev, site="SpecAugment"):
    """signature of a trace rejected at event ev (classification only: the verdict is TLC's)"""
    sig = dict(site=site, kind=KIND.get(ev["a"], "rejected"))
    if ev["a"] == "Grid":
        sig["axis"] = ev["axis"]
        sig["destination"] = destination_class(t, ev["axis"])
    elif ev["a"] == "Hull":
        sig["order"] = ev["order"]
        sig["clause"] = "finite" if ev["finite"] != 1 else "range"
    return sig


def run_traces(ctx):
    traces, meta = [], []
    ncalls = 0
    for call in calls(ctx):
        ncalls += 1
        try:
            trs = record_call(call)
        except Exception as ex:
            _viol(ctx, dict(site="SpecAugment", kind="exception", exc=type(ex).__name__),
                  "raised %s: %s" % (type(ex).__name__, ex), dict(type="call", call=call))
            continue
        for t in trs:
            t["tid"] = len(traces)
            traces.append(t)
            meta.append(call)
    ctx.count("draw_calls_recorded", ncalls)
    accepted, upto = validate(ctx, traces)
    for t, call in zip(traces, meta):
        c = t["cfg"]
        nontriv = any(e["a"] in ("TimeMask", "FreqMask") and e["on"] == 1 and any(x > 0 for x in e.get("t", e.get("f", [])))
                      for e in t["ev"]) or any(e["a"] == "TimeWarp" and e["on"] == 1 for e in t["ev"])
        ctx.case(key=("trace", json.dumps(t["cfg"], sort_keys=True), call["cfg"]["interpolation_order"], call["dtype"],
                      t["T"], t["F"], t["len"], json.dumps(t["ev"][:4])),
                 nontrivial=nontriv,
                 sample=dict(kind="trace", cfg=t["cfg"], T=t["T"], F=t["F"], length=t["len"], events=t["ev"])
                 if t["tid"] % 1999 == 7 else None)
        if t["tid"] in accepted:
            continue
        if t["tid"] not in upto:  # beyond the diagnosis cap: rejected, first rejected event not located
            _viol(ctx, dict(site="SpecAugment", kind="trace_rejected"), "trace rejected (not diagnosed)",
                  dict(type="call", call=call, elem=t["elem"]))
            continue
        k = upto[t["tid"]]
        ev = t["ev"][k] if k < len(t["ev"]) else dict(a="?")
        sig = trace_sig(t, ev) if "a" in ev and ev["a"] != "?" else dict(site="SpecAugment", kind="rejected")
        _viol(ctx, sig, "trace rejected at event %d of %d: %r (configuration %r, T=%d F=%d length=%d, source=%s)" % (
            k + 1, len(t["ev"]), ev, call["cfg"], t["T"], t["F"], t["len"], call["source"]),
              dict(type="call", call=call, elem=t["elem"], first_rejected_event=ev, accepted_prefix=t["ev"][:k]))
    ctx.traces += len(traces)
    ctx.count("element_traces_validated", len(traces))
    for t, call in zip(traces, meta):
        if t["tid"] not in accepted:
            continue
        warp = call["cfg"]["max_time_warp"] > 0 or call["cfg"]["max_freq_warp"] > 0
        nh = sum(1 for e in t["ev"] if e["a"] == "Hull")
        ctx.count("hull_events_validated", nh)
        if warp:
            ctx.count("hull_events_validated_warp_order_%d" % call["cfg"]["interpolation_order"], nh)
            if call["dtype"] == "float64":
                ctx.count("element_traces_float64_with_warp")


def qsnap2(x):
    """floor(2x) after snapping 2x to the nearest integer when it is within 1e-3 of it, so that float noise of
    an interpolated read can neither break monotonicity nor push an in-bounds value over a half-frame boundary"""
    x = float(x)
    if x != x or math.isinf(x):
        return -BIG
    y = 2 * x
    if abs(y - round(y)) < 1e-3:
        y = float(round(y))
    return max(-BIG, min(BIG, math.floor(y)))


def qsnapu(x, u):
    """floor(u * x) after snapping u * x to the nearest integer when within 1e-3 of it (see qsnap2)"""
    x = float(x)
    if x != x or math.isinf(x):
        return -BIG
    y = u * x
    if abs(y - round(y)) < 1e-3:
        y = float(round(y))
    return max(-BIG, min(BIG, math.floor(y)))


FINE_UNITS = 256
FINE_NOISE = 1e-3  # frames: a decrease of the observed read position of at most this much is float noise, not a decrease


def fine_grid(pos):
    """observed read positions -> floor(FINE_UNITS * position), after forgiving decreases of at most FINE_NOISE frames
    (the later position is raised to the earlier one); any larger decrease survives and, floor being monotone, no
    non-decreasing sequence can be rejected"""
    out, prev = [], None
    for x in pos:
        x = float(x)
        if prev is not None and x == x and prev - FINE_NOISE <= x < prev:
            x = prev
        out.append(qsnapu(x, FINE_UNITS))
        prev = x
    return out


ENTRY_POINTS = ("SpecAugment.__call__", "SpecAugment.draw+apply", "functional.spec_augment", "functional.draw+apply")


def ramp(N, T, F, dtype):
    """value = frame index + 1, continued through the padding: an output value reveals the source position read"""
    dt = torch.float64 if dtype == "float64" else torch.float32
    return (torch.arange(T, dtype=dt) + 1).view(1, T, 1).expand(N, T, F).contiguous()


def observe_call(call):
    """one observed-grid call (masks off, linear time warp) through call["entry_point"] -> output tensor"""
    from pydrobert.torch import functional as Fn
    from pydrobert.torch import modules as M

    c, ep = call["cfg"], call["entry_point"]
    feats = ramp(call["N"], call["T"], call["F"], call.get("dtype", "float32"))
    lens = torch.tensor(call["lens"])
    torch.manual_seed(call["seed"])
    if ep == "SpecAugment.__call__":
        m = M.SpecAugment(**c)
        m.train()
        return quiet(m, feats, lens)
    if ep == "SpecAugment.draw+apply":
        m = M.SpecAugment(**c)
        m.train()
        return quiet(m.apply_parameters, feats, quiet(m.draw_parameters, feats, lens), lens)
    if ep == "functional.spec_augment":
        return quiet(Fn.spec_augment, feats, c["max_time_warp"], c["max_freq_warp"], c["max_time_mask"],
                     c["max_freq_mask"], c["max_time_mask_proportion"], c["num_time_mask"],
                     c["num_time_mask_proportion"], c["num_freq_mask"], c["interpolation_order"], lens, True)
    if ep == "functional.apply(explicit legal parameters)":
        # centre / shift given explicitly (any value of the documented window is a possible draw)
        e = torch.empty(0)
        params = (torch.tensor(call["w0"]), torch.tensor(call["w"]), e, e, e.long(), e.long(), e.long(), e.long())
        return quiet(Fn.spec_augment_apply_parameters, feats, params, c["interpolation_order"], lens)
    if ep != "functional.draw+apply":
        raise MachineryError("unknown entry point %r" % (ep,))
    params = quiet(Fn.spec_augment_draw_parameters, feats, c["max_time_warp"], c["max_freq_warp"],
                   c["max_time_mask"], c["max_freq_mask"], c["max_time_mask_proportion"], c["num_time_mask"],
                   c["num_time_mask_proportion"], c["num_freq_mask"], lens)
    return quiet(Fn.spec_augment_apply_parameters, feats, params, c["interpolation_order"], lens)


def observed_traces(ctx, call, traces, meta):
    """run one observed-grid call; append its element traces (Grid, Hull, Shape); report exceptions / shapes"""
    ep = call["entry_point"]
    N, T, F = call["N"], call["T"], call["F"]
    case = dict(type="observed_grid", call=call)
    try:
        out = observe_call(call)
    except MachineryError:
        raise
    except Exception as ex:
        _viol(ctx, dict(site=ep, kind="exception", exc=type(ex).__name__), "raised %s: %s" % (type(ex).__name__, ex), case)
        return
    if tuple(out.shape) != (N, T, F):
        _viol(ctx, dict(site=ep, kind="output_shape"), "output shape %r for input %r" % (tuple(out.shape), (N, T, F)), case)
        return
    feats = ramp(N, T, F, call.get("dtype", "float32"))
    for n in range(N):
        L = call["lens"][n]
        pos = (out[n, :L, 0].double() - 1).tolist()
        t = dict(cfg=spec_cfg(call["cfg"]), T=T, F=F, len=L, shape=[N, T, F], elem=n, tid=len(traces),
                 ev=[dict(a="Grid", axis="time", q=[qsnap2(x) for x in pos]),
                     dict(a="FineGrid", axis="time", u=FINE_UNITS, q=fine_grid(pos)),
                     hull_event(call["cfg"]["interpolation_order"], feats[n], out[n]),
                     dict(a="Shape", shape=[int(x) for x in out.shape])],
                 raw=dict(time=None, freq=None))
        traces.append(t)
        meta.append((call, pos))


def run_observed_grids(ctx):
    """The linear time warp as OBSERVED through every entry point: features are a ramp (value = frame index + 1,
    continued through the padding), so with masks off each output value reveals the source position the warp
    read; its half-frame quantisation over the valid frames goes through the same Grid action of the trace spec
    (non-decreasing, pinned within half a frame at both ends of the VALID frames).  float32 and float64 features."""
    traces, meta = [], []
    # warps below half a frame too (the draw then relies on warp_1d_grid clamping the source point into the valid frames)
    for tw in ([0.1, 0.25, 0.4, 0.5, 1.0, 2.5, 10.0] if ctx.quick else [0.1, 0.25, 0.4, 0.5, 0.75, 1.0, 1.5, 2.5, 4.0, 10.0]):
        c = dict(max_time_warp=tw, max_freq_warp=0.0, max_time_mask=0, max_freq_mask=0, max_time_mask_proportion=0.0,
                 num_time_mask=0, num_time_mask_proportion=0.0, num_freq_mask=0, interpolation_order=1)
        for rep in range(6 if ctx.quick else 20):
            N = ctx.rng.choice((1, 2, 3))
            T = ctx.rng.choice((3, 4, 5, 7, 9))
            F = ctx.rng.choice((1, 2))
            lens_list = [ctx.rng.randint(2, T) for _ in range(N)]
            if rep % 4 == 3:
                lens_list = [T] * N
            for ep in ENTRY_POINTS:
                seed = ctx.rng.randrange(1 << 30)
                call = dict(cfg=c, N=N, T=T, F=F, lens=lens_list, seed=seed, entry_point=ep,
                            dtype="float64" if rep % 3 == 2 else "float32")
                observed_traces(ctx, call, traces, meta)
    # every corner of the documented window, explicitly: centre in [W, L - W], shift in [-W, W], W = min(max warp, L / 2)
    for tw in (0.1, 0.25, 0.4, 0.5, 1.0, 2.5):
        c = dict(max_time_warp=tw, max_freq_warp=0.0, max_time_mask=0, max_freq_mask=0, max_time_mask_proportion=0.0,
                 num_time_mask=0, num_time_mask_proportion=0.0, num_freq_mask=0, interpolation_order=1)
        for L in ((3, 5, 9) if ctx.quick else (2, 3, 4, 5, 7, 9)):
            W = min(tw, L / 2)
            cens = sorted(set([W, L / 2, max(W, L - 1.0), max(W, L - 0.75), max(W, L - 0.5), L - W]))
            pairs = [(ce, sh) for ce in cens for sh in (-W, -W / 2, 0.0, W / 2, W)]
            for T in (L, L + 4):
                call = dict(cfg=c, N=len(pairs), T=T, F=1, lens=[L] * len(pairs), seed=0,
                            entry_point="functional.apply(explicit legal parameters)",
                            w0=[p[0] for p in pairs], w=[p[1] for p in pairs], dtype="float32")
                observed_traces(ctx, call, traces, meta)
    if not traces:
        return
    accepted, upto = validate(ctx, traces, "SpecAugmentTrace/observed_grid")
    for t, (call, pos) in zip(traces, meta):
        ctx.case(key=("observed_grid", call["entry_point"], json.dumps(call["cfg"], sort_keys=True), call["dtype"], t["T"], t["len"],
                      call["seed"], t["elem"]),
                 nontrivial=any(abs(p - i) > 0.25 for i, p in enumerate(pos)))
        if t["tid"] in accepted:
            ctx.count("observed_grid_traces_%s" % call["dtype"])
            ctx.count("hull_events_validated_ramp_order_1")
            continue
        k = upto.get(t["tid"], 0)
        ev = t["ev"][k] if k < len(t["ev"]) else dict(a="?")
        if ev["a"] in ("Grid", "FineGrid"):
            _viol(ctx, dict(site=call["entry_point"], kind="observed_linear_warp_grid"),
                  "through %s the linear time warp read the valid frames (length %d of %d) at source positions %r: not non-decreasing or not "
                  "beginning/ending within half a frame of the first/last valid frame" % (call["entry_point"], t["len"], t["T"], [round(p, 3) for p in pos]),
                  dict(type="observed_grid", call=call, elem=t["elem"], positions=pos))
        else:
            _viol(ctx, dict(trace_sig(t, ev, call["entry_point"])) if ev["a"] != "?" else dict(site=call["entry_point"], kind="rejected"),
                  "through %s (ramp features, length %d of %d): rejected at event %r" % (call["entry_point"], t["len"], t["T"], ev),
                  dict(type="observed_grid", call=call, elem=t["elem"], positions=pos))
    ctx.traces += len(traces)
    ctx.count("observed_grid_traces_validated", len(traces))


# ---------------------------------------------------------------------------------------------
# code -> spec: the deterministic "long padded batch" family of the linear time warp
# ---------------------------------------------------------------------------------------------
LONG_MAX_WARP = 80
LONG_SHIFTS = ((24, 25), (1, 2), (-1, 2), (-24, 25))  # shift = num / den * W: +-0.96 W, +-0.5 W
LONG_VIAS = ("warp_1d_grid", "warp_1d_grid/single", "spec_augment_apply_parameters/float32",
             "spec_augment_apply_parameters/float64")
LONG_CFG = dict(max_time_warp=float(LONG_MAX_WARP), max_freq_warp=0.0, max_time_mask=0, max_freq_mask=0,
                max_time_mask_proportion=0.0, num_time_mask=0, num_time_mask_proportion=0.0, num_freq_mask=0,
                interpolation_order=1)


def long_calls(ctx):
    """every (padded length T, valid lengths T, T/2, 50, 10 in ONE batch, shift fraction): centre L/2, shift
    num/den * W with W = min(80, L/2); all values explicit, nothing random"""
    for T in ((100, 200, 500) if ctx.quick else (100, 200, 500, 1000)):
        Ls = sorted({T, T // 2, 50, 10}, reverse=True)
        for num, den in LONG_SHIFTS:
            Ws = [min(float(LONG_MAX_WARP), L / 2.0) for L in Ls]
            for via in LONG_VIAS:
                yield dict(T=T, Ls=Ls, centres=[L / 2.0 for L in Ls], shifts=[num * W / den for W in Ws],
                           shift_frac="%+.2fW" % (num / den), via=via)


def long_record(call):
    """-> list of (element index, L, positions read over the valid frames, events)"""
    from pydrobert.torch import functional as Fn

    T, Ls, via = call["T"], call["Ls"], call["via"]
    cen, sh = torch.tensor(call["centres"]), torch.tensor(call["shifts"])
    ls = torch.tensor(Ls)
    out = []
    if via == "warp_1d_grid":
        grid = quiet(Fn.warp_1d_grid, cen, sh, ls.float(), T, 1)
        if tuple(grid.shape) != (len(Ls), T):
            raise ValueError("warp_1d_grid returned shape %r, expected %r" % (tuple(grid.shape), (len(Ls), T)))
        pix = ((grid.double() + 1) * T - 1) / 2
        for n, L in enumerate(Ls):
            pos = pix[n, :L].tolist()
            out.append((n, L, pos, [dict(a="Grid", axis="time", q=[qfloor2(x) for x in pos])]))
    elif via == "warp_1d_grid/single":
        for n, L in enumerate(Ls):
            grid = quiet(Fn.warp_1d_grid, cen[n:n + 1], sh[n:n + 1], ls[n:n + 1].float(), T, 1)
            if tuple(grid.shape) != (1, T):
                raise ValueError("warp_1d_grid returned shape %r, expected %r" % (tuple(grid.shape), (1, T)))
            pos = (((grid.double() + 1) * T - 1) / 2)[0, :L].tolist()
            out.append((n, L, pos, [dict(a="Grid", axis="time", q=[qfloor2(x) for x in pos])]))
    else:
        dtype = via.split("/")[1]
        feats = ramp(len(Ls), T, 1, dtype)
        e = torch.empty(0)
        res = quiet(Fn.spec_augment_apply_parameters, feats, (cen, sh, e, e, e, e, e, e), 1, ls)
        same = tuple(res.shape) == tuple(feats.shape)
        for n, L in enumerate(Ls):
            evs, pos = [], []
            if same:
                pos = (res[n, :L, 0].double() - 1).tolist()
                evs += [dict(a="Grid", axis="time", q=[qsnap2(x) for x in pos]), hull_event(1, feats[n], res[n])]
            evs.append(dict(a="Shape", shape=[int(x) for x in res.shape]))
            out.append((n, L, pos, evs))
    return out


def long_sig(call, L, n, ev, diag):
    """signature of a rejected element of the family; for a Grid event the failed clause(s) come from the
    specification's own diagnosis (GridDiag): order / first / last"""
    sign = "+" if call["shifts"][n] > 0 else "-"
    if ev["a"] != "Grid":
        return dict(trace_sig(dict(raw={}, len=L, F=1), ev, call["via"]), T=call["T"], L=L, shift_sign=sign)
    failed = [k for k in ("order", "first", "last") if diag is not None and diag.get(k) == 0]
    return dict(site="warp_1d_grid", kind="linear_warp_grid_long_padded_batch", T=call["T"], L=L, shift_sign=sign,
                shift=call["shift_frac"], end="+".join(failed) if failed else "unknown", via=call["via"])


def long_traces(ctx, call, traces, meta):
    try:
        recs = long_record(call)
    except Exception as ex:
        _viol(ctx, dict(site=call["via"].split("/")[0], kind="exception", exc=type(ex).__name__, family="long_padded_batch"),
              "raised %s: %s" % (type(ex).__name__, ex), dict(type="long_padded", call=call))
        return
    N = len(call["Ls"])
    for n, L, pos, evs in recs:
        traces.append(dict(cfg=spec_cfg(LONG_CFG), T=call["T"], F=1, len=L, shape=[N, call["T"], 1], elem=n, tid=len(traces),
                           ev=evs, raw=dict(time=None, freq=None)))
        meta.append((call, pos))


def long_report(ctx, traces, meta, accepted, upto, diag, report):
    for t, (call, pos) in zip(traces, meta):
        if t["tid"] in accepted:
            continue
        k = upto.get(t["tid"], 0)
        ev = t["ev"][k] if k < len(t["ev"]) else None
        L, n = t["len"], t["elem"]
        case = dict(type="long_padded", call=call, elem=n)
        if ev is None:
            report(dict(site=call["via"], kind="rejected", T=call["T"], L=L), "trace rejected (not diagnosed)", case)
            continue
        sig = long_sig(call, L, n, ev, diag.get(t["tid"], {}).get(k))
        if ev["a"] == "Grid":
            nonmono = sum(1 for a, b in zip(ev["q"], ev["q"][1:]) if a > b)
            detail = ("linear time warp, padded length %d, valid length %d, centre %g, shift %g (%s, W=%g) via %s: the valid frames are "
                      "read from position %.4f to %.4f, i.e. the read begins %.4f frames from frame 0 and ends %.4f frames from the last "
                      "valid frame %d (half-frame decreases in the read order: %d); clause(s) of GridOK failed: %s" % (
                          call["T"], L, call["centres"][n], call["shifts"][n], call["shift_frac"],
                          min(float(LONG_MAX_WARP), L / 2.0), call["via"], pos[0], pos[-1], pos[0], pos[-1] - (L - 1), L - 1,
                          nonmono, sig["end"]))
        else:
            detail = "padded length %d, valid length %d via %s: rejected at event %r" % (call["T"], L, call["via"], ev)
        report(sig, detail, case)


def run_long_padded(ctx):
    """Long padded batch: the default (linear) time warp of sequences much shorter than the padded length, from
    warp_1d_grid directly (whole batch / one element at a time) and observed through spec_augment_apply_parameters
    on ramp features (float32 / float64); same Grid event, same GridOK; the applications also give Hull, Shape."""
    traces, meta = [], []
    ncalls = 0
    for call in long_calls(ctx):
        ncalls += 1
        long_traces(ctx, call, traces, meta)
    ctx.count("long_padded_batch_calls", ncalls)
    if not traces:
        return
    diag = {}
    accepted, upto = validate(ctx, traces, "SpecAugmentTrace/long_padded_batch", grid_diag=diag)
    for t, (call, pos) in zip(traces, meta):
        ctx.case(key=("long_padded", call["T"], t["len"], call["shift_frac"], call["via"]),
                 nontrivial=any(abs(p - i) > 0.25 for i, p in enumerate(pos)),
                 sample=dict(kind="long_padded_batch", T=call["T"], L=t["len"], centre=call["centres"][t["elem"]],
                             shift=call["shifts"][t["elem"]], via=call["via"], first_read=pos[0], last_read=pos[-1])
                 if (call["T"], t["len"], call["shift_frac"], call["via"]) == (500, 50, "+0.96W", "warp_1d_grid") else None)
        if t["tid"] in accepted:
            ctx.count("long_padded_batch_grids_accepted")
            ctx.count("hull_events_validated_ramp_order_1", sum(1 for e in t["ev"] if e["a"] == "Hull"))
    long_report(ctx, traces, meta, accepted, upto, diag, lambda sig, detail, case: _viol(ctx, sig, detail, case))
    ctx.traces += len(traces)
    ctx.count("long_padded_batch_traces_validated", len(traces))


def selftest(ctx):
    """binding self-test: corrupted traces must be rejected at the corrupted event (and a rejected Grid event
    classified by the specification), the uncorrupted ones accepted"""
    base = dict(cfg=dict(mtw2=2, mfw2=0, mtm=3, mfm=1, p4=2, ntm=2, q4=4, nfm=1), T=4, F=2, len=4, shape=[1, 4, 2])
    good = [dict(a="TimeWarp", on=1, clo=4, chi=4, slo=-2, shi=-1), dict(a="FreqWarp", on=0, clo=0, chi=0, slo=0, shi=0),
            dict(a="TimeMask", on=1, t0=[2, 0], t=[2, 0]), dict(a="FreqMask", on=1, f0=[1], f=[1]),
            dict(a="Grid", axis="time", q=[0, 1, 3, 6]),
            dict(a="Apply", zero=[[0, 1], [1, 1], [2, 0], [2, 1], [3, 0], [3, 1]], changed=3, exact=0),
            dict(a="Hull", order=3, finite=1, inlo=1024, inhi=8192, outlo=1500, outhi=8000),
            dict(a="Shape", shape=[1, 4, 2]), dict(a="Eval", changed=0)]
    import copy

    muts = []
    for idx, fn in ((0, lambda e: e.update(clo=1, chi=1)), (0, lambda e: e.update(slo=3, shi=3)),
                    (2, lambda e: e.update(t=[3, 0], t0=[1, 0])), (2, lambda e: e.update(t0=[3, 0])),
                    (2, lambda e: e.update(t=[1, 1, 1], t0=[0, 0, 0])), (3, lambda e: e.update(f0=[2])),
                    (4, lambda e: e.update(q=[0, 3, 2, 6])), (4, lambda e: e.update(q=[0, 1, 3, 4])),
                    (4, lambda e: e.update(q=[2, 2, 3, 6])),
                    (5, lambda e: e["zero"].pop()), (5, lambda e: e.update(exact=1)),
                    (6, lambda e: e.update(finite=0)), (6, lambda e: e.update(outlo=1022)),
                    (6, lambda e: e.update(outhi=8194)), (6, lambda e: e.update(order=0)),
                    (6, lambda e: e.update(inlo=-2048, inhi=-1024, outlo=-1024, outhi=0)),
                    (7, lambda e: e.update(shape=[1, 4, 3])), (8, lambda e: e.update(changed=2))):
        ev = copy.deepcopy(good)
        fn(ev[idx])
        muts.append((idx, ev))
    # accepted variants: the unit of slack of HullOK, negative ranges, everything masked (outlo = inlo, outhi = inhi)
    goods = [good]
    for fn in (lambda e: e.update(outlo=1023, outhi=8193), lambda e: e.update(inlo=-8192, inhi=-1024, outlo=-8193, outhi=-1023),
               lambda e: e.update(order=1, outlo=1024, outhi=8192)):
        ev = copy.deepcopy(good)
        fn(ev[6])
        goods.append(ev)
    traces = [dict(base, ev=ev, tid=k) for k, ev in enumerate(goods)]
    traces += [dict(base, ev=ev, tid=len(goods) + k) for k, (_, ev) in enumerate(muts)]
    diag = {}
    accepted, upto = validate(ctx, traces, "SpecAugmentTrace/selftest", grid_diag=diag)
    if accepted != set(range(len(goods))):
        raise MachineryError("self-test: trace spec accepted %r, expected only the %d uncorrupted traces" % (sorted(accepted), len(goods)))
    for k, (idx, _) in enumerate(muts):
        if upto.get(len(goods) + k, 0) != idx:
            raise MachineryError("self-test: corrupted event %d reported at %r" % (idx, upto.get(len(goods) + k)))
    want = {6: dict(order=0, first=1, last=1), 7: dict(order=1, first=1, last=0), 8: dict(order=1, first=0, last=1)}
    for k, w in want.items():
        if diag.get(len(goods) + k, {}).get(4) != w:
            raise MachineryError("self-test: corrupted grid %d classified %r by the specification, expected %r" % (
                k, diag.get(len(goods) + k), w))
    ctx.count("selftest_corrupted_traces_rejected", len(muts))


def run(ctx):
    ctx.rule = ("traces: one per batch element of SpecAugment.draw_parameters/apply_parameters/forward over every "
                "combination of time-mask limits {0,small,large} x proportions x counts x time warps {0,0.5,1,2.5,10} with "
                "frequency limits, shapes N<=3, T<=4(6), F<=3(4), length vectors, dtypes float32/float64 and random sources "
                "cycling (seeded generator and torch.rand stubbed to extreme values), interpolation order 1 everywhere and "
                "orders 2, 3 on a quarter each (thorough: all) of the warp-enabled configurations; the linear time warp observed "
                "on ramp features through the four entry points, and the deterministic long padded batch family (T in "
                "{100,200,500(,1000)} x L in {T,T/2,50,10} x shift in {+-0.96W,+-0.5W}, direct and applied); applications: every in-bounds mask parameter "
                "vector TLC enumerates for T<=3(4), F<=2(3), <=2 masks per axis. non-trivial = a non-empty mask or a "
                "time warp was drawn (traces), some but not all cells zeroed (applications); distinct by "
                "(configuration, shape, length, drawn parameters) / parameter vector")
    ctx.assumptions += [
        "'no warp of any order yields a non-finite value or one outside the range of its input' is decided at the "
        "abstraction level (HullOK in SpecAugment.tla): per batch element, every output cell finite and the non-masked "
        "output cells inside [min, max] of the element's own (padded) input plane, in units of 1/1024 with one unit of "
        "slack for the floating point rounding of the interpolation; the input is integer-valued, so its range is exact; "
        "orders 2 and 3 are exercised on a quarter each of the warp-enabled configurations of the grid in the quick tier "
        "(every one in the thorough tier), shapes T<=4(6), F<=3(4), plus order 1 on ramp features up to T=500(1000)",
        "NOT DECIDED (real-valued interpolation): monotonicity / pinned ends of the linear warp beyond the half-frame "
        "quantisation floor(2 * source position) of the sampling grid produced by warp_1d_grid / observed on ramp features "
        "(weaker than the clause, cannot false-alarm); the values of a warp of order >= 2 beyond hull containment (orders "
        ">= 2 produce parameter, Apply, Hull, Shape and Eval events only; no Grid event: the property constrains the "
        "read order only for the default linear warp)",
        "long padded batch family: explicit parameters (centre L/2, shifts +-0.96 W, +-0.5 W, W = min(80, L/2)), no "
        "randomness; the specification (GridDiag) says which clause of GridOK a rejected grid fails; the single failing "
        "combination on the unchanged tree (T=500, L=50, positive shift, last frame) is a recorded known finding",
        "warp limits are multiples of 0.5 frames and proportions multiples of 1/4, so that floor(length * proportion) "
        "and the window W = min(max_warp, length / 2) are exact in float32; a drawn real value x is represented by "
        "floor(2x) and ceil(2x) and rejected only if the whole interval lies outside the permitted window",
        "torch.rand (float32) can return any multiple of 2^-24 in [0, 1): the stubbed sources use 0, 2^-24, 0.5, "
        "1 - 2^-23, 1 - 2^-24 and random multiples",
        "features are integer-valued, pairwise distinct and non-zero (positive, and arranged non-affinely in (frame, "
        "coefficient), when a warp is drawn), so a zero in the output can only come from a mask and the range of an "
        "element's input plane is exact",
        "float64 features with and without warps (a quarter of the recorded calls, a third of the observed-grid calls, "
        "one of the two applied variants of the long padded batch family)",
    ]
    res = tlc.run(MOD, os.path.join(SPECS, "SpecAugment_%s.cfg" % ("quick" if ctx.quick else "thorough")),
                  workers=16, timeout=3000)
    tlc.require_ok(res, "SpecAugment")
    tlc.require_covered(res, ACTIONS, "SpecAugment")
    ctx.add_tlc("SpecAugment", res)
    if not res.records:
        raise MachineryError("SpecAugment export is empty")
    selftest(ctx)
    run_apply(ctx, res.records)
    run_traces(ctx)
    run_observed_grids(ctx)
    run_long_padded(ctx)
    # the mask applications are enumerated completely; the recorded draws are a grid of configurations
    # with seeded / stubbed randomness
    ctx.exhaustive = False
    ctx.extra["exhaustive_parts"] = ["TLC: draw bounds, tightness, mask semantics, linear grid abstraction, hull of the border-padded bilinear read",
                                     "replay: every in-bounds mask parameter vector of the apply universe"]


def replay(ctx, case):
    kind = case.get("type")
    if kind == "observed_grid":
        traces, meta = [], []
        observed_traces(ctx, case["call"], traces, meta)
        if traces:
            accepted, upto = validate(ctx, traces, "SpecAugmentTrace/observed_grid")
            for t, (call, pos) in zip(traces, meta):
                if t["tid"] not in accepted:
                    k = upto.get(t["tid"], 0)
                    ev = t["ev"][k]
                    sig = dict(site=call["entry_point"], kind="observed_linear_warp_grid") if ev["a"] == "Grid" else \
                        trace_sig(t, ev, call["entry_point"])
                    ctx.violation(sig, "element %d rejected at event %d: %r (positions read %r)" % (
                        t["elem"], k + 1, ev, [round(p, 3) for p in pos]), case)
            print("replay observed grid: %d of %d element traces accepted" % (len(accepted), len(traces)))
        else:
            print("replay observed grid: the call did not produce an output of the input's shape")
        return
    if kind == "long_padded":
        traces, meta = [], []
        long_traces(ctx, case["call"], traces, meta)
        if traces:
            diag = {}
            accepted, upto = validate(ctx, traces, "SpecAugmentTrace/long_padded_batch", grid_diag=diag)
            long_report(ctx, traces, meta, accepted, upto, diag, ctx.violation)
            print("replay long padded batch: %d of %d element traces accepted" % (len(accepted), len(traces)))
        else:
            print("replay long padded batch: the call raised")
        return
    if kind == "apply":
        check_apply_group(ctx, case["recs"], "replay", case["variant"])
        print("replay apply: %s" % ("still differs" if ctx.violations else "ok"))
        return
    try:
        trs = record_call(case["call"])
    except Exception as ex:
        ctx.violation(dict(site="SpecAugment", kind="exception", exc=type(ex).__name__), "raised %s: %s" % (type(ex).__name__, ex), case)
        print("replay call: raised %s: %s" % (type(ex).__name__, ex))
        return
    for k, t in enumerate(trs):
        t["tid"] = k
    accepted, upto = validate(ctx, trs)
    for t in trs:
        if t["tid"] not in accepted:
            k = upto.get(t["tid"], 0)
            ev = t["ev"][k]
            ctx.violation(trace_sig(t, ev), "element %d rejected at event %d: %r" % (t["elem"], k + 1, ev), case)
    print("replay call: %d of %d element traces accepted" % (len(accepted), len(trs)))


if __name__ == "__main__":
    sys.exit(main(PROP, "model_checking", run, replay))
