"""C04 -- beam search returns distinct, correctly scored, best-first paths per element.

BeamSearch.tla: per-element prune/extend machine over a STATEFUL language model (next-token weights
depend on the whole path), finished paths re-emit eos with probability one, ties in pruning and in
the stopping rule are free; TLC checks ScoreIsChain, StopsAtFirstEos, Shape and FullSetWhenWide
(width >= number of complete sequences and run to completion => the beam is exactly that set).
spec -> code: the real BeamSearch is driven by a state-threading TableLM built from the spec's
weight function; each element's result (alone, unbatched, and inside batches whose elements use
different tables and so finish at different times) must be one of the spec's terminal beams of its
case, best first, with unusable slots at minus infinity at the end."""
import itertools
import math
import os
import sys

import torch

from .. import SPECS, tlc
from ..harness import MachineryError, main

PROP = "C04"
MOD = os.path.join(SPECS, "BeamSearch.tla")


def ph(path):
    """BeamSearch!PH"""
    h = 0
    for t in path:
        h = h * 2 + int(t) + 1
    return h


def base_w(V, q, path):
    h = ph(path)
    if V == 2:
        x = (h + q) % 3
        return [1 + x, 3 - x]
    w0 = 1 + ((h + q) % 3)
    w1 = 1 + ((h * 2 + len(path) + q) % 2)
    return [w0, w1, 6 - w0 - w1]


def wt(V, tv, path):
    """BeamSearch!Wt as a list over v (variants 4..6: product of two base tables = shallow fusion, beta = 1)"""
    D = 4 if V == 2 else 6
    if tv == 3:
        return [D // V] * V
    if tv <= 2:
        return base_w(V, tv, path)
    a, b = base_w(V, tv - 4, path), base_w(V, (tv - 3) % 3, path)
    return [x * y for x, y in zip(a, b)]


def make_lm(V, tvs, maxlen, after_eos=None, keep_idx=False):
    """-> (language model, initial state for a batch of len(tvs) elements)"""
    from pydrobert.torch.modules import ExtractableShallowFusionLanguageModel

    from ..doubles.tablelm import TableLM, code_of

    def table_lm(qs):
        tables = []
        for q in qs:
            tab = {}
            for n in range(maxlen + 1):
                for y in itertools.product(range(V), repeat=n):
                    tab[code_of(y, V)] = [float(w) for w in (wt(V, q, y) if q == 3 else base_w(V, q, y))]
            tables.append(tab)
        return TableLM(V, tables, strict=True, after_eos=after_eos, keep_idx=keep_idx)

    N = len(tvs)
    if all(tv >= 4 for tv in tvs):
        first = table_lm([tv - 4 for tv in tvs])
        second = table_lm([(tv - 3) % 3 for tv in tvs])
        lm = ExtractableShallowFusionLanguageModel(first, second, 1.0, "a.", "b.")
        return lm, {"a.elem": torch.arange(N), "b.elem": torch.arange(N)}
    assert all(tv < 4 for tv in tvs)
    return table_lm(tvs), {"elem": torch.arange(N)}


def chain_num(V, tv, path):
    """-> (numerator, denominator) of the chained probability under the search's own normalisation"""
    num, den = 1, 1
    for i, tok in enumerate(path):
        w = wt(V, tv, path[:i])
        num *= w[tok]
        den *= sum(w)
    return num, den


def judge(ctx, key, accepted, y, y_lens, lp, tag, call_case):
    """y (S, width) long, y_lens (width,), lp (width,) for ONE element"""
    V, tv, eos, fa, mi, width = key
    D = 4 if V == 2 else 6
    lps = lp.tolist()
    lens = y_lens.tolist()
    case = dict(key=dict(V=V, tv=tv, eos=eos, finish_all=fa, max_iters=mi, width=width), call=call_case,
                got=dict(log_probs=["%r" % x for x in lps], lens=lens, y=y.t().tolist()))

    def bad(kind, detail):
        ctx.violation(dict(site="BeamSearch", kind=kind, batch=tag), detail, case)

    if len(lps) != width:
        bad("shape", "returned %d slots for width %d" % (len(lps), width))
        return
    if any(x != x for x in lps):
        bad("nan", "NaN score %r" % (lps,))
        return
    fin = [k for k in range(width) if lps[k] != -math.inf]
    if fin and fin != list(range(len(fin))):
        bad("unusable_not_last", "a slot at minus infinity precedes a usable one: %r" % (lps,))
    for a, b in zip(fin, fin[1:]):
        if lps[a] < lps[b] - 1e-9:
            bad("order", "scores not best first: %r" % (lps,))
            break
    got = {}
    for k in fin:
        n = lens[k]
        if n > y.size(0) or n > mi:
            bad("length", "slot %d has length %d beyond the step limit %d" % (k, n, mi))
            return
        path = tuple(y[:n, k].tolist())
        if any(t < 0 or t >= V for t in path):
            bad("token", "slot %d holds out-of-vocabulary tokens %r" % (k, path))
            return
        if eos >= 0 and eos in path[:-1]:
            bad("past_eos", "path %r continues after its first end-of-sequence" % (path,))
            return
        if path in got:
            bad("duplicate", "path %r appears twice with a finite score" % (path,))
            return
        # reported score = chained score of exactly these tokens (as an exact numerator)
        want, den = chain_num(V, tv, path)
        num = math.exp(lps[k]) * den
        if abs(num - want) > 1e-6 * want:
            bad("score", "path %r reported log-prob %r = %.6f/%d, the model's chained score is %d/%d" % (path, lps[k], num, den, want, den))
            return
        got[path] = want
    for beam in accepted:
        if {tuple(e["y"]) for e in beam["beam"]} == set(got):
            return
    legal = [sorted(tuple(e["y"]) for e in b["beam"]) for b in accepted]
    bad("beam", "returned paths %r are none of the %d legal terminal beams, e.g. %r" % (sorted(got), len(legal), legal[:3]))


def run_call(ctx, cases, keys, tag, batched=True):
    """keys share (V, eos, fa, mi, width); elements differ in tv"""
    from pydrobert.torch.modules import BeamSearch

    V, _, eos, fa, mi, width = keys[0]
    N = len(keys)
    # what the model predicts after a path's eos is its own business (here: eos never again, probability zero), and it
    # may keep the step-index tensor it was handed: neither may show in the result.  (Rows that are no distribution at
    # all -- all -inf, NaN -- are NOT in the universe: the search feeds the model arbitrary tokens for its unusable slots
    # and -inf + NaN poisons them; a language model returns distributions.)
    mode = ctx.rng.choice((None, "zero_eos")) if eos >= 0 else None
    keep_idx = ctx.rng.random() < 0.4
    lm, init = make_lm(V, [k[1] for k in keys], mi, after_eos=None if mode is None else (eos, mode), keep_idx=keep_idx)
    pad = ctx.rng.choice((-1, -5, 0))
    call_case = dict(V=V, tvs=[k[1] for k in keys], eos=eos, finish_all=fa, max_iters=mi, width=width, batched=batched, pad_value=pad,
                     after_eos=mode, keep_idx=keep_idx)
    try:
        bs = BeamSearch(lm, width, None if eos < 0 else (eos if ctx.rng.random() < 0.7 else eos - V), fa, pad)
        if batched:
            y, y_lens, lp = bs(init, N, mi)
        else:
            y, y_lens, lp = bs(init, None, mi)
            y, y_lens, lp = y.unsqueeze(1), y_lens.unsqueeze(0), lp.unsqueeze(0)
    except Exception as ex:
        ctx.violation(dict(site="BeamSearch", kind="exception", batch=tag), "raised %r" % ex, dict(call=call_case))
        return
    if y.dim() != 3 or y.size(1) != N:
        ctx.violation(dict(site="BeamSearch", kind="shape", batch=tag), "y has shape %s" % (tuple(y.shape),), dict(call=call_case))
        return
    for n, k in enumerate(keys):
        judge(ctx, k, cases[k], y[:, n], y_lens[n], lp[n].double(), tag, call_case)


def run(ctx):
    ctx.rule = ("cases = (V, table variant, eos unset/each token, finish_all_paths, max_iters, width) enumerated exhaustively by TLC, "
                "tie resolutions included; each case searched alone (batch of 1), unbatched, and inside batches of 2-3 elements with "
                "different tables (elements finish at different times) by the real BeamSearch with a state-threading TableLM; verdict = "
                "finite-score paths form one of the spec's terminal beams + distinct / stops at first eos / reported score = chained score "
                "/ best first / -inf last; non-trivial = max_iters >= 2 and some pruning or an eos; distinct by case key")
    ctx.assumptions += ["next-token weights are positive integers over D (no zero-probability tokens)",
                        "the language model's scores depend on the whole path through threaded state (TableLM); in half of the "
                        "calls with an eos the model gives eos probability zero after a path's eos, in 40% it keeps the step-index "
                        "tensor it was handed in its state"]
    cases = {}
    steps = {}
    # thorough: V = 2 up to 5 steps and V = 3 up to 4 steps in two runs (V = 3 with 5 steps and widths beyond the 243
    # paths multiplied the tie resolutions beyond an hour of TLC)
    for cfg in (("BeamSearch_quick.cfg",) if ctx.quick else ("BeamSearch_thorough_a.cfg", "BeamSearch_thorough_b.cfg")) + (
            "BeamSearch_ties.cfg", "BeamSearch_fused.cfg"):
        res = tlc.run(MOD, os.path.join(SPECS, cfg), workers=16, timeout=3000)
        tlc.require_ok(res, "BeamSearch/" + cfg)
        tlc.require_covered(res, ["Extend", "Stop"], "BeamSearch/" + cfg)
        ctx.add_tlc("BeamSearch/" + cfg, res)
        for r in res.records:
            if r.get("kind") == "step":
                skey = (r["V"], r["tv"], r["eos"], r["width"], r["t"], tuple(sorted((tuple(e["y"]), e["num"], e["den"]) for e in r["prev"])))
                steps.setdefault(skey, []).append(r)
                continue
            key = (r["V"], r["tv"], r["eos"], bool(r["fa"]), r["mi"], r["width"])
            cases.setdefault(key, []).append(r)
    if not cases:
        raise MachineryError("no beam-search cases exported")
    ctx.exhaustive = True
    groups = {}
    for k in sorted(cases):
        groups.setdefault((k[0], k[2], k[3], k[4], k[5], k[1] >= 4), []).append(k)
        nt = k[4] >= 2 and (k[2] >= 0 or k[5] < k[0] ** k[4])
        ctx.case(key=k, nontrivial=nt, n=1,
                 sample=dict(V=k[0], table_variant=k[1], eos=k[2], finish_all=k[3], max_iters=k[4], width=k[5],
                             legal_terminal_beams=[[(e["y"], e["num"]) for e in b["beam"]] for b in cases[k]][:3])
                 if ctx.rng.random() < 0.004 else None)
        ctx.traces += 1
    for g, keys in sorted(groups.items()):
        for k in keys:
            run_call(ctx, cases, [k], "alone")
        # unbatched call (batch_size unset): the table of element 0 is used
        run_call(ctx, cases, [keys[0]], "unbatched", batched=False)
        ctx.case(n=1)
        # batches mixing tables
        if len(keys) > 1:
            for _ in range(3 if ctx.quick else 8):
                ks = [ctx.rng.choice(keys) for _ in range(ctx.rng.choice((2, 3)))]
                run_call(ctx, cases, ks, "batch")
                ctx.case(n=len(ks))
    replay_steps(ctx, steps)
    if not ctx.samples:
        k = sorted(cases)[len(cases) // 2]
        ctx.samples.append(dict(V=k[0], table_variant=k[1], eos=k[2], finish_all=k[3], max_iters=k[4], width=k[5]))


def replay_steps(ctx, steps):
    """spec -> code for single Extend transitions: functional.beam_search_advance on the spec's previous beam
    (slots in a seeded order, finished paths given the module's eos treatment) must produce one of the spec's
    successor beams of exactly that previous beam."""
    from pydrobert.torch import functional as F

    for skey in sorted(steps):
        V, tv, eos, width, t, prev = skey
        D = 4 if V == 2 else 6
        prev = list(prev)
        ctx.rng.shuffle(prev)
        Kp = len(prev)
        S = max(len(p) for p, _, _ in prev)
        use_lens = eos >= 0 or any(len(p) != S for p, _, _ in prev) or ctx.rng.random() < 0.5
        y_prev = torch.zeros(S, 1, Kp, dtype=torch.long)
        lens = torch.zeros(1, Kp, dtype=torch.long)
        lp_prev = torch.zeros(1, Kp, dtype=torch.double)
        lp_t = torch.zeros(1, Kp, V, dtype=torch.double)
        for k, (p, num, den) in enumerate(prev):
            for i, tok in enumerate(p):
                y_prev[i, 0, k] = tok
            for i in range(len(p), S):
                y_prev[i, 0, k] = ctx.rng.randrange(V)  # garbage beyond the path's length
            lens[0, k] = len(p)
            lp_prev[0, k] = math.log(num) - math.log(den)
            fin = eos >= 0 and len(p) > 0 and p[-1] == eos
            w = wt(V, tv, p)
            for v in range(V):
                if fin:
                    lp_t[0, k, v] = 0.0 if v == eos else -math.inf
                else:
                    lp_t[0, k, v] = math.log(w[v]) - math.log(sum(w))
        case = dict(step=dict(V=V, tv=tv, eos=eos, width=width, t=t, prev=[[list(p), n, d_] for p, n, d_ in prev], use_lens=use_lens))
        try:
            y, y_lens, lp, src = F.beam_search_advance(lp_t, width, lp_prev, y_prev, lens if use_lens else None)
        except Exception as ex:
            ctx.violation(dict(site="beam_search_advance", kind="exception"), "raised %r" % ex, case)
            continue
        ctx.case(n=1)
        ctx.count("advance_steps")
        lps = lp[0].tolist()
        got = {}
        ok = True
        for k in range(len(lps)):
            if lps[k] == -math.inf:
                continue
            s_ = int(src[0, k])
            p, num, _den = prev[s_]
            fin = eos >= 0 and len(p) > 0 and p[-1] == eos
            n = int(y_lens[0, k])
            path = tuple(y[:n, 0, k].tolist())
            # advance always grows the path by one token; the module undoes that for finished paths
            if path[:-1] != p or n != len(p) + 1:
                ctx.violation(dict(site="beam_search_advance", kind="source"), "slot %d: path %r is not its source %r plus one token" % (k, path, p), case)
                ok = False
                break
            key_ = p if fin else path
            val = math.exp(lps[k]) * chain_num(V, tv, key_)[1]
            if key_ in got:
                ctx.violation(dict(site="beam_search_advance", kind="duplicate"), "candidate %r selected twice" % (key_,), case)
                ok = False
                break
            got[key_] = val
        if not ok:
            continue
        fin_idx = [k for k in range(len(lps)) if lps[k] != -math.inf]
        if any(lps[a] < lps[b] - 1e-9 for a, b in zip(fin_idx, fin_idx[1:])) or (fin_idx and fin_idx != list(range(len(fin_idx)))):
            ctx.violation(dict(site="beam_search_advance", kind="order"), "scores not best first / -inf not last: %r" % (lps,), case)
            continue
        for succ in steps[skey]:
            want = {tuple(e["y"]): e["num"] for e in succ["beam"]}
            if set(want) == set(got) and all(abs(got[p_] - want[p_]) <= 1e-6 * want[p_] for p_ in want):
                break
        else:
            ctx.violation(dict(site="beam_search_advance", kind="successor"),
                          "candidates %r are none of the %d legal successor beams of %r" % (got, len(steps[skey]), prev), case)


def replay(ctx, case):
    from pydrobert.torch.modules import BeamSearch

    if "step" in case:
        print("single-step case; re-run the check to reproduce:", case["step"])
        return
    c = case["call"]
    lm, init = make_lm(c["V"], c["tvs"], c["max_iters"], after_eos=None if c.get("after_eos") is None else (c["eos"], c["after_eos"]),
                       keep_idx=bool(c.get("keep_idx")))
    bs = BeamSearch(lm, c["width"], None if c["eos"] < 0 else c["eos"], c["finish_all"], c["pad_value"])
    N = len(c["tvs"])
    if c["batched"]:
        y, y_lens, lp = bs(init, N, c["max_iters"])
    else:
        y, y_lens, lp = bs(init, None, c["max_iters"])
        y, y_lens, lp = y.unsqueeze(1), y_lens.unsqueeze(0), lp.unsqueeze(0)
    print("replay: log_probs", lp.tolist(), "lens", y_lens.tolist())
    if "key" not in case:
        return
    # accepted set for that case from TLC
    k = case["key"]
    cfg = os.path.join(ctx.workdir, "bs_replay.cfg")
    tlc.write_cfg(cfg, constants=dict(Vs="{%d}" % k["V"], TVs="{%d}" % k["tv"], Widths="{%d}" % k["width"], MaxItersS="{%d}" % k["max_iters"], NoEos="NoEos"),
                  invariants=["Export"])
    res = tlc.run(MOD, cfg, workers=2, coverage=False)
    tlc.require_ok(res, "BeamSearch/replay")
    key = (k["V"], k["tv"], k["eos"], bool(k["finish_all"]), k["max_iters"], k["width"])
    acc = [r for r in res.records if (r["V"], r["tv"], r["eos"], bool(r["fa"]), r["mi"], r["width"]) == key]
    n = c["tvs"].index(k["tv"])
    judge(ctx, key, acc, y[:, n], y_lens[n], lp[n].double(), "replay", c)


if __name__ == "__main__":
    sys.exit(main(PROP, "model_checking", run, replay))
