"""Helpers for X02 (LMState.tla): run the specification, build real models from its tables, replay one behaviour.

Everything that decides a verdict comes out of TLC: the tables the models are built from (ExportTables) and, per call
of a behaviour, the expected per-slot log-weights and the expected state of both registers (Export).  Python only
builds tensors (histories padded with garbage, index tensors in the different legal forms), projects the real state
dictionaries (TableLM path codes -> token sequences) and compares."""
import math
import os
import random
import zlib

from .. import SPECS, tlc
from ..harness import MachineryError

MOD = os.path.join(SPECS, "LMState.tla")
DESIGN_INVARIANTS = ["TypeOK", "HistoryDetermined", "StepIsDist", "ExtractLaws", "MixLaws", "WindowIsLastK", "FullIsSteps"]
EXPORT_INVARIANTS = ["TypeOK", "HistoryDetermined", "StepIsDist", "WindowIsLastK", "FullIsSteps", "ExportTables", "Export"]
FREE_ACTIONS = ["Step", "ExtractP", "ExtractQ", "Take", "Mix", "AppendP", "AppendQ"]
BETA2S = (0, 1, 2, 4)
OPS = ("Step", "ExtractP", "ExtractQ", "Take", "Mix", "AppendP", "AppendQ", "Full")


def constants(u, depth=0, fault="none", scripts=None, init_lens=None):
    lens = u.get("init_lens", (0,)) if init_lens is None else init_lens
    return dict(N=u["N"], V=u["V"], L=u["L"], K1=u["K1"], K2=u["K2"], SosIn="TRUE" if u["sos_in"] else "FALSE",
                Depth=depth, InitLens="{" + ", ".join(str(x) for x in lens) + "}",
                Beta2s="{" + ", ".join(str(b) for b in BETA2S) + "}", Fault='"%s"' % fault,
                Scripts=("<-", scripts or "NoScripts"))


# ---------------------------------------------------------------------------------------------- TLC runs
def split_records(records, what):
    tables = [r for r in records if "t1" in r]
    behs = [r for r in records if "ops" in r]
    if not tables:
        raise MachineryError("no tables exported for %s" % what)
    return tables[0], behs


def run_free(ctx, u, depth, workdir, workers=16, timeout=1500):
    """every behaviour of `depth` calls of universe u -> (tables, behaviours, TLC result)"""
    cfg = tlc.write_cfg(os.path.join(workdir, "LMState_free_%s_%d.cfg" % (u["name"], depth)), next="FreeNext",
                        constants=constants(u, depth=depth), invariants=EXPORT_INVARIANTS)
    res = tlc.run(MOD, cfg, workers=workers, timeout=timeout)
    tlc.require_ok(res, "LMState/free/%s" % u["name"])
    tlc.require_covered(res, FREE_ACTIONS + ["Full"], "LMState/free/%s" % u["name"])
    tables, behs = split_records(res.records, u["name"])
    res.records = []
    seen = set()
    out = []
    for b in behs:  # an invariant may be evaluated more than once for a state
        k = repr(b["ops"])
        if k not in seen:
            seen.add(k)
            out.append(b)
    return tables, out, res


def tla_seq(xs):
    return "<<" + ", ".join(xs) + ">>"


def tla_val(x):
    if isinstance(x, bool):
        return "TRUE" if x else "FALSE"
    if isinstance(x, (list, tuple)):
        return tla_seq([tla_val(v) for v in x])
    return str(int(x))


def write_script_module(path, name, scripts):
    lines = ["---- MODULE %s ----" % name, "EXTENDS LMState", "GenScripts == <<"]
    rows = []
    for s in scripts:
        ops = []
        for o in s["ops"]:
            if "a" in o:
                ops.append('[op |-> "%s", a |-> %s]' % (o["op"], tla_val(o["a"])))
            else:
                ops.append('[op |-> "%s"]' % o["op"])
        rows.append("  [init |-> %s, ops |-> %s]" % (tla_val(s["init"]), tla_seq(ops)))
    lines.append(",\n".join(rows))
    lines += [">>", "===="]
    with open(path, "w") as f:
        f.write("\n".join(lines) + "\n")


def run_scripted(ctx, u, scripts, workdir, tag, workers=16, timeout=1500):
    """the behaviours that follow `scripts` -> (tables, behaviours in script order, TLC result)"""
    name = "LMStateGen_%s_%s" % (u["name"], tag)
    mod = os.path.join(workdir, name + ".tla")
    write_script_module(mod, name, scripts)
    cfg = tlc.write_cfg(os.path.join(workdir, name + ".cfg"), next="ScriptNext",
                        constants=constants(u, scripts="GenScripts"), invariants=EXPORT_INVARIANTS)
    res = tlc.run(mod, cfg, workers=workers, timeout=timeout, lib=SPECS, coverage=False)
    tlc.require_ok(res, "LMState/scripted/%s" % name)
    tables, behs = split_records(res.records, name)
    res.records = []
    by = {}
    for b in behs:
        by[b["sid"]] = b
    if sorted(by) != list(range(1, len(scripts) + 1)):
        raise MachineryError("scripted run %s exported %d of %d behaviours" % (name, len(by), len(scripts)))
    return tables, [by[i] for i in range(1, len(scripts) + 1)], res


def gen_scripts(rng, u, count, length):
    """call sequences for the scripted mode: decoder-shaped rounds and random soups (which calls are legal, and what
    they answer, is decided by the specification)"""
    N, V, L = u["N"], u["V"], u["L"]

    def src():
        r = rng.random()
        if r < 0.15:
            return list(range(1, N + 1))
        if r < 0.4:
            p = list(range(1, N + 1))
            rng.shuffle(p)
            return p
        return [rng.randint(1, N) for _ in range(N)]

    def mask():
        r = rng.random()
        if r < 0.1:
            return [True] * N
        if r < 0.2:
            return [False] * N
        return [rng.random() < 0.5 for _ in range(N)]

    def toks():
        return [rng.randrange(V) for _ in range(N)]

    out = []
    for i in range(count):
        kind = i % 4
        init = [[rng.randrange(V) for _ in range(rng.choice((0, 0, 1, min(2, L))))] for _ in range(N)]
        if kind == 1:  # scoring given histories (SequentialLanguageModelDistribution.log_prob)
            ln = rng.randint(1, L)
            init = [[rng.randrange(V) for _ in range(ln)] for _ in range(N)]
        ops = []
        while len(ops) < length:
            if kind == 0:  # beam search round
                ops += [dict(op="Step"), dict(op="ExtractQ", a=src()), dict(op="AppendQ", a=toks()), dict(op="Take")]
                if rng.random() < 0.2:
                    ops.append(dict(op="Full"))
            elif kind == 1:
                ops += [dict(op="Step"), dict(op="Take")]
                if rng.random() < 0.25:
                    ops.append(dict(op="ExtractP", a=src()))
                if rng.random() < 0.15:
                    ops.append(dict(op="Full"))
            elif kind == 2:  # CTC prefix search round
                s = src()
                ops += [dict(op="Step"), dict(op="ExtractP", a=s), dict(op="ExtractQ", a=s), dict(op="AppendQ", a=toks()),
                        dict(op="Mix", a=mask())]
                if rng.random() < 0.2:
                    ops.append(dict(op="Full"))
            else:  # soup
                r = rng.random()
                if r < 0.28:
                    ops.append(dict(op="Step"))
                elif r < 0.42:
                    ops.append(dict(op="Take"))
                elif r < 0.52:
                    ops.append(dict(op="ExtractP", a=src()))
                elif r < 0.62:
                    ops.append(dict(op="ExtractQ", a=src()))
                elif r < 0.74:
                    ops.append(dict(op="Mix", a=mask()))
                elif r < 0.84:
                    ops.append(dict(op="AppendP", a=toks()))
                elif r < 0.94:
                    ops.append(dict(op="AppendQ", a=toks()))
                else:
                    ops.append(dict(op="Full"))
        out.append(dict(init=init, ops=ops[:length]))
    return out


def script_of(beh):
    """the call sequence of an exported behaviour (to have TLC recompute it: replay)"""
    ops = []
    for o in beh["ops"][1:]:
        if o["op"] == "Skip":
            continue
        if o["op"] in ("ExtractP", "ExtractQ"):
            ops.append(dict(op=o["op"], a=o["src"]))
        elif o["op"] == "Mix":
            ops.append(dict(op="Mix", a=o["mask"]))
        elif o["op"] in ("AppendP", "AppendQ"):
            ops.append(dict(op=o["op"], a=o["toks"]))
        else:
            ops.append(dict(op=o["op"]))
    return dict(init=beh["ops"][0]["p"]["h"], ops=ops)


# ---------------------------------------------------------------------------------------------- real models
def prob_dicts(tab, K, sos_sym, sos_real):
    """tables of the specification -> prob_dicts of LookupLanguageModel (order K + 1, every n-gram listed)"""
    dicts = []
    for k in range(1, K + 2):
        d = {}
        for e in tab[k - 1]:
            g = tuple(sos_real if x == sos_sym else x for x in e["g"])  # the start symbol of the specification -> the real id
            key = g[0] if k == 1 else g
            d[key] = float(e["lw"]) if k == K + 1 else (float(e["lw"]), float(e["bo"]))
        dicts.append(d)
    return dicts


def path_tables(tab, K, V, L, sos_sym):
    """tables of the specification -> TableLM tables: path code -> weights exp(lw) of the path's context"""
    import itertools

    from ..doubles.tablelm import code_of

    top = {tuple(e["g"]): e["lw"] for e in tab[K]}
    out = {}
    for ln in range(L + 1):
        for path in itertools.product(range(V), repeat=ln):
            ctx = (tuple([sos_sym] * K) + tuple(path))[len(path):] if K else ()
            out[code_of(path, V)] = [math.exp(top[ctx + (v,)]) for v in range(V)]
    return {0: out}


def decode_path(code, V):
    out = []
    code = int(code)
    while code > 0:
        out.append(code % (V + 1) - 1)
        code //= V + 1
    return out[::-1]


class Variant:
    def __init__(self, name, lm, expect, comps=(), caps="mix", stateless=False, tol=1e-5, scripted=False, cls=None):
        self.name = name
        self.lm = lm
        self.expect = expect  # "lw1" | "lw2" | ("fused2", b2)
        self.comps = comps  # ((key prefix, "c1" | "c2"), ...): TableLM components whose state is observable
        self.caps = caps  # "mix" | "extract" | "none"
        self.stateless = stateless
        self.tol = tol
        self.cls = cls or type(lm).__name__
        if scripted:
            self.cls += "(scripted)"


_MODELS = {}


def models_for(u, tables, sos_real):
    """all model variants of a universe (cached per process)"""
    key = (u["name"], sos_real)
    if key in _MODELS:
        return _MODELS[key]
    import warnings

    V, L, K1, K2 = u["V"], u["L"], u["K1"], u["K2"]
    sym = tables["sos"]
    with warnings.catch_warnings():
        warnings.simplefilter("ignore")
        import torch
        from pydrobert.torch.modules import (
            ExtractableShallowFusionLanguageModel,
            LookupLanguageModel,
            MixableShallowFusionLanguageModel,
            ShallowFusionLanguageModel,
        )

        from ..doubles.tablelm import TableLM

        d1 = prob_dicts(tables["t1"], K1, sym, sos_real)
        d2 = prob_dicts(tables["t2"], K2, sym, sos_real)

        def look(d):
            return LookupLanguageModel(V, sos_real, [dict(x) for x in d])

        def tab(which, dtype=torch.double, strict=True):
            t, K = (tables["t1"], K1) if which == 1 else (tables["t2"], K2)
            return TableLM(V, path_tables(t, K, V, L, sym), dtype=dtype, strict=strict)

        vs = []
        vs.append(Variant("lookup1", look(d1), "lw1", stateless=True))
        vs.append(Variant("lookup2", look(d2), "lw2", stateless=True))
        vs.append(Variant("lookup1_f64", look(d1).double(), "lw1", stateless=True, tol=1e-9))
        vs.append(Variant("lookup2_f64", look(d2).double(), "lw2", stateless=True, tol=1e-9))
        vs.append(Variant("lookup1_script", torch.jit.script(look(d1)), "lw1", stateless=True, scripted=True,
                          cls="LookupLanguageModel"))
        vs.append(Variant("lookup2_script", torch.jit.script(look(d2)), "lw2", stateless=True, scripted=True,
                          cls="LookupLanguageModel"))
        vs.append(Variant("table1", tab(1), "lw1", comps=(("", "c1"),), tol=1e-9, cls="TableLM(double)"))
        for b2 in BETA2S:
            beta = b2 / 2.0
            vs.append(Variant("mix_lookup1_table2_b%d" % b2, MixableShallowFusionLanguageModel(look(d1), tab(2), beta),
                              ("fused2", b2), comps=(("second.", "c2"),)))
            vs.append(Variant("mix_lookup1_lookup2_b%d" % b2, MixableShallowFusionLanguageModel(look(d1), look(d2), beta),
                              ("fused2", b2), stateless=True))
        vs.append(Variant("mix_table1_lookup2_b1_prefixes",
                          MixableShallowFusionLanguageModel(tab(1), look(d2), 0.5, "a.", "b:"),
                          ("fused2", 1), comps=(("a.", "c1"),)))
        vs.append(Variant("mix_table1_table2_b4_f64", MixableShallowFusionLanguageModel(tab(1), tab(2), 2.0),
                          ("fused2", 4), comps=(("first.", "c1"), ("second.", "c2")), tol=1e-9))
        vs.append(Variant("mix_lookup1f64_table2_b2", MixableShallowFusionLanguageModel(look(d1).double(), tab(2), 1.0),
                          ("fused2", 2), comps=(("second.", "c2"),), tol=1e-9))
        vs.append(Variant("mix_lookup1_table2f32_b1", MixableShallowFusionLanguageModel(look(d1), tab(2, torch.float), 0.5),
                          ("fused2", 1), comps=(("second.", "c2"),)))
        vs.append(Variant("mix_lookup1_table2loose_b2",
                          MixableShallowFusionLanguageModel(look(d1), tab(2, strict=False), 1.0),
                          ("fused2", 2), comps=(("second.", "c2"),)))
        vs.append(Variant("ext_lookup1_table2_b1", ExtractableShallowFusionLanguageModel(look(d1), tab(2), 0.5),
                          ("fused2", 1), comps=(("second.", "c2"),), caps="extract"))
        vs.append(Variant("ext_table1_lookup2_b4", ExtractableShallowFusionLanguageModel(tab(1), look(d2), 2.0),
                          ("fused2", 4), comps=(("first.", "c1"),), caps="extract"))
        vs.append(Variant("plain_lookup1_table2_b2", ShallowFusionLanguageModel(look(d1), tab(2), 1.0),
                          ("fused2", 2), comps=(("second.", "c2"),), caps="none"))
        vs.append(Variant("plain_table1_table2_b0", ShallowFusionLanguageModel(tab(1), tab(2), 0.0),
                          ("fused2", 0), comps=(("first.", "c1"), ("second.", "c2")), caps="none", tol=1e-9))
    _MODELS[key] = {v.name: v for v in vs}
    return _MODELS[key]


# ---------------------------------------------------------------------------------------------- replay
class Stop(Exception):
    pass


def replay_behaviour(job):
    """job = dict(u=universe, tables=.., beh=behaviour, variants=[names], seed=int, sos=real sos, dup=bool)
    -> dict(viol=[(sig, detail, case)], n=#comparisons, runs=#(behaviour, variant) replays, selfcheck=[...])"""
    import torch

    u, tables, beh = job["u"], job["tables"], job["beh"]
    N, V = u["N"], u["V"]
    models = models_for(u, tables, job["sos"])
    out = dict(viol=[], n=0, runs=0, selfcheck=[])
    for vname in job["variants"]:
        var = models[vname]
        rng = random.Random(job["seed"] * 1000003 + zlib.crc32(vname.encode()) % 1000)
        dup = 2 if (job.get("dup") and var.caps == "mix") else 1
        case = dict(u=u, sos=job["sos"], variant=vname, seed=job["seed"], dup=job.get("dup", False), script=script_of(beh))
        try:
            _replay_one(torch, var, beh, N, V, rng, dup, out, case)
        except Stop:
            pass
        out["runs"] += 1
    return out


def _expected(var, rec):
    """the specification's per-slot integer log-weights for this variant, as floats"""
    if var.expect in ("lw1", "lw2"):
        return [[float(x) for x in row] for row in rec[var.expect]]
    b2 = str(var.expect[1])
    return [[x / 2.0 for x in row[b2]] for row in rec["fused2"]]


def _expected_row(var, cell):
    if var.expect in ("lw1", "lw2"):
        return [float(x) for x in cell[var.expect]]
    return [x / 2.0 for x in cell["fused2"][str(var.expect[1])]]


def _replay_one(torch, var, beh, N, V, rng, dup, out, case):
    lm = var.lm
    ops = beh["ops"]
    M = N * dup

    def bad(method, kind, detail, step):
        c = dict(case)
        c["step"] = step
        out["viol"].append((dict(site="%s.%s" % (var.cls, method), kind=kind), "%s [variant %s, call %d %s]" % (
            detail, var.name, step, ops[step]["op"] if step < len(ops) else "?"), c))
        raise Stop()

    def matrix(hs, extra):
        """(S, M) long: column n holds hs[n], then garbage (any in-vocabulary token); dup copies get other garbage"""
        S = max(len(h) for h in hs) + extra
        m = torch.empty(S, M, dtype=torch.long)
        for d in range(dup):
            for n in range(N):
                col = list(hs[n]) + [rng.randrange(V) for _ in range(S - len(hs[n]))]
                m[:, d * N + n] = torch.tensor(col, dtype=torch.long) if S else torch.empty(0, dtype=torch.long)
        return m

    def tile(xs):
        return [x for _ in range(dup) for x in xs]

    def src_tensor(src):
        # the way the decoders address a flattened (batch, width) layout: row offset + index within the row
        return (torch.arange(0, M, N).unsqueeze(1) + torch.tensor([s - 1 for s in src]).unsqueeze(0)).flatten()

    def close(got, want):
        return abs(got - want) <= var.tol * max(1.0, abs(want))

    def check_state(state, view, method, kind, step):
        """projection of the real state dictionary: the path a TableLM component has folded in"""
        for prefix, comp in var.comps:
            for k in ("elem", "code", "len"):
                if prefix + k not in state:
                    bad(method, kind + "_missing_key", "state has no entry %r (keys %r)" % (prefix + k, sorted(state)), step)
            code, ln = state[prefix + "code"], state[prefix + "len"]
            if code.shape != (M,) or ln.shape != (M,):
                bad(method, kind + "_shape", "state entry %scode has shape %s, expected (%d,)" % (prefix, tuple(code.shape), M), step)
            want = tile(view[comp])
            for n in range(M):
                got = decode_path(code[n], V)
                if got != list(want[n]) or int(ln[n]) != len(want[n]):
                    other = [m for m in range(M) if list(want[m]) == got]
                    bad(method, kind + ("_other_slot" if other else ""),
                        "slot %d carries the state of path %r (len %d) for %r; the specification has %r (all slots: %r)" % (
                            n, got, int(ln[n]), prefix, list(want[n]), want), step)
            out["n"] += 1

    def check_rows(got, want, method, kind, step, what):
        if tuple(got.shape) != (M, V):
            bad(method, kind + "_shape", "%s: result has shape %s, expected %s" % (what, tuple(got.shape), (M, V)), step)
        want = tile(want)
        g = got.detach().double().tolist()
        for n in range(M):
            if not all(close(a, b) for a, b in zip(g[n], want[n])):
                other = [m for m in range(M) if m != n and all(close(a, b) for a, b in zip(g[n], want[m]))]
                bad(method, kind + ("_other_slot" if other else ""),
                    "%s: slot %d got %r, the specification has %r%s" % (
                        what, n, g[n], want[n], " (that is the answer of slot %d)" % other[0] if other else ""), step)
        out["n"] += 1

    def call(method, step, f):
        try:
            return f()
        except Stop:
            raise
        except Exception as ex:
            bad(method, "exception", "raised %s: %s" % (type(ex).__name__, ex), step)

    init = ops[0]["p"]
    hist0 = matrix(init["h"], 0)
    sp = call("update_input", 0, lambda: lm.update_input(dict(), hist0 if rng.random() < 0.5 else hist0[:0]))
    again = call("update_input", 0, lambda: lm.update_input(sp, hist0))
    if sorted(again) != sorted(sp) or any(not torch.equal(again[k], sp[k]) for k in sp):
        bad("update_input", "not_idempotent", "update_input(update_input(prev, hist), hist) differs from update_input(prev, hist)", 0)
    check_state(sp, init, "update_input", "state_initial", 0)
    sq = sp
    before = {"P": None, "Q": None}  # state before the previous extract of the register (composition law)
    for step in range(1, len(ops)):
        o = ops[step]
        kind = o["op"]
        if kind in ("ExtractP", "ExtractQ") and var.caps == "none":
            raise Stop()
        if kind == "Mix" and var.caps != "mix":
            raise Stop()
        prevp = ops[step - 1]["p"]
        if kind == "Step":
            hs = prevp["h"]
            idx = o["idx"]
            hist = matrix(hs, rng.choice((0, 0, 1, 2)))
            S = hist.size(0)
            want = _expected(var, o)
            idxt = torch.tensor(tile(idx), dtype=torch.long)
            forms = [("calc_idx_log_probs", "idx tensor (N,)", lambda: lm.calc_idx_log_probs(hist, sp, idxt)),
                     ("forward", "idx tensor (N,)", lambda: lm(hist, sp, idxt))]
            if o["shared"]:
                i = idx[0]
                forms += [("calc_idx_log_probs", "idx 0-dim tensor", lambda: lm.calc_idx_log_probs(hist, sp, torch.tensor(i))),
                          ("forward", "idx int %d" % i, lambda: lm(hist, sp, i)),
                          ("forward", "idx negative int %d" % (i - S - 1), lambda: lm(hist, sp, i - S - 1)),
                          ("forward", "idx -1 on hist[:%d]" % i, lambda: lm(hist[:i], sp, -1)),
                          ("forward", "idx tensor of shape (1,)", lambda: lm(hist, sp, torch.tensor([i])))]
            first = rng.randrange(len(forms))
            chosen = [first] + ([rng.randrange(len(forms))] if not var.stateless else list(range(len(forms))))
            new = None
            for j in dict.fromkeys(chosen):
                method, what, f = forms[j]
                res = call(method, step, f)
                if not (isinstance(res, tuple) and len(res) == 2):
                    bad(method, "step_result_type", "%s: expected (log_probs, next state), got %r" % (what, type(res)), step)
                check_rows(res[0], want, method, "step_value", step, what)
                check_state(res[1], o["q"], method, "state_after_step", step)
                if new is None:
                    new = res[1]
            check_state(sp, o["p"], "calc_idx_log_probs", "step_changed_input_state", step)
            sq = new
        elif kind in ("ExtractP", "ExtractQ"):
            reg = kind[-1]
            src = src_tensor(o["src"])
            old = sp if reg == "P" else sq
            new = call("extract_by_src", step, lambda: lm.extract_by_src(old, src))
            view = o["p"] if reg == "P" else o["q"]
            check_state(new, view, "extract_by_src", "state_after_extract", step)
            if o["comp"] and before[reg] is not None:
                comp = src_tensor(o["comp"])
                once = call("extract_by_src", step, lambda: lm.extract_by_src(before[reg], comp))
                check_state(once, view, "extract_by_src", "extract_composition", step)
            before[reg] = old
            if reg == "P":
                sp = new
            else:
                sq = new
        elif kind == "Take":
            sp = sq
        elif kind == "Mix":
            mask = torch.tensor(tile(o["mask"]), dtype=torch.bool)
            old = sp
            sp = call("mix_by_mask", step, lambda: lm.mix_by_mask(old, sq, mask))
            check_state(sp, o["p"], "mix_by_mask", "state_after_mix", step)
        elif kind == "Full":
            hs = prevp["h"]
            hist = matrix(hs, rng.choice((0, 0, 1)))
            S = hist.size(0)
            forms = [("forward", "idx=None, prev=None", lambda: lm(hist))]
            if var.stateless:
                forms.append(("forward", "idx=None, prev=current state", lambda: lm(hist, sp)))
                if hasattr(lm, "calc_full_log_probs_chunked"):
                    forms.append(("calc_full_log_probs_chunked", "chunk_size=2", lambda: lm.calc_full_log_probs_chunked(hist, sp, 2)))
            else:
                forms.append(("calc_full_log_probs", "prev=update_input({})", lambda: lm.calc_full_log_probs(hist, lm.update_input(dict(), hist))))
            for method, what, f in forms:
                res = call(method, step, f)
                if not isinstance(res, torch.Tensor) or tuple(res.shape) != (S + 1, M, V):
                    bad(method, "full_shape", "%s: expected a tensor of shape %s, got %s" % (
                        what, (S + 1, M, V), tuple(res.shape) if isinstance(res, torch.Tensor) else type(res)), step)
                g = res.detach().double().tolist()
                rows = tile(o["rows"])
                for n in range(M):
                    for p, cell in enumerate(rows[n]):
                        want = _expected_row(var, cell)
                        if not all(close(a, b) for a, b in zip(g[p][n], want)):
                            bad(method, "full_value", "%s: slot %d position %d (history %r) got %r, the specification has %r" % (
                                what, n, p, tile(hs)[n], g[p][n], want), step)
                out["n"] += 1
            if var.stateless:
                # a model without state may be asked for any position of any slot: the rows the specification gave
                rows = tile(o["rows"])
                for _ in range(2):
                    idx = [rng.randrange(len(rows[n])) for n in range(M)]
                    want = [_expected_row(var, rows[n][idx[n]]) for n in range(M)]
                    res = call("forward", step, lambda: lm(hist, sp, torch.tensor(idx)))
                    got = res[0].detach().double().tolist()
                    for n in range(M):
                        if not all(close(a, b) for a, b in zip(got[n], want[n])):
                            bad("forward", "any_position_value", "per-slot idx %r: slot %d (history %r) got %r, the specification has %r" % (
                                idx, n, tile(hs)[n], got[n], want[n]), step)
                    out["n"] += 1
        elif kind in ("AppendP", "AppendQ", "Skip"):
            pass
        else:
            raise MachineryError("unknown call %r in an exported behaviour" % kind)


def nontrivial(beh):
    """some step answers differently for two slots (the slots are in different contexts: routing is observable)"""
    for o in beh["ops"]:
        if o["op"] == "Step" and any(row != o["lw1"][0] or r2 != o["lw2"][0] for row, r2 in zip(o["lw1"], o["lw2"])):
            return True
    return False
