"""C16 -- a crash during an epoch update never loses the last or best checkpoint.

(1) TrainCtlFs.tla: the update refined into the code's file-system micro-steps with a Crash action at
    every program point; TLC checks Recoverable / ExactlyTwo / AllLoadable / Convergent exhaustively.
    A checkpoint's content is the epoch whose state it holds AND (optimizer) the learning rate it carries;
    the rate recorded for an epoch and the best epoch (by validation or, best_is_train, by training metric)
    are TrainCtl's, instantiated; the model exports them as the oracle of (2).
(2) fault enumeration on the REAL code: for every metric history and mode, the update is killed
    (FsInterposer, BaseException) before and after every file-system mutating call; a new controller is
    started on the same files and the property's clauses are evaluated on the real files.
    The model handed to the controller is a dimension of the enumeration (TrainCtlModel.tla): a plain network, the
    network inside torch.nn.DataParallel, the network inside a user-defined wrapper with a parameter of its own; the
    process started after the crash constructs the same kind of model and loads into it.
(3) code -> spec: the event traces of crash-free real runs are validated by TrainCtlFsTrace.tla, whose
    generic primitives evaluate the same invariants after every event."""
import itertools
import json
import os
import re
import shutil
import sys
import tempfile
import warnings

from .. import SPECS, par, tlc
from ..harness import MachineryError, main
from . import _tc

PROP = "C16"
MODES = {
    # name: (keep_lb, model_fmt, optim_fmt, epoch_in_name, best_is_train)
    "epoch_lb": (True, "model_{epoch:03d}.pt", "optim_{epoch:03d}.pt", True, False),
    "epoch_all": (False, "model_{epoch:03d}.pt", "optim_{epoch:03d}.pt", True, False),
    "noepoch_lb": (True, "model.pt", "optim.pt", False, False),
    "noepoch_all": (False, "model.pt", "optim.pt", False, False),
    # update_for_epoch(..., best_is_train=True): "best" = lowest TRAINING metric
    "epoch_lb_trn": (True, "model_{epoch:03d}.pt", "optim_{epoch:03d}.pt", True, True),
}
P0 = dict(P=2, B=0, TH=0, RP=1, RB=0, RC=0, RTH=1, ne=0, EK=9)  # lr reductions happen, no early stop
P1 = dict(P=1, B=1, TH=0, RP=2, RB=1, RC=1, RTH=1, ne=0, EK=1)


def namer(path):
    b = os.path.basename(str(path))
    m = re.match(r"(model|optim)(?:_(\d+))?\.pt$", b)
    if m:
        return [m.group(1)[0], int(m.group(2) or 0)]
    if b.endswith(".csv"):
        return ["csv", 0]
    return ["t", b]


def rows_for(vals):
    return [dict(epoch=e + 1, val=v, trn=((v * 3 + e + 1) % 5) + 1, user=(e + 1) * 7 + v) for e, v in enumerate(vals)]


def okey(p, bit):
    return (tuple(sorted(p.items())), bool(bit))


def oracle_for(oracles, p, bit, vals):
    """the specification's record for this parameter setting / notion of best / metric history: the rate (number of
    reductions) recorded for each epoch and the best epoch after each epoch (TrainCtlFs!Export; a history shorter
    than the model's is a prefix of one of the model's)"""
    table = oracles.get(okey(p, bit))
    if table is None:
        raise MachineryError("no TrainCtlFs run exported an oracle for %r best_is_train=%r" % (p, bit))
    n = len(vals)
    for M, rec in table.items():
        if list(M[:n]) == list(vals):
            return dict(lrk=rec["lrk"][:n], best=rec["best"][:n], trn=rec["trn"][:n])
    raise MachineryError("metric history %r not in the TrainCtlFs universe" % (vals,))


def lrk_of(lr):
    """rate -> number of reductions on the grid (99 = not a grid rate)"""
    if lr is None:
        return 0
    import math

    k = math.log(lr) / math.log(_tc.FACTOR) if lr > 0 else -1.0
    return int(round(k)) if abs(k - round(k)) < 1e-9 and 0 <= round(k) < 99 else 99


class Refused(Exception):
    pass


def content_of(obj):
    """which epoch's state a saved state dict holds (the harness sets weight = epoch and tags the optimizer's first group),
    whatever the names the model's entries were saved under"""
    try:
        for k in obj:
            if k == "weight" or (isinstance(k, str) and k.endswith(".weight")):
                return int(round(float(obj[k].flatten()[0])))
        if "param_groups" in obj:
            return int(round(float(obj["param_groups"][0].get("vf_epoch", -1))))
    except Exception:
        pass
    return -1


def _interposer(crash_at):
    from ..doubles.fsinterposer import FsInterposer

    class Interposer(FsInterposer):
        """also records WHICH PARAMETERS every saved model state dict holds (TrainCtlFsTrace: Ev.keys): its keys without
        the prefix a wrapper puts before the names of the network's entries"""

        def content_of(self, obj):
            self._keys = [] if "param_groups" in obj else sorted(
                str(k)[len("module."):] if str(k).startswith("module.") else str(k) for k in obj)
            return content_of(obj)

        def _after(self, what, info):
            if what == "write":
                info = dict(info, keys=self._keys)
            return FsInterposer._after(self, what, info)

    return Interposer(namer, crash_at)


def do_update(sim, row, crash_at=None, bit=False):
    with _interposer(crash_at) as ip:
        try:
            sim.update(row, best_is_train=bit)
        except ValueError as ex:
            if "would overwrite" in str(ex):
                raise Refused(str(ex))
            raise
    return ip


def check_recovery(sim, vals, mode, free_csv_rows, ctx_out, sig_base, case, orc):
    """evaluate the property's clauses on the real files after a crash; continue to the end"""
    keep_lb, _, _, epoch_fmt, bit = MODES[mode]

    def rate(e):
        return _tc.FACTOR ** orc["lrk"][e - 1]

    def close(a, b):
        return abs(a - b) <= 1e-12 * max(1.0, abs(b))

    def bad(kind, detail):
        s = dict(sig_base)
        s["kind"] = kind
        ctx_out.append((s, detail, case))

    try:
        ctl = sim.start()
    except Exception as ex:
        bad("recovery_load_last", "starting a controller on the files and loading the last epoch raised %r" % ex)
        return False
    try:
        got = [_tc.parse_csv_line(x) for x in sim.read_csv()]
    except Exception as ex:
        bad("history_unparsable", repr(ex))
        return False
    L = len(got)
    if got != free_csv_rows[:L]:
        bad("history_not_prefix", "recovered history %r is not a prefix of the uninterrupted one" % ([g["epoch"] for g in got],))
        return False
    if ctl.get_last_epoch() != L:
        bad("last_epoch", "get_last_epoch()=%r, history has %d rows" % (ctl.get_last_epoch(), L))
    kind = sim.model_kind
    if L > 0:
        w = _tc.epoch_of(sim.model)
        if w != L:
            bad("last_params", "%s model loaded for the last recorded epoch %d holds %s" % (
                kind, L, "the parameters of epoch %d" % w if w is not None else "parameters that were not saved for any one epoch"))
        tag = sim.opt.param_groups[0].get("vf_epoch", None)
        if tag != L:
            bad("last_optim_params", "optimizer loaded for the last recorded epoch %d holds the state of epoch %r" % (L, tag))
        lrs = sim.opt_lrs()
        if not all(close(x, rate(L)) for x in lrs):
            bad("last_optim_lr", "optimizer loaded for the last recorded epoch %d carries lr %r, the rate recorded for that epoch is %r" % (
                L, lrs, rate(L)))
    B = orc["best"][L - 1] if L > 0 else 0
    if ctl.get_best_epoch(bit) != B:
        bad("best_epoch", "get_best_epoch(%r)=%r expected %d" % (bit, ctl.get_best_epoch(bit), B))
    if B > 0 and (epoch_fmt or keep_lb):
        # (without the epoch in the file name and keeping everything the library documents that only the
        # last state persists, so the best epoch is not judged there)
        import torch

        m2 = _tc.make_model(kind)
        try:
            with warnings.catch_warnings():
                warnings.simplefilter("ignore")
                if bit:
                    ctl.load_model_for_epoch(m2, B)  # (without an epoch the library loads the validation-best)
                else:
                    ctl.load_model_for_epoch(m2)
            w = _tc.epoch_of(m2)
            if w != B:
                bad("best_params", "%s model loaded for the best epoch %d holds %s" % (
                    kind, B, "the parameters of epoch %d" % w if w is not None else "parameters that were not saved for any one epoch"))
            # ... and the optimizer state of the best epoch, with the rate recorded for it
            m3 = _tc.make_model(kind)
            o3 = torch.optim.SGD(m3.parameters(), lr=123.0, momentum=0.5)
            with warnings.catch_warnings():
                warnings.simplefilter("ignore")
                ctl.load_model_and_optimizer_for_epoch(m3, o3, B)
            if _tc.epoch_of(m3) != B:
                bad("best_params", "%s model loaded together with the optimizer for the best epoch %d holds the parameters of epoch %r" % (
                    kind, B, _tc.epoch_of(m3)))
            tag = o3.param_groups[0].get("vf_epoch", None)
            if tag != B:
                bad("best_optim_params", "optimizer loaded for the best epoch %d holds the state of epoch %r" % (B, tag))
            elif not close(o3.param_groups[0]["lr"], rate(B)):
                bad("best_optim_lr", "optimizer loaded for the best epoch %d carries lr %r, the rate recorded for that epoch is %r" % (
                    B, o3.param_groups[0]["lr"], rate(B)))
        except Exception as ex:
            bad("recovery_load_best", "loading the best epoch %d raised %r" % (B, ex))
    if not keep_lb and epoch_fmt:
        import torch

        for e in range(1, L + 1):
            m2 = _tc.make_model(kind)
            try:
                ctl.load_model_for_epoch(m2, e)
                if _tc.epoch_of(m2) != e:
                    bad("kept_epoch_params", "epoch %d not holding its parameters" % e)
                o2 = torch.optim.SGD(m2.parameters(), lr=123.0, momentum=0.5)
                ctl.load_model_and_optimizer_for_epoch(m2, o2, e)
                if not close(o2.param_groups[0]["lr"], rate(e)):
                    bad("kept_epoch_optim_lr", "optimizer of kept epoch %d carries lr %r, recorded %r" % (e, o2.param_groups[0]["lr"], rate(e)))
            except Exception as ex:
                bad("kept_epoch_unloadable", "recorded epoch %d cannot be loaded: %r" % (e, ex))
    return True


def continue_to_end(sim, vals, free_csv_text, ctx_out, sig_base, case, n_expected, bit=False):
    rows = rows_for(vals)
    L = len(sim.read_csv())
    try:
        for row in rows[L:n_expected]:
            do_update(sim, row, bit=bit)
    except Refused:
        pass
    except Exception as ex:
        s = dict(sig_base)
        s["kind"] = "continue_exception"
        ctx_out.append((s, "continuing after recovery raised %r" % ex, case))
        return
    with open(sim.csv) as f:
        text = f.read()
    if text != free_csv_text:
        s = dict(sig_base)
        s["kind"] = "history_diverges"
        ctx_out.append((s, "history after crash + continue differs from the uninterrupted history", case))


def scenario(job):
    """job = (mode, vals, p, base_dir, double, oracle[, model kind]) -> dict(results); oracle = oracle_for(...) (from the spec)"""
    mode, vals, p, base, double, orc = job[:6]
    kind = job[6] if len(job) > 6 else "plain"
    keep_lb, mfmt, ofmt, epoch_fmt, bit = MODES[mode]
    rows = rows_for(vals)
    out = []
    stats = dict(crash_points=0, crash_points_changed_files=0, double_crash_points=0, points=[])
    work = tempfile.mkdtemp(dir=base)
    try:
        # ---- crash-free run: count calls, record the trace, ExactlyTwo on the real directory
        d0 = os.path.join(work, "free")
        os.makedirs(d0)
        sim = _tc.Sim(d0, p, keep_lb, mfmt, ofmt, model_kind=kind)
        trace = []
        ncalls = []
        n_done = 0
        tmpids = {}
        for row in rows:
            e = row["epoch"]
            trace.append(dict(op="begin", e=e, v=row["val"]))
            try:
                ip = do_update(sim, row, bit=bit)
            except Refused:
                break  # documented: refuses to overwrite the best checkpoint
            except Exception as ex:
                out.append((dict(site="update_for_epoch", kind="exception", mode=mode), "crash-free update raised %r" % ex,
                            dict(mode=mode, vals=vals, p=p, oracle=orc, kind=kind)))
                return dict(out=out, stats=stats, trace=None)
            ncalls.append(ip.k)
            n_done += 1
            for ev in ip.events:
                if ev["op"] == "mktemp":
                    tmpids[ev["path"][1]] = len(tmpids) + 1
                    trace.append(dict(op="mktemp", t=tmpids[ev["path"][1]]))
                elif ev["op"] == "write":
                    trace.append(dict(op="write", t=tmpids.get(ev["path"][1], 0), c=ev["content"], k=lrk_of(ev.get("lr")),
                                      keys=ev["keys"]))
                elif ev["op"] == "replace":
                    trace.append(dict(op="replace", t=tmpids.get(ev["src"][1], 0), kind=ev["dst"][0], e=ev["dst"][1]))
                elif ev["op"] == "append":
                    trace.append(dict(op="append", e=e, v=row["val"], tv=row["trn"]))
                elif ev["op"] == "remove":
                    trace.append(dict(op="remove", kind=ev["path"][0], e=ev["path"][1]))
                else:
                    trace.append(dict(op="makedirs"))
            files = [namer(f) for f in sim.state_files()]
            trace.append(dict(op="end", e=e, files=files))
            if keep_lb:
                B = orc["best"][e - 1]
                want = sorted({("m", e if epoch_fmt else 0), ("o", e if epoch_fmt else 0),
                               ("m", B if epoch_fmt else 0), ("o", B if epoch_fmt else 0)})
                if sorted(map(tuple, files)) != want:
                    out.append((dict(site="update_for_epoch", kind="exactly_two", mode=mode),
                                "after the update of epoch %d the state directory holds %r, expected %r" % (e, files, want),
                                dict(mode=mode, vals=vals, p=p, epoch=e, oracle=orc, kind=kind)))
        free_rows = [_tc.parse_csv_line(x) for x in sim.read_csv()]
        with open(sim.csv) as f:
            free_text = f.read() if os.path.exists(sim.csv) else ""
        # ---- single crash at every call of every update
        for ei in range(n_done):
            for k in range(1, ncalls[ei] + 1):
                for side in ("before", "after"):
                    d = os.path.join(work, "c_%d_%d_%s" % (ei, k, side))
                    os.makedirs(d)
                    sim = _tc.Sim(d, p, keep_lb, mfmt, ofmt, model_kind=kind)
                    for row in rows[:ei]:
                        do_update(sim, row, bit=bit)
                    from ..doubles.fsinterposer import Crash

                    before_files = sim.state_files()
                    before_rows = len(sim.read_csv())
                    events = []
                    try:
                        ip = do_update(sim, rows[ei], (k, side), bit=bit)
                        events = ip.events
                        crashed = False
                    except Crash:
                        crashed = True
                    if not crashed:
                        shutil.rmtree(d, ignore_errors=True)
                        continue
                    stats["crash_points"] += 1
                    changed = sim.state_files() != before_files or len(sim.read_csv()) != before_rows
                    stats["crash_points_changed_files"] += int(changed)
                    stats["points"].append((ei, k, side, changed))
                    # the interposer of the crashed call is gone; recompute the window from the files' difference
                    win = classify_window(sim, before_rows, rows[ei]["epoch"], epoch_fmt)
                    case = dict(mode=mode, vals=vals, p=p, crash_epoch=ei + 1, crash_call=k, side=side, crashes=1, oracle=orc, kind=kind)
                    sig = dict(site="update_for_epoch", fmt="epoch" if epoch_fmt else "noepoch", keep="lb" if keep_lb else "all",
                               window=win, crashes=1)
                    if bit:
                        sig["best"] = "train"
                    if kind != "plain":
                        sig["model"] = kind
                    nb = len(out)
                    ok = check_recovery(sim, vals, mode, free_rows, out, sig, case, orc)
                    if ok and len(out) == nb:
                        if double:
                            double_crash(sim, d, vals, rows, mode, p, free_rows, free_text, out, stats, case, n_done, orc)
                        else:
                            continue_to_end(sim, vals, free_text, out, sig, case, n_done, bit)
                    shutil.rmtree(d, ignore_errors=True)
        return dict(out=out, stats=stats, trace=dict(keep_lb=keep_lb, best_is_train=bit, kind=kind, events=trace) if epoch_fmt else None,
                    n_done=n_done, ncalls=ncalls)
    finally:
        shutil.rmtree(work, ignore_errors=True)


def classify_window(sim, rows_before, epoch, epoch_fmt):
    """where the crash fell, judged from the files: was the row appended? were both files of the epoch replaced?"""
    appended = len(sim.read_csv()) > rows_before
    import torch

    def holds(kind):
        name = ("model" if kind == "m" else "optim") + ("_%03d.pt" % epoch if epoch_fmt else ".pt")
        pth = os.path.join(sim.state_dir, name)
        if not os.path.exists(pth):
            return False
        try:
            obj = torch.load(pth, map_location="cpu")
        except Exception:
            return False
        return content_of(obj) == epoch

    hm, ho = holds("m"), holds("o")
    if appended and not (hm and ho):
        return "append_before_replace"
    if not appended and (hm or ho):
        return "replace_before_append"
    if appended:
        return "after_save_and_append"
    return "before_any_commit"


def double_crash(sim, d, vals, rows, mode, p, free_rows, free_text, out, stats, case1, n_done, orc):
    """after one crash + restart, kill the next update again at every call"""
    from ..doubles.fsinterposer import Crash

    keep_lb, mfmt, ofmt, epoch_fmt, bit = MODES[mode]
    L = len(sim.read_csv())
    if L >= n_done:
        return
    snap = d + "_snap"
    shutil.copytree(d, snap)
    try:
        k = 0
        while True:
            k += 1
            progressed = False
            for side in ("before", "after"):
                d2 = d + "_2"
                shutil.rmtree(d2, ignore_errors=True)
                shutil.copytree(snap, d2)
                sim2 = _tc.Sim(d2, p, keep_lb, mfmt, ofmt, model_kind=sim.model_kind)
                rows_before = len(sim2.read_csv())
                try:
                    do_update(sim2, rows[rows_before], (k, side), bit=bit)
                    crashed = False
                except Crash:
                    crashed = True
                except Refused:
                    crashed = False
                if crashed:
                    progressed = True
                    stats["double_crash_points"] += 1
                    case = dict(case1)
                    case.update(crashes=2, second_crash_call=k, second_side=side)
                    win = classify_window(sim2, rows_before, rows[rows_before]["epoch"], epoch_fmt)
                    sig = dict(site="update_for_epoch", fmt="epoch" if epoch_fmt else "noepoch", keep="lb" if keep_lb else "all",
                               window=win, crashes=2)
                    if bit:
                        sig["best"] = "train"
                    if sim.model_kind != "plain":
                        sig["model"] = sim.model_kind
                    nb = len(out)
                    ok = check_recovery(sim2, vals, mode, free_rows, out, sig, case, orc)
                    if ok and len(out) == nb:
                        continue_to_end(sim2, vals, free_text, out, sig, case, n_done, bit)
                shutil.rmtree(d2, ignore_errors=True)
            if not progressed:
                break
    finally:
        shutil.rmtree(snap, ignore_errors=True)


def run_design(ctx):
    """-> oracles: (params, best_is_train) -> {metric history M -> record exported by the model}"""
    import threading

    mod = os.path.join(SPECS, "TrainCtlFs.tla")
    acts = ["Begin", "AppendFirst", "MkTmp", "WrTmp", "Repl", "AppendLast", "Clean", "Crash"]
    must_hold = ["epoch_lb", "epoch_lb_trn" if ctx.quick else "epoch_lb_trn2", "epoch_all_1crash"]
    repro_names = ["epoch_all", "noepoch_lb", "noepoch_all"]
    got, errs = {}, []

    def job(name, workers, coverage):
        try:
            got[name] = tlc.run(mod, os.path.join(SPECS, "TrainCtlFs_%s.cfg" % name), workers=workers, timeout=3000, coverage=coverage)
        except Exception as ex:
            errs.append(ex)

    ths = [threading.Thread(target=job, args=("epoch_lb", 9, True)), threading.Thread(target=job, args=(must_hold[1], 3 if ctx.quick else 6, True)),
           threading.Thread(target=job, args=("epoch_all_1crash", 2, True))]
    ths += [threading.Thread(target=job, args=(name, 1, False)) for name in repro_names]
    for th in ths:
        th.start()
    for th in ths:
        th.join()
    if errs:
        raise errs[0]
    oracles = {}
    for name in must_hold:
        res = got[name]
        tlc.require_ok(res, "TrainCtlFs/" + name)
        tlc.require_covered(res, [a for a in acts if not (a == "AppendFirst" and name.startswith("epoch_lb"))],
                            "TrainCtlFs/" + name)
        ctx.add_tlc("TrainCtlFs/" + name, res)
        for rec in res.records:
            oracles.setdefault(okey(rec["p"], rec["best_is_train"]), {})[tuple(rec["M"])] = rec
    # vacuity: in the model's universe rates do get reduced and the two notions of "best" do differ
    a, b = oracles.get(okey(P0, False), {}), oracles.get(okey(P0, True), {})
    if not a or not b or okey(P1, False) not in oracles:
        raise MachineryError("TrainCtlFs did not export the oracle of every (parameters, best_is_train) combination")
    if not any(r["lrk"][-1] > 0 for r in a.values()) or not any(a[M]["best"] != b[M]["best"] for M in a):
        raise MachineryError("TrainCtlFs universe is vacuous: no rate reduction or training-best = validation-best everywhere")
    # configurations in which the MODEL itself reproduces the recorded findings (not a verdict on the code)
    repro = {}
    for name in repro_names:
        res = got[name]
        repro[name] = "violates LastLoadable (as recorded in known_findings.json)" if not res.ok else "holds"
        ctx.add_tlc("TrainCtlFs/" + name, res, count_states=False)
    ctx.extra["model_reproduces_known_findings"] = repro
    return oracles


def validate_traces(ctx, traces):
    """code -> spec: batched validation of crash-free event traces"""
    if not traces:
        return
    path = os.path.join(ctx.workdir, "fs_traces.json")
    for n, t in enumerate(traces):
        t["tid"] = n + 1
    with open(path, "w") as f:
        json.dump(traces, f)
    accepted = set()
    res = tlc.run(os.path.join(SPECS, "TrainCtlFsTrace.tla"), os.path.join(SPECS, "TrainCtlFsTrace.cfg"), workers=1,
                  env={"TRACE_FILE": path}, timeout=3000, coverage=False,
                  on_record=lambda r: accepted.add(r["tid"]))
    ctx.add_tlc("TrainCtlFsTrace", res)
    if not res.ok:
        m = re.findall(r"/\\ i = (\d+)", res.stdout)
        inv = re.search(r"Invariant (\w+) is violated", res.stdout)
        tid = int(m[-1]) if m else 0
        t = traces[tid - 1] if 0 < tid <= len(traces) else None
        pos = re.findall(r"/\\ pos = (\d+)", res.stdout)
        ctx.violation(dict(site="update_for_epoch", kind="trace_rejected", invariant=inv.group(1) if inv else "?"),
                      "crash-free event trace rejected by TrainCtlFsTrace after %s events: %s violated" % (pos[-1] if pos else "?", inv.group(1) if inv else res.error),
                      dict(trace=t, mode=t.get("mode") if t else None, vals=t.get("vals") if t else None, p=t.get("p") if t else None, trace_only=True))
        return
    missing = [t for t in traces if t["tid"] not in accepted]
    ctx.traces += len(accepted)
    for t in missing[:3]:
        ctx.violation(dict(site="update_for_epoch", kind="trace_stuck"),
                      "crash-free event trace not explainable by the file-system primitives (an event matched no action)",
                      dict(trace=t, mode=t.get("mode"), vals=t.get("vals"), p=t.get("p"), trace_only=True))


def run(ctx):
    ctx.rule = ("for every metric history (3 levels, length 3 quick / 4 thorough) x 5 modes (epoch in name or not x keep "
                "last+best or everything; keep last+best with best_is_train) x parameter settings (learning-rate reductions fire): crash before and after EVERY file-system mutating call of "
                "EVERY update of the real controller (thorough: a second crash at every call of the re-run update), then "
                "restart on the same files and evaluate prefix / last+best loadable with the saved parameters and the recorded "
                "learning rate in the optimizer state (oracle: TrainCtlFs!Export) / continue "
                "to the same history; non-trivial = crash point at which files or history had already changed; distinct by "
                "(mode, parameters, history, epoch, call index, side[, second crash], model kind); "
                "model kind: a plain network everywhere, and for 2 (thorough: 8) seeded histories per mode the network wrapped in "
                "torch.nn.DataParallel and in a user-defined wrapper with a parameter of its own (the restarted process builds the "
                "same kind of model; every parameter, the wrapper's included, must come back as saved)")
    ctx.assumptions += ["a crash is modelled as a BaseException raised immediately before/after a mutating call; each call "
                        "(torch.save into the temporary file, os.replace, the history append closed by its `with`, os.remove) "
                        "is atomic", "left-over temporary files after a crash are tolerated",
                        "file-name format without the epoch field + keep-everything: only the last epoch is judged (the "
                        "library warns that only the last state persists)",
                        "wrapped models outside torch.distributed: torch.nn.DataParallel on the CPU (forwards to the network) and a "
                        "user module keeping the network in an attribute called `module`"]
    oracles = run_design(ctx)
    n = 3 if ctx.quick else 4
    hists = list(itertools.product((1, 2, 3), repeat=n))
    base = ctx.subdir("runs")
    jobs = []

    def add(mode, vals, p, double, kind="plain"):
        jobs.append((mode, list(vals), p, base, double, oracle_for(oracles, p, MODES[mode][4], list(vals)), kind))

    for mode in MODES:
        for vals in hists:
            add(mode, vals, P0, not ctx.quick and len(set(vals)) > 1 and ctx.rng.random() < 0.35)
    for mode in ("epoch_lb", "epoch_all"):
        for vals in ctx.rng.sample(hists, min(len(hists), 9 if ctx.quick else 40)):
            add(mode, vals, P1, False)
    # the model handed to the controller is a wrapper (TrainCtlModel): seeded histories in every mode
    for mode in MODES:
        for kind in _tc.MODEL_KINDS[1:]:
            for vals in ctx.rng.sample(hists, 2 if ctx.quick else 8):
                add(mode, vals, P0, False, kind)
    if ctx.quick:  # a few double-crash scenarios even in the quick tier
        for mode in MODES:
            for vals in ctx.rng.sample(hists, 2):
                add(mode, vals, P0, True)
    results = par.pmap(scenario, jobs, chunksize=1)
    traces = []
    tot = dict(crash_points=0, crash_points_changed_files=0, double_crash_points=0)
    for (mode, vals, p, _, double, _orc, kind), r in zip(jobs, results):
        for k in tot:
            tot[k] += r["stats"][k]
        ctx.case(n=r["stats"]["crash_points"] + r["stats"]["double_crash_points"])
        for ei, k, side, changed in r["stats"]["points"]:
            ctx.case(key=(mode, vals, sorted(p.items()), ei, k, side, double, kind), nontrivial=changed, n=0)
        if r.get("trace"):
            t = r["trace"]
            t.update(mode=mode, vals=vals, p=p)
            traces.append(t)
        for sig, detail, case in r["out"]:
            ctx.violation(sig, detail, case)
        if len(ctx.samples) < 5 and ctx.rng.random() < 0.05:
            ctx.samples.append(dict(mode=mode, val_metrics=vals, params=p, model=kind, mutating_calls_per_update=r.get("ncalls"),
                                    crash_points=r["stats"]["crash_points"], double_crash=double))
    ctx.extra.update(tot)
    ctx.exhaustive = True
    validate_traces(ctx, traces)
    if not ctx.samples:
        ctx.samples.append(dict(mode=jobs[0][0], val_metrics=jobs[0][1], params=P0))


def replay(ctx, case):
    if case.get("trace_only"):
        if "kind" not in (case.get("trace") or {}):
            raise MachineryError("stored trace carries no model kind (written by an older version of the check); re-run the check")
        validate_traces(ctx, [case["trace"]])
        return
    base = ctx.subdir("replay")
    orc = case.get("oracle")
    if orc is None:
        raise MachineryError("stored case carries no oracle (written by an older version of the check); re-run the check")
    r = scenario((case["mode"], case["vals"], case["p"], base, case.get("crashes", 1) > 1, orc, case.get("kind", "plain")))
    hit = False
    for sig, detail, c in r["out"]:
        if all(c.get(k) == case.get(k) for k in ("crash_epoch", "crash_call", "side", "second_crash_call", "second_side")):
            print("  ", sig, detail)
            ctx.violation(sig, detail, c)
            hit = True
    if not hit:
        print("replayed scenario: the recorded crash point no longer violates the property")


if __name__ == "__main__":
    sys.exit(main(PROP, "fault_enumeration", run, replay))
