"""Shared machinery for C12: design runs of DataDir.tla / DataDirIO.tla, concrete data directories
built from the abstract directories of the specification, projection of stored tensors back."""
import os
import shutil
import threading
import warnings

import torch

from .. import SPECS, tlc
from ..harness import MachineryError

MOD = os.path.join(SPECS, "DataDirMC.tla")
IOMOD = os.path.join(SPECS, "DataDirIO.tla")
DTYPES = {"f32": torch.float32, "f64": torch.float64, "i64": torch.int64, "i32": torch.int32,
          "i16": torch.int16, "i8": torch.int8, "u8": torch.uint8}
TAGS = dict((v, k) for k, v in DTYPES.items())
# concrete (prefix, suffix) pairs for the two abstract families: all different / same prefix /
# same suffix / empty prefix (no file of one family may match the other family's pattern)
PAIRINGS = [{1: ("x_", ".pt"), 2: ("y_", ".t")}, {1: ("x_", ".pt"), 2: ("x_", ".t")},
            {1: ("x_", ".pt"), 2: ("y_", ".pt")}, {1: ("", ".pt"), 2: ("", ".t")}]


def run_design(ctx):
    jobs = [("DataDir", MOD, "DataDir_%s.cfg" % ctx.tier, ["DoInject", "StartPass", "StepFeat", "StepAli", "StepRef"]),
            ("DataDirIO", IOMOD, "DataDirIO_%s.cfg" % ctx.tier, ["Read", "Write", "Disc"])]
    results, errs = {}, []

    def job(name, mod, cfg):
        try:
            results[name] = tlc.run(mod, os.path.join(SPECS, cfg), workers=8, timeout=3000)
        except Exception as ex:
            errs.append(ex)

    threads = [threading.Thread(target=job, args=j[:3]) for j in jobs]
    for th in threads:
        th.start()
    for th in threads:
        th.join()
    if errs:
        raise errs[0]
    for name, _, _, actions in jobs:
        tlc.require_ok(results[name], name)
        tlc.require_covered(results[name], actions, name)
        ctx.add_tlc(name, results[name])
    hist = results["DataDir"].records
    io = dict(ref=[], hyp=[], disc=[])
    for r in results["DataDirIO"].records:
        io[r["what"]].append(r)
    if not hist or not all(io.values()):
        raise MachineryError("design runs exported nothing")
    return hist, io


class Scratch:
    """scratch directories for the replays: in memory (/dev/shm) when there is one - creating and
    removing thousands of small directories is what the replays spend their time on - else under
    ctx.workdir; removed on exit either way"""

    def __init__(self, ctx):
        self.ctx, self.base = ctx, None

    def __enter__(self):
        import tempfile

        try:
            self.base = tempfile.mkdtemp(prefix="vf_%s_" % self.ctx.prop, dir="/dev/shm")
        except OSError:
            self.base = self.ctx.subdir("scratch")
        return self

    def sub(self, name):
        p = os.path.join(self.base, name)
        os.makedirs(p, exist_ok=True)
        return p

    def __exit__(self, *exc):
        shutil.rmtree(self.base, ignore_errors=True)
        return False


def quiet(fn, *a, **kw):
    with warnings.catch_warnings():
        warnings.simplefilter("ignore")
        return fn(*a, **kw)


# ----------------------------------------------------------------------------- abstract -> files
def utt_name(i):
    return "utt%d" % i


def feat_tensor(u):
    t = torch.arange(u["T"] * u["F"], dtype=DTYPES[u["fdt"]]).view(u["T"], u["F"])
    return t.unsqueeze(-1) if u["fnd"] == 3 else t


def ali_tensor(a):
    t = torch.tensor(a["vals"], dtype=DTYPES[a["dt"]]) if a["vals"] else torch.empty(0, dtype=DTYPES[a["dt"]])
    return t.unsqueeze(-1) if a["nd"] == 2 else t


def ref_tensor(r):
    dt = DTYPES[r["dt"]]
    if r["nd"] == 1:
        return torch.tensor([row[0] for row in r["rows"]], dtype=dt) if r["rows"] else torch.empty(0, dtype=dt)
    cols = r["cols"]
    if not r["rows"]:
        return torch.empty(0, cols, dtype=dt)
    return torch.tensor([row[:cols] for row in r["rows"]], dtype=dt)


def write_dir(root, d, hasali, hasref):
    if os.path.isdir(root):
        shutil.rmtree(root)
    os.makedirs(os.path.join(root, "feat"))
    if hasali:
        os.makedirs(os.path.join(root, "ali"))
    if hasref:
        os.makedirs(os.path.join(root, "ref"))
    for i, u in enumerate(d):
        fn = utt_name(i) + ".pt"
        torch.save(feat_tensor(u), os.path.join(root, "feat", fn))
        if hasali:
            torch.save(ali_tensor(u["ali"]), os.path.join(root, "ali", fn))
        if hasref:
            torch.save(ref_tensor(u["ref"]), os.path.join(root, "ref", fn))


# ----------------------------------------------------------------------------- files -> abstract
def _tag(t):
    return TAGS.get(t.dtype, str(t.dtype))


def read_dir(root, n, hasali, hasref, like):
    """project the stored tensors to the abstract directory (fields the directory does not have
    are copied from `like` so that records compare equal)"""
    out = []
    for i in range(n):
        fn = utt_name(i) + ".pt"
        f = quiet(torch.load, os.path.join(root, "feat", fn))
        u = dict(T=f.shape[0], fdt=_tag(f), fnd=f.dim(), F=f.shape[1] if f.dim() > 1 else 0,
                 ali=like[i]["ali"], ref=like[i]["ref"])
        if hasali:
            a = quiet(torch.load, os.path.join(root, "ali", fn))
            u["ali"] = dict(dt=_tag(a), nd=a.dim(), vals=[int(x) for x in a.reshape(-1).tolist()])
        if hasref:
            r = quiet(torch.load, os.path.join(root, "ref", fn))
            if r.dim() == 1:
                rows = [[int(x), -1, -1] for x in r.tolist()]
                cols = 3
            else:
                cols = r.shape[1] if r.dim() == 2 else -1
                rows = [[int(x) for x in row] for row in r.tolist()] if r.dim() == 2 else []
            u["ref"] = dict(dt=_tag(r), nd=r.dim(), cols=cols, rows=rows)
        out.append(u)
    return out


def norm_dir(d, hasali, hasref):
    """canonical comparable form of an abstract directory"""
    out = []
    for u in d:
        v = dict(T=u["T"], fdt=u["fdt"], fnd=u["fnd"], F=u["F"])
        if hasali:
            v["ali"] = (u["ali"]["dt"], u["ali"]["nd"], tuple(u["ali"]["vals"]))
        if hasref:
            r = u["ref"]
            rows = tuple((row[0], -1, -1) if r["nd"] == 1 else tuple(row[:r["cols"]]) for row in r["rows"])
            v["ref"] = (r["dt"], r["nd"], r["cols"] if r["nd"] == 2 else 3, rows)
        out.append(v)
    return out


def diff_dirs(a, b):
    for i, (x, y) in enumerate(zip(a, b)):
        for k in x:
            if x[k] != y.get(k):
                return "utterance %d %s: stored %r, specification %r" % (i, k, x[k], y.get(k))
    return None if len(a) == len(b) else "different number of utterances"


def all_diffs(a, b):
    """[(utterance, field, stored, specification)] for two norm_dir directories of equal length"""
    return [(i, k, x[k], y.get(k)) for i, (x, y) in enumerate(zip(a, b)) for k in x if x[k] != y.get(k)]


# ----------------------------------------------------------------------------- info
def fun_to_list(f):
    """TLC function with domain 0..m exported through JSON: dict with string keys, or list"""
    if isinstance(f, dict):
        return [f[str(i)] for i in range(len(f))]
    return list(f)


def parse_info(path):
    out = {}
    with open(path) as f:
        for line in f:
            k, v = line.split()
            out[k] = int(v)
    return out


def expected_info_keys(info):
    """{key: set of accepted values} from the specification's Info record"""
    exp = {}
    for k in ("num_utterances", "num_filts", "total_frames", "total_tokens", "max_ali_class", "max_ref_class"):
        exp[k] = {info[k]}
    cnt, sg = fun_to_list(info["count"]), fun_to_list(info["segs"])
    for i, (c, s) in enumerate(zip(cnt, sg)):
        exp[("count", i)] = {c}
        exp[("segs", i)] = {s}
    rc, rcs, rs = fun_to_list(info["rcount"]), fun_to_list(info["rcount_strict"]), fun_to_list(info["rsegs"])
    for i in range(len(rs)):
        exp[("rcount", i)] = {rc[i], rcs[i]}
        exp[("rsegs", i)] = {rs[i]}
    return exp, dict(("rcount_%d" % i, (rc[i], rcs[i])) for i in range(len(rs)) if rc[i] != rcs[i])


def info_key(k):
    head, _, tail = k.rpartition("_")
    if head in ("count", "segs", "rcount", "rsegs") and tail.isdigit():
        return (head, int(tail))
    return k
