"""C14 -- batching loses nothing: buckets, loaders and collation preserve every utterance.

Batching.tla: the bucket machine of BucketBatchSampler.__iter__ (Feed / EmitFull / EndFeed / Flush in
any order / Finish), the loaders' length-bucket assignment (python-indexed quantile bounds) and
__len__ prediction, checked by TLC against the property's clauses for every idx2bucket /
bucket2size / drop over <= 4 indices and every length vector over <= 5 utterances.
BatchingCollate.tla: sort / pad / concatenate vs. "cutting back returns the utterances, the rest is
padding, ids stay", and extract_window vs. the clamped index range.

code -> spec: the real BucketBatchSampler is iterated on TLC's exported cases (indices and bucket
keys renamed) behind a recording sampler proxy; SpectDataLoader / LangDataLoader /
ContextWindowDataLoader run on real temporary directories built from TLC's length vectors
(num_workers=0, values encode (utterance, frame)); every run (feed / yield / exhausted / stop +
reported length) must be accepted by BatchingTrace, every collated batch (projected to provenance)
by BatchingCollateTrace.  spec -> code: predicted lengths, accepted batch sequences of sequential
loaders, the window table, same (seed, epoch) => same batches.

Histories (BatchingDir.tla): the data directory is state, constructing a loader is an action that
reads it.  TLC exports histories "loader over rendition r1, [files of r1 regenerated,] loader over
rendition r2" of one directory holding two renditions of the same utterance ids; each is replayed on
ONE real directory path (feat/ vs feat_b/ of a SpectDataSet directory, file prefixes a_ / b_ of a
LangDataSet directory) with real loaders built one after the other in this process, and the recorded
history (what was written, the real idx2bucket / bucket2size of every loader, feed / yield / stop
events) must be accepted by BatchingDirTrace, which reads every loader's lengths off ITS OWN
directory state: the length classes of a loader must be those of the data it serves.

Utterances without frames / tokens ((0, F) feature files with empty alignments, empty transcripts) are legal
data: Batching.tla (Sources modifier "zero") assigns them to the lowest length class, BatchingCollate.tla
(MinT = 0) keeps their row, size entry 0 and id (OneEntryPerUtterance, EmptyUtterancesStay).  The exported
batches go through the three collation functions, the exported length vectors become real directories
under ContextWindowDataLoader / SpectDataLoader / LangDataLoader.

Under an initialised process group (BatchingDist.tla = C14's clauses over the job model DistLoader.tla of
the extra check X03, reused): the exported sequential jobs (one loader per rank, W dividing the data or
not, raise / drop / uneven / ignore, bucketed or not) are replayed on real loaders by X03's job runner
under the FakeDist double - len(loader) asked before every epoch and the batches of every rank must be
the specification's -, and seeded shuffled jobs are validated by BatchingDistTrace (TLC infers the epoch
order).  The length of a rank's loader is that of ITS OWN share, and shares may be uneven."""
import json
import os
import random
import sys
import threading

import torch

from .. import par
from ..harness import MachineryError, main
from . import _batching as B
from . import _distloader as DL
from . import _tracecheck

PROP = "C14"
KEYSETS = [lambda j: j, lambda j: 9 - 3 * j, lambda j: "bkt%d" % ((j * 2) % 5), lambda j: (1, -j)]


# ----------------------------------------------------------------------------- BucketBatchSampler
def run_bucket_case(c, rng, tid):
    from pydrobert.torch.data import BucketBatchSampler

    n = c["n"]
    order = rng.sample(range(3 * n + 2), n)
    key = KEYSETS[rng.randrange(len(KEYSETS))]
    idx2bucket = dict((order[p], key(c["i2b"][p])) for p in range(n))
    bucket2size = dict((key(j), s) for j, s in enumerate(c["size"]))
    events = []
    bs = BucketBatchSampler(B.RecordingSampler(list(order), events), idx2bucket, bucket2size, c["drop"])
    failed = None
    try:
        it = iter(bs)
        while True:
            try:
                b = next(it)
            except StopIteration:
                events.append(("stop", -1))
                break
            events.append(("yield", [int(x) for x in b]))
    except Exception as ex:
        failed = repr(ex)
    lens = dict((order[p], c["lens"][p]) for p in range(n)) if c["src"] == "lengths" else None
    tr = B.abstract_trace(tid, n, events, idx2bucket, bucket2size, c["drop"], lens,
                          c["nbreq"], c["bsz"], c["dyn"], keys=[key(j) for j in range(len(c["size"]))])
    return tr, failed, dict(type="bucket", c=c, order=order, keyset=KEYSETS.index(key))


# ----------------------------------------------------------------------------- loaders
class DirPool:
    """one real data directory per length vector (built on demand inside ctx.workdir)"""

    def __init__(self, ctx):
        self.root = ctx.subdir("dirs")
        self.made = {}

    def get(self, lens, variant="full"):
        k = (tuple(lens), variant)
        if k not in self.made:
            d = os.path.join(self.root, "d%d" % len(self.made))
            n = len(lens)
            Rs = [lens[(i + 1) % n] for i in range(n)] if n else []
            if variant == "lang":
                Rs = list(lens)
            B.build_dir(d, lens, Rs, with_ali=variant != "noali", with_ref=variant != "noref",
                        two_d=variant == "ref2d")
            self.made[k] = (d, Rs)
        return self.made[k]


def _names(n):
    return dict((B.utt_name(i), i + 1) for i in range(n))


def make_loader(cfg, pool, init_epoch=0):
    """cfg: dict(kind, lens, nbreq, bsz, dyn, drop, shuffle, sort, bf, salis, suttids, tokens_only, variant,
    left, right, rev, seed)"""
    from pydrobert.torch import data as D

    d, Rs = pool.get(cfg["lens"], cfg["variant"])
    if cfg["kind"] == "spect":
        p = D.SpectDataLoaderParams(batch_size=cfg["bsz"], drop_last=cfg["drop"],
                                    num_length_buckets=cfg["nbreq"], size_batch_by_length=cfg["dyn"])
        # the deprecated SpectTrainingDataLoader / SpectEvaluationDataLoader are SpectDataLoaders with other defaults;
        # every argument is given by keyword, so they must behave exactly like the plain class
        cls = {None: D.SpectDataLoader, "training": D.SpectTrainingDataLoader,
               "evaluation": D.SpectEvaluationDataLoader}[cfg.get("wrapper")]
        return B.quiet(cls, d, p, shuffle=cfg["shuffle"], batch_first=cfg["bf"],
                       sort_batch=cfg["sort"], init_epoch=init_epoch, seed=cfg["seed"],
                       suppress_alis=cfg["salis"], suppress_uttids=cfg["suttids"],
                       tokens_only=cfg["tokens_only"], num_workers=0, **cfg.get("extra", {})), Rs
    if cfg["kind"] == "lang":
        p = D.LangDataLoaderParams(batch_size=cfg["bsz"], drop_last=cfg["drop"],
                                   num_length_buckets=cfg["nbreq"], size_batch_by_length=cfg["dyn"])
        return B.quiet(D.LangDataLoader, os.path.join(d, "ref"), p, shuffle=cfg["shuffle"],
                       batch_first=cfg["bf"], sort_batch=cfg["sort"], init_epoch=init_epoch,
                       seed=cfg["seed"], suppress_uttids=cfg["suttids"], num_workers=0,
                       **cfg.get("extra", {})), Rs
    p = D.ContextWindowDataLoaderParams(batch_size=cfg["bsz"], drop_last=cfg["drop"],
                                        context_left=cfg["left"], context_right=cfg["right"],
                                        reverse=cfg["rev"])
    return B.quiet(D.ContextWindowDataLoader, d, p, shuffle=cfg["shuffle"], init_epoch=init_epoch,
                   seed=cfg["seed"], suppress_uttids=cfg["suttids"], num_workers=0), Rs


def bucket_maps(loader, n, bsz):
    from pydrobert.torch.data import BucketBatchSampler

    bs = loader.batch_sampler
    if isinstance(bs, BucketBatchSampler):
        return dict(bs.idx2bucket), dict(bs.bucket2size), True
    return dict((i, 0) for i in range(n)), {0: bsz}, False


def batch_ids(cfg, batch, names):
    """utterance numbers (1-based) of the rows of a collated batch, and the abstract record"""
    lens = cfg["lens"]
    if cfg["kind"] == "spect":
        out = B.project_spect(batch, cfg["bf"], not cfg["salis"], not cfg["suttids"], names)
    elif cfg["kind"] == "lang":
        out = B.project_lang(batch, cfg["bf"], not cfg["suttids"], names)
    else:
        if cfg["suttids"]:
            cent = [w[cfg["right"] if cfg["rev"] else cfg["left"]] for w in
                    B.project_window(batch, False, ids=[], sizes=[])["wins"]]
            ids, sizes = [], []
            for v in cent:
                u = v // 100 if v > 0 else -1
                if ids and ids[-1] == u and sizes[-1] < (lens[u - 1] if 0 < u <= len(lens) else 0):
                    sizes[-1] += 1
                else:
                    ids.append(u)
                    sizes.append(1)
            out = B.project_window(batch, False, ids=ids, sizes=sizes)
        else:
            out = B.project_window(batch, True, names)
    return out["ids"], out


def items_of(cfg, Rs, us):
    """abstract collation input for the utterances us (1-based numbers), in that order"""
    lens = cfg["lens"]
    items = []
    for u in us:
        ok = 0 < u <= len(lens)
        T = lens[u - 1] if ok else 1
        if cfg["kind"] == "lang":
            items.append(dict(id=u, T=1, R=Rs[u - 1] if ok else 0, A=False))
        elif cfg["kind"] == "window":
            items.append(dict(id=u, T=T, R=-1, A=cfg["variant"] != "noali"))
        else:
            items.append(dict(id=u, T=T, R=(Rs[u - 1] if ok else 0) if cfg["variant"] != "noref" else -1,
                              A=(not cfg["salis"]) and cfg["variant"] != "noali"))
    return items


def run_epoch(cfg, loader, Rs, events, names, tag):
    """iterate one epoch; append yield/stop events; return (batches, collate traces, failure)"""
    n = len(cfg["lens"])
    batches, ctraces = [], []
    fedpos = {}
    try:
        it = iter(loader)
        while True:
            try:
                batch = next(it)
            except StopIteration:
                events.append(("stop", len(loader)))
                break
            ids, out = batch_ids(cfg, batch, names)
            for e in events:
                if e[0] == "feed" and e[1] not in fedpos:
                    fedpos[e[1]] = len(fedpos)
            # rows may have been sorted by the collation: present the batch in feed order
            fed_order = sorted(ids, key=lambda u: fedpos.get(u - 1, 10 ** 6))
            events.append(("yield", [u - 1 for u in (ids if not cfg["sort"] else fed_order)]))
            batches.append(batch)
            ctraces.append(dict(tid="%s-b%d" % (tag, len(batches)), kind=cfg["kind"] if cfg["kind"] != "cw" else "window",
                                items=items_of(cfg, Rs, ids if not cfg["sort"] else fed_order),
                                sort=bool(cfg["sort"]), left=cfg["left"], right=cfg["right"], rev=cfg["rev"],
                                out=out))
    except Exception as ex:
        return batches, ctraces, "%s: %r" % (type(ex).__name__, ex)
    return batches, ctraces, None


def same_batches(a, b):
    if len(a) != len(b):
        return False
    for x, y in zip(a, b):
        if len(x) != len(y):
            return False
        for p, q in zip(x, y):
            if isinstance(p, torch.Tensor):
                if not (isinstance(q, torch.Tensor) and p.shape == q.shape and torch.equal(p, q)):
                    return False
            elif p != q:
                return False
    return True


def run_loader(ctx, cfg, pool, spec, tid, out):
    """one loader configuration: two epochs recorded, twin loader at init_epoch=1.
    spec: the exported record of the (lens, nbreq, bsz, dyn, drop) case or None.
    Appends to out['bucket'], out['collate'] (traces) and out['meta'][tid] = (cfg, site)."""
    site = {"spect": "SpectDataLoader", "lang": "LangDataLoader", "window": "ContextWindowDataLoader"}[cfg["kind"]]
    if cfg.get("wrapper"):
        site = {"training": "SpectTrainingDataLoader", "evaluation": "SpectEvaluationDataLoader"}[cfg["wrapper"]]
    n = len(cfg["lens"])
    names = _names(n)
    case = dict(type="loader", cfg=cfg)

    def viol(kind, detail):
        sig = dict(site=site, kind=kind)
        ctx.violation(sig, "%s: %s" % (describe(cfg), detail), case)

    try:
        loader, Rs = make_loader(cfg, pool)
    except Exception as ex:
        kind = "exception"
        if n == 0 and cfg["nbreq"] > 1 and isinstance(ex, IndexError):
            kind = "exception-empty-dataset-length-buckets"
        elif cfg["kind"] == "lang" and cfg["suttids"] and cfg["nbreq"] > 1 and isinstance(ex, IndexError):
            kind = "exception-length-buckets-suppressed-uttids"
        viol(kind, "constructing the loader raised %s: %r" % (type(ex).__name__, ex))
        return
    try:
        found = len(loader.dataset)
    except Exception:
        found = n
    if found != n:
        viol("utterances-not-found", "the loader's data set holds %d utterances, the directory %d" % (found, n))
        return
    i2b, b2s, bucketed = bucket_maps(loader, n, cfg["bsz"])
    lens_by_idx = dict((i, (Rs[i] if cfg["kind"] == "lang" else cfg["lens"][i])) for i in range(n))
    if spec is not None and bucketed:
        got_i2b = [i2b.get(i) for i in range(n)]
        got_size = [b2s.get(j) for j in range(len(b2s))]
        if got_i2b != spec["c"]["i2b"]:
            ctx.count("informational_bucket_assignment_differs_from_Boundaries")
        elif got_size != spec["c"]["size"]:
            ctx.count("informational_bucket_sizes_differ_from_documented_formula")
    events = []
    loader.batch_sampler.sampler = B.RecordingSampler(loader.batch_sampler.sampler, events)
    try:
        L0 = len(loader)
    except Exception as ex:
        viol("exception", "len(loader) raised %r" % ex)
        return
    if spec is not None and L0 != spec["plen"] and (not bucketed or [i2b.get(i) for i in range(n)] == spec["c"]["i2b"]
                                                      and [b2s.get(j) for j in range(len(b2s))] == spec["c"]["size"]):
        viol("len", "len(loader)=%d, the specification predicts %d batches" % (L0, spec["plen"]))
    epochs = []
    for ep in (0, 1):
        del events[:]
        batches, ctr, failed = run_epoch(cfg, loader, Rs, events, names, "%s-e%d" % (tid, ep))
        if failed:
            viol("exception", "epoch %d: %s" % (ep, failed))
            return
        epochs.append(batches)
        tr = B.abstract_trace("%s-e%d" % (tid, ep), n, events, i2b, b2s, cfg["drop"],
                              lens_by_idx if bucketed else None, cfg["nbreq"], cfg["bsz"], cfg["dyn"])
        out["bucket"].append(tr)
        out["collate"] += ctr
        out["meta"][tr["tid"]] = (cfg, site)
        for c in ctr:
            out["meta"][c["tid"]] = (cfg, site)
        if loader.epoch != ep + 1:
            viol("epoch-counter", "loader.epoch=%r after epoch %d" % (loader.epoch, ep))
        # spec -> code: a sequential loader's batches must be one of the accepted sequences
        if spec is not None and not cfg["shuffle"] and spec.get("accepted") is not None and \
                [i2b.get(i) for i in range(n)] == spec["c"]["i2b"] and \
                [b2s.get(j) for j in range(len(b2s))] == spec["c"]["size"]:
            got = [e[1] for e in events if e[0] == "yield"]
            if got not in spec["accepted"]:
                viol("batches", "sequential batches %r not among the accepted %r" % (got, spec["accepted"][:4]))
    # same (seed, epoch) => identical batches: a fresh loader constructed at epoch 1 ...
    try:
        twin, _ = make_loader(cfg, pool, init_epoch=1)
        tb = list(twin)
        # ... and the first loader sent back to epoch 1
        loader.epoch = 1
        again = list(loader)
    except Exception as ex:
        viol("exception", "twin loader: %r" % ex)
        return
    if not same_batches(tb, epochs[1]):
        viol("not-reproducible-init-epoch", "a loader constructed with init_epoch=1 delivers other batches "
             "than one iterated up to epoch 1 (same seed)")
    if not same_batches(again, epochs[1]):
        viol("not-reproducible-epoch-reset", "resetting loader.epoch to 1 delivers other batches than "
             "the first pass through epoch 1")
    if cfg["shuffle"] and n >= 4 and same_batches(epochs[0], epochs[1]):
        ctx.count("informational_shuffled_epochs_identical")


# ----------------------------------------------------------------------------- histories of loaders
HSITE = {"spect": "SpectDataLoader", "lang": "LangDataLoader"}


def history_flags(rng, kind):
    cfg = random_flags(rng, kind)
    cfg.pop("wrapper", None)
    cfg.update(variant="lang" if kind == "lang" else "noali", tokens_only=True, salis=True)
    return cfg


def run_history(rec, kind, root, tid, rng=None, flags=None):
    """Replay one exported history on ONE real directory path.  rec: the "hist" record of BatchingDir
    (n, dir0, steps).  Returns (history trace for BatchingDirTrace, collate traces, failure, flags used,
    per-loader notes)."""
    n = rec["n"]
    hd = B.HistDir(root, kind, n)
    for r in sorted(rec["dir0"]):
        hd.write(r, rec["dir0"][r])
    names = _names(n)
    events, ctraces, used, notes = [], [], [], []
    nopen = 0
    for step in rec["steps"]:
        r = step["r"]
        if step["op"] == "write":
            hd.write(r, step["lens"])
            events.append(dict(op="write", r=r, lens=[int(x) for x in step["lens"]], a=0, items=[]))
            continue
        cfg = dict(flags[nopen]) if flags is not None else history_flags(rng, kind)
        cfg.update(lens=list(hd.lens[r]), nbreq=step["nbreq"], bsz=step["bsz"], dyn=step["dyn"], drop=step["drop"],
                   extra=hd.extra(r))
        used.append(dict((k, v) for k, v in cfg.items() if k not in ("lens", "extra")))
        hd.current = r
        where = "loader %d (%s, rendition %s = %r)" % (nopen + 1, describe(cfg), hd.extra(r), hd.lens[r])
        try:
            loader, Rs = make_loader(cfg, hd)
        except MachineryError:
            raise
        except Exception as ex:
            return None, ctraces, "constructing %s raised %s: %r" % (where, type(ex).__name__, ex), used, notes
        if len(loader.dataset) != n:
            return None, ctraces, "%s: the data set holds %d utterances, the directory %d" % (
                where, len(loader.dataset), n), used, notes
        i2b, b2s, bucketed = bucket_maps(loader, n, cfg["bsz"])
        evs = []
        loader.batch_sampler.sampler = B.RecordingSampler(loader.batch_sampler.sampler, evs)
        _, ctr, failed = run_epoch(cfg, loader, Rs, evs, names, "%s-l%d" % (tid, nopen))
        if failed:
            return None, ctraces, "%s: %s" % (where, failed), used, notes
        ctraces += ctr
        seg = B.abstract_trace(tid, n, evs, i2b, b2s, cfg["drop"], None, cfg["nbreq"], cfg["bsz"], cfg["dyn"])
        if sorted(seg["ord"]) != list(range(n)):
            return None, ctraces, "%s: the epoch fed the indices %r" % (where, seg["ord"]), used, notes
        events.append(dict(op="open", r=r, ord=seg["ord"], nbreq=cfg["nbreq"], bsz=cfg["bsz"], dyn=bool(cfg["dyn"]),
                           drop=bool(cfg["drop"]), i2b=seg["i2b"], size=seg["size"], a=0, items=[], lens=[]))
        events += seg["events"]
        notes.append(dict(i2b=[i2b.get(i) for i in range(n)], size=[b2s.get(j) for j in range(len(b2s))],
                          bucketed=bucketed, spec_i2b=step["i2b"], spec_size=step["size"], lens=list(hd.lens[r])))
        nopen += 1
    tr = dict(tid=tid, n=n, dir=dict((r, [int(x) for x in v]) for r, v in rec["dir0"].items()), events=events)
    return tr, ctraces, None, used, notes


def classify_history(tr, v, notes):
    """label a rejected history (labelling only; the verdict is TLC's)"""
    why = v["why"]
    ev = v.get("event") or {}
    if why.startswith("invariant"):
        name = why.split()[1]
        if name in ("ClassesOfServedData", "LengthMonotone", "BatchesArePure", "BatchesPureOnDisk"):
            k = sum(1 for e in tr["events"][:v["matched"]] if e["op"] == "open")
            if ev.get("op") == "open" and k >= 2:
                # are the classes of this loader those of the data an EARLIER loader of the history served?
                cur = notes[k - 1]
                for old in notes[:k - 1]:
                    if cur["i2b"] == old["i2b"] and all(
                            old["lens"][i] >= old["lens"][j] or cur["i2b"][i] <= cur["i2b"][j]
                            for i in range(len(old["lens"])) for j in range(len(old["lens"]))):
                        return "length-classes-of-an-earlier-loaders-data"
            return "length-classes-mixed"
        return classify_bucket(tr, v)
    if ev.get("op") == "open":
        return "loader-parameters"
    return classify_bucket(tr, v)


def pick_histories(recs, rng, num):
    """distinct (directory, steps) histories; mostly those in which the second loader's data differs from
    what the first one read and more than one length class is requested"""
    seen, good, rest = set(), [], []
    for r in sorted(recs, key=lambda r: repr((r["n"], sorted(r["dir0"].items()), r["steps"]))):
        key = repr((r["n"], sorted(r["dir0"].items()), r["steps"]))
        if key in seen:
            continue
        seen.add(key)
        opens = [s for s in r["steps"] if s["op"] == "open"]
        differs = len(opens) >= 2 and opens[0]["lens"] != opens[-1]["lens"]
        (good if differs and r["n"] >= 2 and opens[-1]["nbreq"] >= 2 else rest).append(r)
    k = min(len(good), (num * 3) // 4)
    return rng.sample(good, k) + rng.sample(rest, min(len(rest), num - k))


def run_histories(ctx, recs, rng):
    import shutil

    picks = pick_histories(recs, rng, 160 if ctx.quick else 1500)
    root = ctx.subdir("hist")
    traces, ctraces, meta, cmeta, info = [], [], {}, {}, {}
    for i, rec in enumerate(picks):
        kind = "spect" if i % 2 == 0 else "lang"
        tid = "hist-%d" % i
        d = os.path.join(root, "h%d" % i)
        case = dict(type="history", rec=dict(n=rec["n"], dir0=rec["dir0"], steps=rec["steps"]), kind=kind)
        try:
            tr, ctr, failed, used, notes = run_history(rec, kind, d, tid, rng=rng)
        finally:
            shutil.rmtree(d, ignore_errors=True)
        case["flags"] = used
        opens = [s for s in rec["steps"] if s["op"] == "open"]
        ctx.case(key=("history", kind, repr(rec["dir0"]), repr(rec["steps"]), repr(used)),
                 nontrivial=len(opens) >= 2 and opens[0]["lens"] != opens[-1]["lens"] and opens[-1]["nbreq"] >= 2,
                 sample=dict(history=dict(kind=kind, dir0=rec["dir0"],
                                          steps=[(s["op"], s["r"], s["lens"], s["nbreq"], s["i2b"]) for s in rec["steps"]]))
                 if i == 3 else None)
        if failed:
            ctx.violation(dict(site=HSITE[kind], kind="exception"), "history %r: %s" % (rec["steps"], failed), case)
            continue
        for nt in notes:
            if nt["bucketed"] and nt["i2b"] != nt["spec_i2b"]:
                ctx.count("informational_history_assignment_differs_from_Boundaries")
        traces.append(tr)
        info[tid] = (case, notes, kind)
        for c in ctr:
            cmeta[c["tid"]] = (None, HSITE[kind], "history %s" % tid, case)
        ctraces += ctr
    ctx.count("loader_histories", len(picks))
    validate_history(ctx, traces, info, "BatchingDirTrace/histories")
    validate_collate(ctx, ctraces, cmeta, "BatchingCollateTrace/histories")
    return traces


def validate_history(ctx, traces, info, name):
    verdicts = _tracecheck.validate(ctx, name, B.DTRACE_MOD, B.DTRACE_CFG, traces, chunk=2000)
    for tr in traces:
        v = verdicts[tr["tid"]]
        if v is None:
            continue
        case, notes, kind = info[tr["tid"]]
        k = sum(1 for e in tr["events"][:max(v["matched"], 1)] if e["op"] == "open")
        ctx.violation(dict(site=HSITE[kind], kind=classify_history(tr, v, notes)),
                      "history over one directory (initially %r; steps %r): TLC rejects the recorded run at event %d "
                      "%r (%s), i.e. at loader %d of the history, whose real idx2bucket is %r over the lengths %r" % (
                          tr["dir"], [(e["op"], e["r"], e.get("lens")) for e in tr["events"] if e["op"] in ("write", "open")],
                          v["matched"], v.get("event"), v["why"], k,
                          notes[k - 1]["i2b"] if 0 < k <= len(notes) else None,
                          notes[k - 1]["lens"] if 0 < k <= len(notes) else None), case)
    ctx.traces += len(traces)


def describe(cfg):
    return ("%s lens=%r buckets=%d batch=%d dynamic=%s drop_last=%s shuffle=%s sort_batch=%s batch_first=%s "
            "suppress_alis=%s suppress_uttids=%s variant=%s" % (
                cfg["kind"], cfg["lens"], cfg["nbreq"], cfg["bsz"], cfg["dyn"], cfg["drop"], cfg["shuffle"],
                cfg["sort"], cfg["bf"], cfg["salis"], cfg["suttids"], cfg["variant"]))


def random_flags(rng, kind):
    cfg = dict(kind=kind, shuffle=rng.random() < 0.5, sort=rng.random() < 0.5, bf=rng.random() < 0.5,
               salis=rng.random() < 0.5, suttids=rng.random() < 0.4, tokens_only=True,
               variant="full", left=0, right=0, rev=False,
               seed=rng.choice((0, 0, rng.randrange(1, 1000), 2 ** 31 - 1)))  # 0 is a seed like any other, not "unset"
    if kind == "spect":
        cfg["variant"] = rng.choice(["full", "full", "full", "noali", "noref", "ref2d"])
        cfg["tokens_only"] = cfg["variant"] != "ref2d"
        cfg["wrapper"] = rng.choice([None, None, None, None, "training", "evaluation"])
    elif kind == "lang":
        cfg["variant"] = "lang"
        cfg["salis"] = True
    else:
        cfg.update(sort=False, bf=True, salis=False, left=rng.randrange(3), right=rng.randrange(3),
                   rev=rng.random() < 0.5, variant=rng.choice(["full", "noali"]), nbreq=1, dyn=False)
    return cfg


# ----------------------------------------------------------------------------- loaders of a distributed job
# C14's clauses quantify over every loader, also over the W loaders of a torch.distributed job (BatchingDist.tla on top
# of DistLoader.tla).  The real loaders are run by X03's job runner (_distloader.Job: one loader object per simulated rank
# under the FakeDist double, len(loader) asked before every epoch, every pull / batch recorded), reused unchanged.
def dist_describe(job):
    return ("%s under an initialised process group: N=%d W=%d %s on_uneven_distributed=%s drop_last=%s batch_size=%d "
            "num_length_buckets=%d lens=%r seed=%r" % (
                DL.SITE[job["loader"]], job["N"], job["W"], "shuffled" if job["kind"] == "random" else "sequential",
                job["lmode"], job["dropLast"], job["bsz"], job["nbreq"], job["lens"], job["seed"]))


def dist_strip(job):
    return dict((k, v) for k, v in job.items() if k not in ("dir", "root"))


def dist_eff_mode(job):
    """labelling only (the verdicts use the specification's EffModeOf)"""
    return "ignore" if job["cls"] == "window" else ("drop" if job["dropLast"] else job["lmode"])


def group_dist_cases(jobs):
    """exported job records -> {case key: dict(c, refuses, acc[rank][epoch] = dict(fed, len, batches: [accepted lists]))}"""
    out = {}
    for r in jobs:
        c = r["c"]
        k = json.dumps(c, sort_keys=True)
        g = out.get(k)
        if g is None:
            g = out[k] = dict(c=c, refuses=r["refuses"], acc=None)
        if r["refuses"] != g["refuses"]:
            raise MachineryError("exported jobs of one case disagree on refusal: %r" % (c,))
        if r["refuses"]:
            continue
        if g["acc"] is None:
            g["acc"] = [[dict(fed=e["fed"], len=e["len"], batches=[]) for e in rk] for rk in r["ranks"]]
        for rk, grk in zip(r["ranks"], g["acc"]):
            for e, ge in zip(rk, grk):
                if e["fed"] != ge["fed"] or e["len"] != ge["len"]:
                    raise MachineryError("a sequential job's shard / length is not determined: %r" % (c,))
                if e["batches"] not in ge["batches"]:
                    ge["batches"].append(e["batches"])
    return out


def dist_job_of_case(c, loader, root):
    return dict(N=c["N"], W=c["W"], kind=c["kind"], cls=c["cls"], loader=loader, lmode=c["lmode"],
                dropLast=c["dropLast"], bsz=c["bsz"], nbreq=c["nbreq"], dyn=c["dyn"], lens=list(c["lens"]),
                seed=0, root=root, epochs=2, twin=False, sched="ranks", sched_seed=0)


def random_dist_job(rng, root, quick):
    """a seeded SHUFFLED job, mostly with a world size that does not divide the number of utterances"""
    W = rng.choice([2, 2, 3, 3, 4])
    N = rng.randint(1, 7 if quick else 10)
    if N % W == 0 and rng.random() < 0.7:
        N += 1
    which = rng.choice(["spect", "spect", "lang", "lang", "window"])
    nbreq = rng.choice([1, 1, 2, 3])
    job = dict(N=N, W=W, kind="random", cls="spect", loader=which, lmode=rng.choice(["uneven", "uneven", "drop", "ignore", "raise"]),
               dropLast=rng.random() < 0.25, bsz=rng.randint(1, 3), nbreq=nbreq, dyn=False,
               lens=[rng.randint(1, 3) for _ in range(N)], seed=rng.choice([0, 1, 2 ** 31 - 1, rng.randrange(1, 100000)]),
               epochs=2, twin=rng.random() < 0.4, sched=rng.choice(["ranks", "mix"]), sched_seed=rng.randrange(1 << 20),
               root=root)
    if which == "window":
        job.update(cls="window", lmode="ignore", nbreq=1)
    return job


def compare_dist(ctx, g, job, out):
    """one sequential job of the real loaders against the specification's exported job; only C14's clauses are judged
    (the constructor's refusal and the rank's share of the epoch are C13's / the extra check X03's)"""
    c = g["c"]
    site = DL.SITE[job["loader"]]
    case = dict(type="dist", job=dist_strip(job), spec=dict(c=c, refuses=g["refuses"], acc=g["acc"]))

    def viol(kind, detail):
        ctx.violation(dict(site=site, kind=kind, context="distributed", mode=c["mode"]),
                      "%s: %s" % (dist_describe(job), detail), case)

    if out["failed"]:
        viol("exception", out["failed"])
        return
    raised = sorted(int(r) for r in out["raised"])
    if g["refuses"] or raised:
        if raised != (list(range(c["W"])) if g["refuses"] else []):
            ctx.count("informational_dist_constructor_refusal_differs_from_specification")
        return
    if not (out["maps"] is not None and list(out["maps"][0]) == c["i2b"] and list(out["maps"][1]) == c["size"]):
        ctx.count("informational_bucket_assignment_differs_from_Boundaries")
        return
    by = dict(((r["rank"], r["epoch"]), r) for r in out["recs"])
    for r in range(c["W"]):
        for e in range(2):
            want = g["acc"][r][e]
            got = by.get((r, e))
            if got is None or len(by) != len(out["recs"]):
                viol("epoch-counter", "rank %d: epochs reported %r, expected 0 and 1" % (
                    r, [x["epoch"] for x in out["recs"] if x["rank"] == r]))
                return
            if got["fed"] != want["fed"]:
                ctx.count("informational_dist_share_of_the_rank_differs_from_specification")
                continue
            if got["batches"] not in want["batches"]:
                nfed, ngot = len(got["fed"]), sum(len(b) for b in got["batches"])
                viol("batches" if ngot == sum(len(b) for b in want["batches"][0]) else "index-lost-or-duplicated",
                     "rank %d epoch %d: the rank's sampler produced %r (%d indices), the loader delivered the batches %r; "
                     "the specification accepts %r" % (r, e, got["fed"], nfed, got["batches"], want["batches"][:4]))
            if got["len"] != want["len"]:
                viol("len", "rank %d: len(loader)=%d before epoch %d, the rank then delivered %d batches; the specification "
                     "says %d (the rank's own share is %d utterances)" % (
                         r, got["len"], e, len(got["batches"]), want["len"], len(want["fed"])))


DIST_INV_KIND = {"LenIsBatchesYielded": "len", "LenAgrees": "len", "LenIsBatchingLen": "len",
                 "NothingLostPerRank": "index-lost-or-duplicated", "BatchesOfOneBucketInOrder": "batch-content-or-size",
                 "BatchesWellFormed": "batch-content-or-size"}


def classify_dist(tr, v):
    """label a rejected recorded job; None: rejected for a clause that is not C14's (share of the rank, refusal, epoch
    order shared by the ranks ...: C13 / X03)"""
    why = v["why"]
    if why.startswith("invariant"):
        return DIST_INV_KIND.get(why.split()[1])
    ev = v.get("event") or {}
    if ev.get("op") == "yield":
        return "batch-content-or-size"
    if ev.get("op") == "finish":
        nb = 0
        for e in reversed(tr["events"][:v["matched"]]):
            if e["rank"] != ev["rank"]:
                continue
            if e["op"] == "begin":
                break
            nb += e["op"] == "yield"
        return "len" if ev.get("a") != nb else "incomplete-batch-withheld"
    return None


def validate_dist(ctx, traces, name):
    return _tracecheck.validate(ctx, name, B.DISTTRACE_MOD, B.DISTTRACE_CFG, traces, chunk=400, timeout=3000)


def judge_dist(ctx, traces, meta, verdicts):
    for tr in traces:
        v = verdicts[tr["tid"]]
        if v is None:
            continue
        job, case = meta[tr["tid"]]
        kind = classify_dist(tr, v)
        if kind is None:
            ctx.count("informational_dist_job_rejected_for_a_clause_outside_C14")
            continue
        ctx.violation(dict(site=DL.SITE[job["loader"]], kind=kind, context="distributed", mode=dist_eff_mode(job)),
                      "%s: TLC rejects the recorded job at event %d %r (%s); preceding events %r" % (
                          dist_describe(job), v["matched"], v.get("event"), v["why"],
                          [(e["op"], e["rank"], e["a"], e["items"]) for e in tr["events"][max(0, v["matched"] - 8):v["matched"]]]),
                      case)
    ctx.traces += len(traces)


def start_dist(ctx, recs):
    """spec -> code on the exported sequential jobs; the seeded shuffled jobs are handed to TLC in a thread (joined by
    finish_dist).  Called before the parent process has done any tensor work (par.pmap forks)."""
    rng = random.Random(ctx.seed * 7919 + 1403)
    # vacuity: the universe must hold jobs whose ranks report DIFFERENT lengths (uneven shares) - the length of a rank is
    # not "N / W cut into batches"
    uneven = [r for r in recs["distinfo"] if not r["sameLen"] and not r["refuses"]]
    if not any(r["mode"] == "uneven" and r["nbreq"] == 1 for r in uneven):
        raise MachineryError("BatchingDist: no exported job in which the ranks report different lengths")
    ctx.extra["dist_spec_jobs_with_different_lengths_per_rank"] = len(uneven)
    cases = group_dist_cases(recs["job"])
    root = ctx.subdir("dist")
    items = []
    for n, k in enumerate(sorted(cases)):
        g = cases[k]
        c = g["c"]
        real_split = c["W"] > 1 and c["N"] % c["W"] != 0
        if ctx.quick and not real_split and rng.random() < 0.8:
            continue  # quick: every job whose world size does not divide the data, a seeded fifth of the others
        for loader in (("window",) if c["cls"] == "window" else
                       (("spect", "lang") if not ctx.quick else (("spect", "lang")[n % 2],))):
            items.append((g, dist_job_of_case(c, loader, root)))
    rjobs = [random_dist_job(rng, root, ctx.quick) for _ in range(120 if ctx.quick else 1500)]
    outs = par.pmap(DL.run_job, [it[1] for it in items] + rjobs)
    for (g, job), out in zip(items, outs):
        compare_dist(ctx, g, job, out)
        c = g["c"]
        ctx.case(key=("dist", job["loader"], json.dumps(c, sort_keys=True)),
                 nontrivial=c["W"] > 1 and c["N"] >= c["W"] and c["mode"] != "ignore",
                 sample=dict(distributed_job=dist_describe(job), refuses=g["refuses"],
                             ranks=[[dict(pulled=e["fed"], batches=e["batches"][0], len=e["len"]) for e in rk]
                                    for rk in (g["acc"] or [])])
                 if (c["N"], c["W"], c["lmode"], c["bsz"], c["nbreq"], c["dropLast"], c["cls"]) == (
                     3, 2, "uneven", 1, 1, False, "spect") else None)
        ctx.traces += 1
    ctx.count("dist_sequential_jobs_replayed", len(items))
    traces, meta = [], {}
    nq = 0
    for n, (job, out) in enumerate(zip(rjobs, outs[len(items):])):
        case = dict(type="distjob", job=dist_strip(job))
        ctx.case(key=("distjob", repr(sorted(dist_strip(job).items()))),
                 nontrivial=job["W"] > 1 and job["N"] >= job["W"] and dist_eff_mode(job) != "ignore")
        if out["failed"]:
            ctx.violation(dict(site=DL.SITE[job["loader"]], kind="exception", context="distributed", mode=dist_eff_mode(job)),
                          "%s: %s" % (dist_describe(job), out["failed"]), case)
            continue
        nq += out["fd_calls"]
        tid = "dist-%d" % n
        traces.append(DL.header(tid, job, out["maps"], out["events"]))
        meta[tid] = (job, case)
    if not nq:
        raise MachineryError("FakeDist was never queried: the double is not bound")
    ctx.count("dist_shuffled_jobs_run", len(rjobs))
    box = {}

    def work():
        try:
            box["verdicts"] = validate_dist(ctx, traces, "BatchingDistTrace/shuffled")
        except BaseException as ex:  # re-raised by finish_dist
            box["err"] = ex

    th = threading.Thread(target=work)
    th.start()
    return th, box, traces, meta


def finish_dist(ctx, handle):
    th, box, traces, meta = handle
    th.join()
    if "err" in box:
        raise box["err"]
    judge_dist(ctx, traces, meta, box["verdicts"])
    return traces


# ----------------------------------------------------------------------------- direct collation
def run_collate_case(c, rng, tid):
    """one exported collate case through the real collation function"""
    from pydrobert.torch import data as D

    kind, items = c["kind"], c["items"]
    bf = rng.random() < 0.5
    has_uttids = rng.random() < 0.6
    two_d = kind != "window" and rng.random() < 0.3
    names = dict(("utt%d" % it["id"], it["id"]) for it in items)
    seq = []
    for it in items:
        u = it["id"]
        if kind == "lang":
            tup = [B.ref_tensor(u, it["R"], two_d)]
        elif kind == "window":
            feat = B.feat_tensor(u, it["T"])
            if it["T"]:
                win = torch.stack([D.extract_window(feat, t, c["left"], c["right"], c["rev"]) for t in range(it["T"])])
            else:  # no frames, no windows: what ContextWindowDataSet yields for a (0, F) feature file
                win = feat.new_zeros((0, 1 + c["left"] + c["right"], B.NFILT))
            tup = [win, B.ali_tensor(u, it["T"]) if it["A"] else None]
        else:
            tup = [B.feat_tensor(u, it["T"]), B.ali_tensor(u, it["T"]) if it["A"] else None,
                   B.ref_tensor(u, it["R"], two_d) if it["R"] >= 0 else None]
        if has_uttids:
            tup.append("utt%d" % u)
        seq.append(tuple(tup) if (len(tup) > 1 or kind != "lang") else tup[0])
    if kind == "lang" and has_uttids:
        seq = [tuple(x) for x in seq]
    call = dict(type="collate", c=c, bf=bf, has_uttids=has_uttids, two_d=two_d)
    try:
        if kind == "spect":
            res = D.spect_seq_to_batch(seq, bf, c["sort"], True, has_uttids)
            out = B.project_spect(res, bf, True, has_uttids, names, hint_ids=[it["id"] for it in items])
        elif kind == "lang":
            res = D.lang_seq_to_batch(seq, bf, c["sort"], has_uttids)
            out = B.project_lang(res, bf, has_uttids, names, hint_ids=[it["id"] for it in items])
        else:
            res = D.context_window_seq_to_batch(seq, has_uttids)
            out = B.project_window(res, has_uttids, names, ids=[it["id"] for it in items],
                                   sizes=[it["T"] for it in items])
    except Exception as ex:
        return None, "%s: %r" % (type(ex).__name__, ex), call
    tr = dict(tid=tid, kind=kind, items=items, sort=c["sort"], left=c["left"], right=c["right"],
              rev=c["rev"], out=out)
    return tr, None, call


SITE_COLLATE = {"spect": "spect_seq_to_batch", "lang": "lang_seq_to_batch", "window": "context_window_seq_to_batch"}


def classify_collate(tr, expected):
    """label a rejected collation (labelling only; the verdict is TLC's): which part of the record
    is wrong relative to the accepted outputs the specification listed"""
    got = tr["out"]
    expected = expected or []
    if not expected:
        return "collation"
    e0 = expected[0]
    for k in ("hasali", "hasref"):
        if k in e0 and e0[k] != got.get(k):
            return "optional-part"
    szk = "rsz" if tr["kind"] == "lang" else ("wsz" if tr["kind"] == "window" else "fsz")
    if sorted(got.get("ids", [])) != sorted(e0["ids"]):
        return "ids-detached"
    if sorted(got.get(szk, [])) != sorted(e0[szk]):
        return "sizes"
    if tr["sort"] and any(a < b for a, b in zip(got[szk], got[szk][1:])):
        return "not-sorted"
    same = [e for e in expected if e["ids"] == got["ids"]]
    if not same:
        return "order-changed" if not tr["sort"] else "ids-detached"
    e = same[0]
    for k in sorted(e):
        if e[k] == got.get(k):
            continue
        if k in ("feats", "alis", "refs", "wins"):
            try:
                for r1, r2 in zip(e[k], got[k]):
                    if r1 != r2:
                        if isinstance(r1, list) and len(r1) == len(r2):
                            j = [x != y for x, y in zip(r1, r2)].index(True)
                            return "padding" if r1[j] == 0 else "value"
                        return "value" if isinstance(r1, list) else "value"
            except Exception:
                pass
            return "value"
        return {"fsz": "sizes", "rsz": "sizes", "wsz": "sizes"}.get(k, "collation")
    return "collation"


def classify_bucket(tr, v):
    why = v["why"]
    if why.startswith("invariant"):
        name = why.split()[1]
        return {"Conservation": "index-lost-or-duplicated", "ExactlyOnceOrDropped": "index-lost",
                "SingleBucketInOrder": "mixed-buckets-or-order", "SizesAndTrailing": "batch-size",
                "PredictedIsActual": "len", "LengthMonotone": "length-classes-mixed",
                "BatchesArePure": "length-classes-mixed"}.get(name, "invariant-" + name)
    ev = v.get("event") or {}
    op = ev.get("op")
    if op == "stop":
        nb = sum(1 for e in tr["events"] if e["op"] == "yield")
        return "len" if ev.get("a", -1) not in (-1, nb) else "incomplete-batch-withheld"
    if op == "yield":
        return "batch-content-or-size"
    if op == "feed":
        return "feed-after-full-batch"
    if op == "exhausted":
        return "sampler-not-exhausted"
    return "rejected"


# ----------------------------------------------------------------------------- entry points
def window_table(ctx, rows):
    from pydrobert.torch.data import extract_window

    for q in rows:
        T = q["T"]
        feat = B.feat_tensor(1, T)
        try:
            w = extract_window(feat, q["c"], q["l"], q["r"], q["rv"])
            got = [B.proj_frame(w[j]) for j in range(w.size(0))]
        except Exception as ex:
            ctx.violation(dict(site="extract_window", kind="exception"), "%r raised %r" % (q, ex),
                          dict(type="window", q=q))
            continue
        exp = [B.val(1, j + 1) for j in q["w"]]
        edge = q["c"] - q["l"] < 0 or q["c"] + q["r"] + 1 > T
        ctx.case(key=("window", T, q["c"], q["l"], q["r"], q["rv"]), nontrivial=edge,
                 sample=dict(window=q) if (T, q["c"], q["l"], q["r"], q["rv"]) == (3, 0, 2, 1, False) else None)
        if got != exp:
            ctx.violation(dict(site="extract_window", kind="edge-replication" if edge else "value"),
                          "T=%d centre=%d left=%d right=%d reverse=%s: frames %r, the specification says %r" % (
                              T, q["c"], q["l"], q["r"], q["rv"], got, exp), dict(type="window", q=q))
        ctx.traces += 1


def validate_bucket(ctx, traces, meta, name):
    verdicts = _tracecheck.validate(ctx, name, B.TRACE_MOD, B.TRACE_CFG, traces, chunk=2000)
    for tr in traces:
        v = verdicts[tr["tid"]]
        if v is None:
            continue
        info = meta[tr["tid"]]
        site = info[1]
        ctx.violation(dict(site=site, kind=classify_bucket(tr, v)),
                      "%s: TLC rejects the recorded run at event %d %r (%s); events %r" % (
                          info[2] if len(info) > 2 else describe(info[0]), v["matched"], v.get("event"), v["why"],
                          [(e["op"], e["a"], e["items"]) for e in tr["events"]][:20]),
                      info[3] if len(info) > 3 else dict(type="loader", cfg=info[0]))
    ctx.traces += len(traces)


def validate_collate(ctx, traces, meta, name):
    verdicts = _tracecheck.validate(ctx, name, B.CTRACE_MOD, B.CTRACE_CFG, traces, chunk=2000, want_expected=True)
    for tr in traces:
        v = verdicts[tr["tid"]]
        if v is None:
            continue
        info = meta[tr["tid"]]
        site = info[1]
        ctx.violation(dict(site=site, kind=classify_collate(tr, v.get("expected"))),
                      "%s: TLC rejects the collated batch %r for items %r (sort=%s)" % (
                          info[2] if len(info) > 2 else describe(info[0]), tr["out"], tr["items"], tr["sort"]),
                      info[3] if len(info) > 3 else dict(type="loader", cfg=info[0]))
    ctx.traces += len(traces)


def unbounded_bucket_lemma(ctx):
    """TLC samples up to 7 utterances; that a bucket of size S which has been fed k indices holds k mod S of them in its
    partial batch and has yielded k div S full batches -- hence nothing fed is lost and the number of batches after the
    flush is the loaders' predicted length -- is an inductive invariant for EVERY k (specs/BatchingInd.tla, Apalache,
    symbolic counter, S = 1..4): base case, inductive step, consequences.  A copy that yields one index late must be
    refuted (non-vacuity)."""
    import shutil
    from concurrent.futures import ThreadPoolExecutor

    from .. import SPECS, apalache

    sizes = (3,) if ctx.quick else (1, 2, 3, 4)
    jobs = []
    for sz in sizes:
        mod = os.path.join(SPECS, "BatchingInd_S%d.tla" % sz)
        jobs += [(sz, "base", mod, dict(init="Init", inv="IndInv", length=0)),
                 (sz, "step", mod, dict(init="IndInit", inv="IndInv", length=1)),
                 (sz, "consequences", mod, dict(init="IndInit", inv="Consequences", length=0))]
    bad_dir = ctx.subdir("batchingind_bad")
    with open(os.path.join(SPECS, "BatchingInd.tla")) as f:
        txt = f.read()
    good = "IF partial + 1 = S"
    if good not in txt:
        raise MachineryError("BatchingInd.tla: yield condition not found")
    with open(os.path.join(bad_dir, "BatchingInd.tla"), "w") as f:
        f.write(txt.replace(good, "IF partial = S"))
    shutil.copy(os.path.join(SPECS, "BatchingInd_S3.tla"), bad_dir)
    jobs.append((3, "late_yield_must_fail", os.path.join(bad_dir, "BatchingInd_S3.tla"), dict(init="IndInit", inv="IndInv", length=1)))
    with ThreadPoolExecutor(max_workers=4) as pool:
        results = list(pool.map(lambda j: apalache.check(j[2], **j[3]), jobs))
    for (sz, what, _, _), res in zip(jobs, results):
        d = res.as_dict()
        d["name"] = "BatchingInd S=%d %s" % (sz, what)
        ctx.tlc_runs.append(d)
        if what == "late_yield_must_fail":
            if res.ok:
                raise MachineryError("Apalache accepted a bucket that yields one index late: the inductive check is vacuous")
        elif not res.ok:
            raise MachineryError("Apalache refutes the bucket lemma (S=%d, %s):\n%s" % (sz, what, res.tail))
    ctx.count("apalache_inductive_obligations_discharged", len(jobs) - 1)


def run(ctx):
    ctx.rule = ("BucketBatchSampler on every exported (idx2bucket, bucket2size, drop) case (quick: all cases "
                "with n <= 3 plus a seeded sample) with renamed indices / keys; loaders over a real directory "
                "per exported length vector x seeded (buckets, batch size, dynamic, drop_last, shuffle, "
                "sort_batch, batch_first, suppress_*) configurations, two epochs + twin loader; collation "
                "functions on exported batches; the complete window table; exported histories of two loaders "
                "over one directory with two renditions of the same utterances (a seeded sample, mostly those "
                "whose second loader serves other lengths than the first read) replayed on one real path; "
                "non-trivial = more than one batch "
                "or a padded / sorted / incomplete batch (histories: the second loader's data differs and more "
                "than one length class is requested), distinct by the full configuration; utterances WITHOUT frames / "
                "tokens: exported batches holding at least one (quick: a seeded sample) through the three collation "
                "functions, every exported length vector holding a 0 as a real directory under ContextWindowDataLoader "
                "and Spect / LangDataLoader; under an INITIALISED PROCESS GROUP (FakeDist double, one loader object per "
                "rank): every exported sequential job (quick: all whose world size does not divide the data, a seeded "
                "fifth of the rest) replayed on the real loaders - len(loader) before each epoch and the batches of every "
                "rank against the specification's - plus seeded shuffled jobs validated by BatchingDistTrace")
    ctx.assumptions += [
        "utterances without frames / tokens only with size_batch_by_length=False (the dynamic size of a class of empty "
        "utterances is undefined: x * 0 <= Y * B has no greatest x; the code divides by the class bound) and with "
        "utterance ids returned (such an utterance shows in a batch through its id alone)",
        "num_workers = 0, CPU; feature values are small integers (exact in float32)",
        "loaders with sort_batch=True: the rows of a batch are presented to the bucket machine in feed order "
        "(the batch sampler's own order is not observable after sorting; it is checked on BucketBatchSampler "
        "directly and on unsorted loaders)",
        "distributed jobs: one process simulates all ranks (torch.distributed.is_available / is_initialized / get_rank / "
        "get_world_size replaced by the FakeDist double while a rank's loader is constructed); every rank gets the same "
        "directory, parameters and seed; only C14's clauses are judged there (length = batches delivered, nothing the "
        "rank's sampler produced is lost, batches well formed) - the constructor's refusal and the rank's share of the "
        "epoch are C13's; len(loader) is asked before every epoch and compared when fresh or when it cannot change "
        "between epochs (a cached length gone stale - shuffled + several length buckets + a real split - is documented "
        "in DistLoader.tla as not promised)",
        "histories: the files of a rendition are regenerated only between loaders, never while a loader is "
        "running an epoch",
    ]
    import time

    phases = ctx.extra.setdefault("phase_wall_s", {})
    t0 = [time.time()]

    def lap(name):
        phases[name] = round(time.time() - t0[0], 1)
        t0[0] = time.time()

    recs = B.run_design(ctx)
    lap("design checks (TLC)")
    unbounded_bucket_lemma(ctx)
    lap("unbounded bucket lemma (Apalache)")
    rng = ctx.rng
    # --- the loaders of the ranks of a distributed job (before any tensor work in this process: forks)
    dist = start_dist(ctx, recs)
    lap("distributed jobs on the real loaders")
    # --- window table (spec -> code)
    window_table(ctx, recs["window"])
    # --- BucketBatchSampler (code -> spec)
    cases = sorted(recs["case"], key=lambda r: repr(r["c"]))
    if ctx.quick:
        small = [r for r in cases if r["c"]["n"] <= 3 and r["c"]["src"] == "direct"]
        rest = [r for r in cases if not (r["c"]["n"] <= 3 and r["c"]["src"] == "direct")]
        cases_b = small + rng.sample(rest, min(len(rest), 1500))
    else:
        cases_b = cases  # (all exported bucket cases; the loader configurations remain a seeded sample)
    traces, meta = [], {}
    for i, r in enumerate(cases_b):
        c = r["c"]
        tid = "bbs-%d" % i
        tr, failed, case = run_bucket_case(c, rng, tid)
        nb = sum(1 for e in tr["events"] if e["op"] == "yield")
        ctx.case(key=("bbs", c["i2b"], c["size"], c["drop"], c["lens"]), nontrivial=nb > 1 or (c["n"] > 0 and nb == 0),
                 sample=dict(bucket_case=c, events=[(e["op"], e["a"], e["items"]) for e in tr["events"]])
                 if i == 1000 else None)
        if failed:
            ctx.violation(dict(site="BucketBatchSampler", kind="exception"), "%r raised %s" % (c, failed), case)
            continue
        traces.append(tr)
        meta[tid] = (None, "BucketBatchSampler", "case %r" % (c,), case)
    validate_bucket(ctx, traces, meta, "BatchingTrace/BucketBatchSampler")
    lap("window table, BucketBatchSampler")
    # --- direct collation (code -> spec)
    ccases = sorted(recs["collate"], key=lambda r: repr(r))
    zcases = [c for c in ccases if any(it["T"] == 0 for it in c["items"])]  # (BatchingCollate_zero_*.cfg)
    ccases = [c for c in ccases if not any(it["T"] == 0 for it in c["items"])]
    if ctx.quick:
        ccases = rng.sample(ccases, 2000)
        # batches holding utterances without frames: every one that mixes them with others among <= 2 utterances, a seeded
        # sample of the rest
        rz = random.Random(ctx.seed * 7919 + 1402)
        small = [c for c in zcases if len(c["items"]) <= 2 and any(it["T"] > 0 for it in c["items"])]
        rest = [c for c in zcases if not (len(c["items"]) <= 2 and any(it["T"] > 0 for it in c["items"]))]
        zcases = small + rz.sample(rest, min(len(rest), 700))
    elif len(zcases) > 15000:  # (the design check over them stays exhaustive)
        zcases = random.Random(ctx.seed * 7919 + 1402).sample(zcases, 15000)
    ccases = ccases + zcases
    ctr, cmeta = [], {}
    for i, c in enumerate(ccases):
        tid = "col-%d" % i
        tr, failed, call = run_collate_case(c, rng, tid)
        Ts = [it["T"] for it in c["items"]]
        ctx.case(key=("collate", c["kind"], c["items"], c["sort"], c["left"], c["right"], c["rev"]),
                 nontrivial=len(c["items"]) > 1 and (len(set(Ts)) > 1 or c["kind"] == "lang"),
                 sample=dict(collate_case=c, out=tr["out"]) if tr and (i == 77 or (
                     c["kind"] == "window" and Ts == [2, 0, 1] and call["has_uttids"])) else None)
        if failed:
            ctx.violation(dict(site=SITE_COLLATE[c["kind"]], kind="exception"), "%r raised %s" % (c, failed), call)
            continue
        ctr.append(tr)
        cmeta[tid] = (None, SITE_COLLATE[c["kind"]], "direct call %r" % (call,), call)
    validate_collate(ctx, ctr, cmeta, "BatchingCollateTrace/functions")
    lap("collation functions")
    # --- loaders on real directories
    pool = DirPool(ctx)
    spec = {}
    for r in recs["case"]:
        c = r["c"]
        if c["src"] == "lengths":
            spec[(tuple(c["lens"]), c["nbreq"], c["bsz"], c["dyn"], c["drop"])] = dict(c=c, plen=r["plen"], accepted=[])
    for r in recs["done"]:
        c = r["c"]
        spec[(tuple(c["lens"]), c["nbreq"], c["bsz"], c["dyn"], c["drop"])]["accepted"].append(r["batches"])
    by_lens = {}
    for k in spec:
        by_lens.setdefault(k[0], []).append(k)
    out = dict(bucket=[], collate=[], meta={})
    per = 2 if ctx.quick else 6
    li = 0
    for lens in sorted(by_lens):
        keys = sorted(by_lens[lens])
        if 0 in lens:
            continue  # (below)
        if ctx.quick and len(lens) >= 5 and rng.random() < 0.5:
            continue  # quick: every length vector up to 4 utterances, a seeded half of the longest ones
        if lens:
            picks = [(keys[rng.randrange(len(keys))], "spect" if (j + li) % 3 != 2 else "lang") for j in range(per)]
        else:  # the empty data set: every parameter combination, every loader
            picks = [(k, kind) for k in keys for kind in ("spect", "lang")]
            picks += [(k, "window") for k in keys if k[1] == 1 and not k[3]]
        for k, kind in picks:
            cfg = random_flags(rng, kind)
            cfg.update(lens=list(lens), nbreq=k[1], bsz=k[2], dyn=k[3], drop=k[4])
            if not lens:
                cfg["variant"] = "lang" if kind == "lang" else "full"
            sp = spec[k]  # (the lang directory stores references of exactly these lengths)
            run_loader(ctx, cfg, pool, sp, "ld-%d" % li, out)
            ctx.case(key=("loader", describe(cfg)), nontrivial=len(lens) > cfg["bsz"] or len(set(lens)) > 1)
            if li == 500:
                ctx.case(n=0, sample=dict(loader=describe(cfg), predicted_len=sp["plen"] if sp else None))
            li += 1
        if lens and (li % 4 < 2):
            cfg = random_flags(rng, "window")
            cfg.update(lens=list(lens), bsz=rng.randint(1, 3), drop=rng.random() < 0.5)
            k = (lens, 1, cfg["bsz"], False, cfg["drop"])
            run_loader(ctx, cfg, pool, spec.get(k), "ld-%d" % li, out)
            ctx.case(key=("loader", describe(cfg), cfg["left"], cfg["right"], cfg["rev"]), nontrivial=len(lens) > 1)
            li += 1
    lap("loaders on real directories")
    # --- loaders over directories holding utterances WITHOUT frames / tokens (Batching_lengths0_*.cfg): a (0, F) feature
    # file with an empty alignment, an empty transcript.  Always the ContextWindowDataLoader, and the Spect / Lang loaders
    # (quick: one of the two).  Utterance ids are returned: such an utterance shows in a batch through its id alone.
    rz = random.Random(ctx.seed * 7919 + 1401)
    nz = 0
    for vi, lens in enumerate(sorted(l for l in by_lens if 0 in l)):
        keys = sorted(by_lens[lens])
        for kind in (("window", ("spect", "lang")[vi % 2]) if ctx.quick else ("window", "spect", "lang")):
            cfg = random_flags(rz, kind)
            cfg["suttids"] = False
            if kind == "window":
                cfg.update(lens=list(lens), bsz=rz.randint(1, 3), drop=rz.random() < 0.3)
                k = (lens, 1, cfg["bsz"], False, cfg["drop"])
            else:
                k = keys[rz.randrange(len(keys))]
                cfg.update(lens=list(lens), nbreq=k[1], bsz=k[2], dyn=k[3], drop=k[4])
            run_loader(ctx, cfg, pool, spec.get(k), "ld-%d" % li, out)
            ctx.case(key=("loader", describe(cfg), cfg["left"], cfg["right"], cfg["rev"]),
                     nontrivial=len(lens) > cfg["bsz"] or len(set(lens)) > 1,
                     sample=dict(loader=describe(cfg), predicted_len=spec[k]["plen"] if k in spec else None)
                     if tuple(lens) == (1, 0, 2) and kind == "window" else None)
            li += 1
            nz += 1
    ctx.count("loader_configurations_over_data_with_empty_utterances", nz)
    ctx.count("loader_configurations", li)
    ctx.count("loader_collated_batches", len(out["collate"]))
    lap("loaders over data with empty utterances")
    validate_bucket(ctx, out["bucket"], out["meta"], "BatchingTrace/loaders")
    validate_collate(ctx, out["collate"], out["meta"], "BatchingCollateTrace/loaders")
    lap("TLC validation of the loader runs")
    # --- histories of loaders over one directory (spec -> code replay, validated code -> spec)
    htraces = run_histories(ctx, recs["hist"], rng)
    lap("histories")
    dtraces = finish_dist(ctx, dist)
    lap("waiting for the validation of the shuffled distributed jobs")
    selftest(ctx, traces, ctr, htraces, dtraces)
    lap("self-test")


def selftest(ctx, btraces, ctraces, htraces, dtraces):
    """Binding self-test: corrupted copies of accepted traces must be rejected."""
    import copy
    import shutil

    # an utterance without frames that vanishes from the per-utterance parts of a window batch (the concatenated
    # windows are the same with or without it)
    ze = copy.deepcopy(next(t for t in ctraces if t["kind"] == "window" and len(t["items"]) >= 2
                           and 0 in t["out"]["wsz"] and any(x > 0 for x in t["out"]["wsz"])
                           and len(t["out"]["ids"]) == len(t["items"])))
    j = ze["out"]["wsz"].index(0)
    del ze["out"]["wsz"][j], ze["out"]["ids"][j]
    ze["tid"] = "self-empty-utterance-dropped"
    # a rank of a distributed job that reports the length of an equal share although it got one utterance more
    zf = None
    for t in dtraces:
        if t["W"] < 2 or t["lmode"] != "uneven" or t["dropLast"] or t["cls"] != "spect" or t["N"] % t["W"] == 0 or t["nbreq"] != 1:
            continue
        fin = [x for x in t["events"] if x["op"] == "finish" and x["rank"] == 0 and x["a"] >= 1]
        if fin:
            zf = copy.deepcopy(t)
            x = next(x for x in zf["events"] if x["op"] == "finish" and x["rank"] == 0)
            x["a"] -= 1
            zf["tid"] = "self-distributed-len-one-short"
            break
    if zf is None:
        raise MachineryError("self-test: no distributed job to corrupt")

    a = copy.deepcopy(next(t for t in btraces if sum(1 for e in t["events"] if e["op"] == "yield") >= 2
                           and not t["drop"]))
    ys = [e for e in a["events"] if e["op"] == "yield"]
    ys[0]["items"], ys[1]["items"] = ys[1]["items"], ys[0]["items"]
    a["tid"] = "self-swapped-batches"
    b = copy.deepcopy(next(t for t in btraces if t["drop"] and t["n"] >= 3))
    b["events"] = [e for e in b["events"] if e["op"] != "yield"][:-1] + [dict(op="stop", a=-1, items=[])]
    b["drop"] = False
    b["tid"] = "self-lost-batches"
    c = copy.deepcopy(next(t for t in ctraces if t["kind"] == "spect" and len(t["items"]) >= 2
                           and len(set(x["T"] for x in t["items"])) > 1))
    row = next(r for r in c["out"]["feats"] if 0 in r)
    row[row.index(0)] = 7
    c["tid"] = "self-dirty-padding"
    # a history whose second loader keeps the first loader's length classes although it serves other data
    d = None
    for t in htraces:
        opens = [e for e in t["events"] if e["op"] == "open"]
        if len(opens) != 2 or opens[0]["ord"] != opens[1]["ord"] or opens[0]["size"] != opens[1]["size"]:
            continue
        disk = dict((r, list(v)) for r, v in t["dir"].items())
        for e in t["events"]:
            if e["op"] == "write":
                disk[e["r"]] = list(e["lens"])
        served = [disk[opens[1]["r"]][u] for u in opens[1]["ord"]]  # what the second loader reads, by feed position
        stale = opens[0]["i2b"]
        if any(served[p] < served[q] and stale[p] > stale[q] for p in range(t["n"]) for q in range(t["n"])):
            d = copy.deepcopy(t)
            o = [e for e in d["events"] if e["op"] == "open"]
            o[1]["i2b"] = list(o[0]["i2b"])
            d["tid"] = "self-stale-length-classes"
            break
    if d is None:
        raise MachineryError("self-test: no history to corrupt")
    sub = type(ctx)(ctx.prop, ctx.tier, ctx.seed, ctx.level)
    try:
        from concurrent.futures import ThreadPoolExecutor

        todo = [("BatchingTrace/selftest", B.TRACE_MOD, B.TRACE_CFG, [a, b]),
                ("BatchingCollateTrace/selftest", B.CTRACE_MOD, B.CTRACE_CFG, [c, ze]),
                ("BatchingDirTrace/selftest", B.DTRACE_MOD, B.DTRACE_CFG, [d]),
                ("BatchingDistTrace/selftest", B.DISTTRACE_MOD, B.DISTTRACE_CFG, [zf])]
        v1 = {}
        with ThreadPoolExecutor(max_workers=len(todo)) as tp:  # (one small JVM each)
            for v in tp.map(lambda q: _tracecheck.validate(sub, *q), todo):
                v1.update(v)
    finally:
        shutil.rmtree(sub.workdir, ignore_errors=True)
    missed = [t for t, x in v1.items() if x is None]
    if missed:
        raise MachineryError("self-test: corrupted traces were accepted: %r" % missed)
    ctx.extra["selftest"] = dict((t, x["why"]) for t, x in v1.items())


def replay(ctx, case):
    rng = random.Random(0)
    t = case.get("type")
    if t == "window":
        window_table(ctx, [case["q"]])
    elif t == "bucket":
        class R0:
            def sample(self, pop, k):
                return list(case["order"])

            def randrange(self, k):
                return case["keyset"]
        tr, failed, _ = run_bucket_case(case["c"], R0(), "replay")
        if failed:
            ctx.violation(dict(site="BucketBatchSampler", kind="exception"), failed, case)
            return
        validate_bucket(ctx, [tr], {"replay": (None, "BucketBatchSampler", "replay", case)}, "BatchingTrace/replay")
    elif t == "collate":
        class R1:
            def __init__(self):
                self.vals = [0.0 if case["bf"] else 0.9, 0.0 if case["has_uttids"] else 0.9,
                             0.0 if case["two_d"] else 0.9]

            def random(self):
                return self.vals.pop(0) if self.vals else 0.9
        tr, failed, call = run_collate_case(case["c"], R1(), "replay")
        if failed:
            ctx.violation(dict(site=SITE_COLLATE[case["c"]["kind"]], kind="exception"), failed, case)
            return
        validate_collate(ctx, [tr], {"replay": (None, SITE_COLLATE[case["c"]["kind"]], "replay", case)},
                         "BatchingCollateTrace/replay")
    elif t == "loader":
        cfg = case["cfg"]
        cfg["lens"] = list(cfg["lens"])
        out = dict(bucket=[], collate=[], meta={})
        run_loader(ctx, cfg, DirPool(ctx), None, "replay", out)
        validate_bucket(ctx, out["bucket"], out["meta"], "BatchingTrace/replay")
        validate_collate(ctx, out["collate"], out["meta"], "BatchingCollateTrace/replay")
    elif t == "history":
        tr, ctr, failed, used, notes = run_history(case["rec"], case["kind"], ctx.subdir("hist_replay"), "replay",
                                                   flags=case["flags"])
        if failed:
            ctx.violation(dict(site=HSITE[case["kind"]], kind="exception"), failed, case)
            return
        validate_history(ctx, [tr], {"replay": (case, notes, case["kind"])}, "BatchingDirTrace/replay")
        validate_collate(ctx, ctr, dict((c["tid"], (None, HSITE[case["kind"]], "replay", case)) for c in ctr),
                         "BatchingCollateTrace/replay")
    elif t in ("dist", "distjob"):
        job = dict(case["job"], root=ctx.subdir("dist_replay"))
        out = DL.run_job(job)
        if t == "dist":
            compare_dist(ctx, case["spec"], job, out)
        elif out["failed"]:
            ctx.violation(dict(site=DL.SITE[job["loader"]], kind="exception", context="distributed", mode=dist_eff_mode(job)),
                          "%s: %s" % (dist_describe(job), out["failed"]), case)
        if not out["failed"]:
            tr = DL.header("replay", job, out["maps"], out["events"])
            judge_dist(ctx, [tr], {"replay": (job, case)}, validate_dist(ctx, [tr], "BatchingDistTrace/replay"))
    else:
        raise MachineryError("unknown replay case type %r" % t)
    print("replay %s: %d violation(s)" % (t, len(ctx.violations)))


if __name__ == "__main__":
    sys.exit(main(PROP, "model_checking", run, replay))
