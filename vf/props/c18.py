"""C18 -- normalisation statistics, deltas and returns equal their defining formulas.

spec -> code, four exhaustive TLC models (design-checked against the declarative formulas):
  * FeatStatsAcc.tla: every ordered partition of 1..4(5) frames x 2 coefficients replayed through
    MeanVarianceNormalization.accumulate / store(bessel) for every normalised dim and chunk shape; stored
    mean/std, normalised pooled data (zero mean, unit variance), own statistics without stored ones; a
    subset as feature directories through compute-mvn-stats-for-torch-feat-data-dir (in-process,
    --num-workers 0; --bessel, --dim, prefix/suffix, --id2gid).
  * FeatStatsDelta.tla + FeatStatsLayout.tla: every exported delta case laid out by every
    (dim, time_dim, concatenate) of a 3-D input as the layout machine prescribes, through
    feat_deltas / FeatureDeltas.
  * FeatStatsReturn.tla: every reward sequence x gamma through time_distributed_return, both layouts; and,
    justified by the TLC-checked ConcatLemma / EmbedLemma / SuperposeLemma, every exported case embedded at many
    offsets (one offset per batch column) of LONG all-zero sequences (1000..2500 steps).
"""
import math
import os
import random
import sys
import warnings

import torch

from .. import tlc
from ..harness import MachineryError, main
from . import _fs

PROP = "C18"


def quiet(fn, *a, **kw):
    with warnings.catch_warnings():
        warnings.simplefilter("ignore")
        return fn(*a, **kw)


def close(a, b, tol):
    if isinstance(a, float) and (math.isnan(a) or math.isinf(a)):
        return False
    return abs(a - b) <= tol * max(1.0, abs(b))


# =====================================================================================
# MeanVarianceNormalization.accumulate / store
# =====================================================================================
def replay_acc(ctx, rec, layout, dtype, split, full, eps=None):
    """one behaviour (data, ordered partition) through the module.  Returns False after a violation.
    eps: a module built with a LARGE floor for the standard deviation (the floor applies when normalising, max(std, eps);
    the STORED statistics are the pooled ones whatever eps is) -- only store() is judged then"""
    if eps is not None:
        full = False
    from pydrobert.torch import functional as F, modules as M

    ndim, dim = layout
    data, chunks, n = rec["data"], rec["chunks"], rec["n"]
    C = len(data[0])
    site = "MeanVarianceNormalization"

    def case_of(what, got, **extra):
        return dict(kind="acc", data=data, chunks=chunks, n=n, sum=rec["sum"], varnum=rec["varnum"], eps=eps,
                    store_ok=rec["store_ok"], ndim=ndim, dim=dim, dtype=str(dtype), split=split, what=what, got=got, **extra)

    mvn = M.MeanVarianceNormalization(dim) if eps is None else M.MeanVarianceNormalization(dim, eps=eps)
    try:
        for ch in chunks:
            mvn.accumulate(_fs.chunk_tensor([data[t - 1] for t in ch], ndim, dim, dtype, split))
    except Exception as ex:
        ctx.violation(dict(site=site + ".accumulate", kind="exception"), "accumulate raised %r" % ex, case_of("accumulate", repr(ex)))
        return False
    pnd = max(ndim, 2)  # the pooled data: all frames in one tensor with the coefficient axis at `dim`
    pooled = _fs.chunk_tensor(data, pnd, dim, torch.double, split)

    def frames_by_coef(y):  # -> (n, C) in the order of `data`
        return y.movedim(dim % pnd, -1).reshape(n, C)

    for bessel in (False, True):
        okdoc = rec["store_ok"]["bessel" if bessel else "biased"]
        ctx.case(n=1)
        try:
            mvn.store(delete_stats=bessel, bessel=bessel)
        except RuntimeError as ex:
            if okdoc:
                ctx.violation(dict(site=site + ".store", kind="exception_store_single_sample" if n == 1 else "exception"),
                              "store(bessel=%r) after accumulating %d frame(s) raised %r; documented: at least one sample "
                              "without Bessel's correction, two with" % (bessel, n, ex), case_of("store", repr(ex), bessel=bessel))
            continue
        except Exception as ex:
            ctx.violation(dict(site=site + ".store", kind="exception"), "store raised %r" % ex, case_of("store", repr(ex), bessel=bessel))
            return False
        if not okdoc:
            # fewer samples than documented as necessary: the documentation promises RuntimeError
            ctx.count("informational_store_without_enough_samples_did_not_raise")
            continue
        mean, std = _fs.stats_from_record(rec, bessel)
        gm, gs = mvn.mean, mvn.std
        if gm is None or gs is None or tuple(gm.shape) != (C,) or tuple(gs.shape) != (C,):
            ctx.violation(dict(site=site + ".store", kind="shape"), "mean/std %r %r" % (gm, gs), case_of("store", None, bessel=bessel))
            return False
        den = n * (n - 1) if bessel else n * n
        for i in range(C):
            if not close(float(gm[i]) * n, rec["sum"][i], 1e-12):
                ctx.violation(dict(site=site + ".store", kind="mean"),
                              "mean[%d] = %r, pooled mean %d/%d" % (i, float(gm[i]), rec["sum"][i], n),
                              case_of("store", gm.tolist(), bessel=bessel))
                return False
            if not close(float(gs[i]) ** 2 * den, rec["varnum"][i], 1e-9):
                ctx.violation(dict(site=site + ".store", kind="std_bessel" if bessel else "std"),
                              "std[%d] = %r, pooled variance %d/%d (std %r)" % (i, float(gs[i]), rec["varnum"][i], den, std[i]),
                              case_of("store", gs.tolist(), bessel=bessel))
                return False
        if not full:
            continue
        # normalising the pooled data with the stored statistics
        try:
            y = quiet(mvn, pooled)
        except Exception as ex:
            ctx.violation(dict(site=site + ".forward", kind="exception"), "forward raised %r" % ex, case_of("normalise", repr(ex), bessel=bessel))
            return False
        yc = frames_by_coef(y)
        for i in range(C):
            col = yc[:, i]
            if rec["varnum"][i] == 0:
                good = bool((col == 0).all())
                exp = [0.0] * n
            else:
                exp = [(n * data[t][i] - rec["sum"][i]) / n / std[i] for t in range(n)]
                good = all(close(float(col[t]), exp[t], 1e-9) for t in range(n))
                # zero mean, unit variance (in the convention of the stored std) over the pooled data
                good = good and abs(float(col.sum())) <= 1e-9 * n
                good = good and close(float((col * col).sum()), float(n - 1 if bessel else n), 1e-9)
            if not good:
                ctx.violation(dict(site=site + ".forward", kind="normalised"),
                              "coefficient %d of the normalised pooled data is %r, expected %r" % (i, col.tolist(), exp),
                              case_of("normalise", yc.tolist(), bessel=bessel))
                return False
    if full:
        # no stored statistics: the input's own (biased) statistics
        mean, std = _fs.stats_from_record(rec, False)
        for fn_name in ("module", "functional"):
            try:
                if fn_name == "module":
                    y = quiet(M.MeanVarianceNormalization(dim), pooled)
                else:
                    y = quiet(F.mean_var_norm, pooled, dim)
            except Exception as ex:
                ctx.violation(dict(site="mean_var_norm", kind="exception"), "raised %r" % ex, case_of("own", repr(ex)))
                return False
            ctx.case(n=1)
            yc = frames_by_coef(y)
            for i in range(C):
                if rec["varnum"][i] == 0:
                    good = bool((yc[:, i] == 0).all())
                else:
                    good = all(close(float(yc[t, i]), (n * data[t][i] - rec["sum"][i]) / n / std[i], 1e-9) for t in range(n))
                if not good:
                    ctx.violation(dict(site="mean_var_norm", kind="own_statistics"),
                                  "without stored statistics coefficient %d is %r" % (i, yc[:, i].tolist()), case_of("own", yc.tolist()))
                    return False
        # ONE of the two statistics given, the other missing: the given one is used, the missing one is the input's own
        # (the deviation about the input's own mean, whatever mean is subtracted: y = (x - m) / std_own(x)); the mean handed
        # in is deliberately NOT the input's own (a corpus-level mean applied to one utterance)
        off = torch.tensor([2.0 + i for i in range(C)], dtype=pooled.dtype)
        own_mean = torch.tensor([rec["sum"][i] / n for i in range(C)], dtype=pooled.dtype)
        given_mean = own_mean + off
        given_std = torch.tensor([3.0 + i for i in range(C)], dtype=pooled.dtype)
        for what, kw in (("mean_only", dict(mean=given_mean)), ("std_only", dict(std=given_std))):
            for fn_name in ("module", "functional"):
                try:
                    if fn_name == "module":
                        y = quiet(M.MeanVarianceNormalization(dim, **kw), pooled)
                    else:
                        y = quiet(F.mean_var_norm, pooled, dim, kw.get("mean"), kw.get("std"))
                except Exception as ex:
                    ctx.violation(dict(site="mean_var_norm", kind="exception", given=what), "raised %r" % ex, case_of(what, repr(ex)))
                    return False
                ctx.case(n=1)
                yc = frames_by_coef(y)
                for i in range(C):
                    if what == "std_only":
                        exp = [(data[t][i] - rec["sum"][i] / n) / float(given_std[i]) for t in range(n)]
                    elif rec["varnum"][i] == 0:
                        continue  # own deviation zero: the quotient is clamped by eps, not judged
                    else:
                        exp = [(data[t][i] - float(given_mean[i])) / std[i] for t in range(n)]
                    if not all(close(float(yc[t, i]), exp[t], 1e-9) for t in range(n)):
                        ctx.violation(dict(site="mean_var_norm", kind="one_statistic_given", given=what),
                                      "%s given (%s): coefficient %d is %r, expected %r" % (
                                          what, fn_name, i, yc[:, i].tolist(), exp), case_of(what, yc.tolist()))
                        return False
    return True


# =====================================================================================
# compute-mvn-stats-for-torch-feat-data-dir
# =====================================================================================
def run_command(ctx, recs, opts, tag):
    """recs: one record (no groups) or several (one group per record).  Returns False after a violation."""
    from pydrobert.torch.command_line import compute_mvn_stats_for_torch_feat_data_dir as cmd

    site = "compute-mvn-stats-for-torch-feat-data-dir"
    d = ctx.subdir("cmd_%s" % tag)
    feat = os.path.join(d, "feat")
    os.makedirs(feat, exist_ok=True)
    prefix, suffix = opts.get("prefix", ""), opts.get("suffix", ".pt")
    dimarg = opts.get("dim", -1)
    lines = []
    for gi, rec in enumerate(recs):
        for ci, ch in enumerate(rec["chunks"]):
            uid = "g%d_u%02d" % (gi, ci)
            t = _fs.chunk_tensor([rec["data"][j - 1] for j in ch], opts.get("ndim", 2), dimarg, opts.get("dtype", torch.float),
                                 opts.get("split", 0))
            torch.save(t, os.path.join(feat, prefix + uid + suffix))
            lines.append("%s grp%d" % (uid, gi))
    if opts.get("decoys"):
        # files that do not carry the prefix/suffix must be ignored
        torch.save(torch.full((3, 2), 100.0), os.path.join(feat, "zz_other" + (".bin" if suffix != ".bin" else ".pt")))
        if prefix:
            torch.save(torch.full((3, 2), 100.0), os.path.join(feat, "q" + suffix))
    out = os.path.join(d, "stats.pt")
    args = [feat, out, "--num-workers", "0"]
    if prefix:
        args += ["--file-prefix", prefix]
    if suffix != ".pt":
        args += ["--file-suffix", suffix]
    if dimarg != -1:
        args += ["--dim", str(dimarg)]
    bessel = bool(opts.get("bessel"))
    if bessel:
        args.append("--bessel")
    grouped = len(recs) > 1 or opts.get("force_groups")
    if grouped:
        idp = os.path.join(d, "id2gid")
        ctx.rng.shuffle(lines)
        with open(idp, "w") as f:
            f.write("\n".join(lines) + "\n")
        args += ["--id2gid", idp]

    def case_of(got):
        return dict(kind="cmd", recs=[dict(data=r["data"], chunks=r["chunks"], n=r["n"], sum=r["sum"], varnum=r["varnum"],
                                           store_ok=r["store_ok"]) for r in recs],
                    opts={k: (str(v) if isinstance(v, torch.dtype) else v) for k, v in opts.items()}, args=args[2:], got=got)

    ctx.case(n=1)
    docok = all(r["store_ok"]["bessel" if bessel else "biased"] for r in recs)
    try:
        rc = quiet(cmd, args)
    except Exception as ex:
        if docok:
            single = any(r["n"] == 1 for r in recs)
            ctx.violation(dict(site=site, kind="exception_store_single_sample" if single and isinstance(ex, RuntimeError) else "exception"),
                          "command raised %r" % ex, case_of(repr(ex)))
        return not docok
    if not docok:
        ctx.count("informational_command_without_enough_samples_did_not_raise")
        return True
    if rc not in (None, 0) or not os.path.exists(out):
        ctx.violation(dict(site=site, kind="exit_code"), "returned %r, output exists: %r" % (rc, os.path.exists(out)), case_of(rc))
        return False
    stats = torch.load(out)
    per = {}
    if grouped and set(stats) != {"mean", "std"}:
        per = stats
    elif grouped:
        per = {"grp0": stats}  # a single group is stored un-nested only when the key is None; keep going, judged below
    else:
        per = {None: stats}
    for gi, rec in enumerate(recs):
        key = "grp%d" % gi if grouped else None
        st = per.get(key)
        if not isinstance(st, dict) or set(st) != {"mean", "std"}:
            ctx.violation(dict(site=site, kind="output_format"), "output %r" % (stats,), case_of(repr(stats)))
            return False
        n = rec["n"]
        den = n * (n - 1) if bessel else n * n
        gm, gs = st["mean"].double(), st["std"].double()
        C = len(rec["sum"])
        if tuple(gm.shape) != (C,) or tuple(gs.shape) != (C,):
            ctx.violation(dict(site=site, kind="shape"), "mean %s std %s" % (tuple(gm.shape), tuple(gs.shape)), case_of(None))
            return False
        for i in range(C):
            if not close(float(gm[i]) * n, rec["sum"][i], 1e-9):
                ctx.violation(dict(site=site, kind="mean"), "group %r mean[%d] = %r, pooled %d/%d" % (key, i, float(gm[i]), rec["sum"][i], n),
                              case_of(gm.tolist()))
                return False
            if not close(float(gs[i]) ** 2 * den, rec["varnum"][i], 1e-9):
                ctx.violation(dict(site=site, kind="std_bessel" if bessel else "std"),
                              "group %r std[%d] = %r, pooled variance %d/%d" % (key, i, float(gs[i]), rec["varnum"][i], den), case_of(gs.tolist()))
                return False
    return True


# =====================================================================================
# feat_deltas
# =====================================================================================
def replay_deltas(ctx, key, g, layouts, quick):
    from pydrobert.torch import functional as F, modules as M

    n, order, width, pad, cval = key
    K = len(g)
    A = 2 if K >= 2 else 1
    B = -(-K // A)
    idx = [j % K for j in range(A * B)]
    Z = g[0]["z"]
    U = order + 1
    # canonical: X0 (A, B, n), E0 (A, B, n, U)
    X0 = torch.tensor([g[j]["x"] for j in idx], dtype=torch.double).view(A, B, n)
    E0 = torch.tensor([[[g[j]["out"][u][t] / float(Z ** u) for u in range(U)] for t in range(n)] for j in idx],
                      dtype=torch.double).view(A, B, n, U)
    ok = True
    for li, lay in enumerate(layouts):
        td_arg, dim_arg, concat = lay["time_dim"], lay["dim"], lay["concatenate"]
        td = td_arg % 3
        # input with time at position td, the other two axes keep the order (A, B)
        perm = [0, 1]
        perm.insert(td, 2)
        X = X0.permute(*perm).contiguous()
        E = E0.permute(*perm, 3).contiguous()  # canonical: input axes + order axis last
        exp = _fs.arrange(E, lay["axes"])
        dtype = torch.float if (li + n + order) % 2 else torch.double
        module = bool((li + width) % 2)
        val = float(cval)
        info = dict(time_dim=td_arg, dim=dim_arg, concatenate=concat, order=order, width=width, pad_mode=pad, value=val,
                    dtype=str(dtype), module=module)

        def case_of(j, got):
            return dict(kind="delta", x=g[idx[j]]["x"], out=g[idx[j]]["out"], z=Z, axes=lay["axes"], got=got, **info)

        try:
            if module:
                got = quiet(M.FeatureDeltas(dim_arg, td_arg, concat, order, width, pad, val).to(dtype), X.to(dtype))
            else:
                got = quiet(F.feat_deltas, X.to(dtype), dim_arg, td_arg, concat, order, width, pad, val)
        except Exception as ex:
            ctx.violation(dict(site="feat_deltas", kind="exception", pad_mode=pad), "raised %r (%r)" % (ex, info), case_of(0, repr(ex)))
            ok = False
            continue
        ctx.case(n=K)
        if tuple(got.shape) != tuple(exp.shape):
            ctx.violation(dict(site="feat_deltas", kind="shape"), "shape %s, spec %s (%r)" % (tuple(got.shape), tuple(exp.shape), info),
                          case_of(0, list(got.shape)))
            ok = False
            continue
        got = got.double()
        bad = (got - exp).abs() > 1e-5 * exp.abs().clamp_min(1.0)
        bad |= torch.isnan(got)
        if bool(bad.any()):
            # same multiset of values in other places -> the layout is wrong, otherwise the values are
            sg, _ = got.flatten().sort()
            se, _ = exp.flatten().sort()
            same_values = bool(((sg - se).abs() <= 1e-5 * se.abs().clamp_min(1.0)).all())
            kind = "layout" if same_values else "value"
            pos = bad.nonzero()[0].tolist()
            ctx.violation(dict(site="feat_deltas", kind=kind),
                          "at %r got %r, spec %r (%d of %d entries differ; %r)" % (
                              pos, got[tuple(pos)].item(), exp[tuple(pos)].item(), int(bad.sum()), bad.numel(), info),
                          case_of(0, got.tolist()))
            ok = False
            if quick:
                break
    ctx.traces += K
    return ok


# =====================================================================================
# time_distributed_return
# =====================================================================================
def replay_returns(ctx, key, g):
    from pydrobert.torch import functional as F, modules as M

    n, p, q = key
    gamma = p / q
    N = len(g)
    r = torch.tensor([x["r"] for x in g], dtype=torch.double)  # (N, n)
    exp = torch.tensor([[a / b for a, b in x["R"]] for x in g], dtype=torch.double)
    for ci, (bf, dtype, module) in enumerate([(b, d, m) for b in (False, True) for d in (torch.float, torch.double) for m in (False, True)]):
        rin = (r if bf else r.t().contiguous()).to(dtype)
        info = dict(gamma_float=gamma, batch_first=bf, dtype=str(dtype), module=module)

        def case_of(i, got):
            return dict(kind="return", r=g[i]["r"], gamma=[p, q], R=g[i]["R"], got=got, **info)

        try:
            if module:
                got = quiet(M.TimeDistributedReturn(float(gamma), bf), rin)
            else:
                got = quiet(F.time_distributed_return, rin, float(gamma), bf)
        except Exception as ex:
            ctx.violation(dict(site="time_distributed_return", kind="exception"), "raised %r (%r)" % (ex, info), case_of(0, repr(ex)))
            continue
        ctx.case(n=N)
        if tuple(got.shape) != tuple(rin.shape):
            ctx.violation(dict(site="time_distributed_return", kind="shape"), "shape %s" % (tuple(got.shape),), case_of(0, None))
            continue
        gd = (got if bf else got.t()).double()
        bad = ((gd - exp).abs() > 1e-6 * exp.abs().clamp_min(1.0)) | torch.isnan(gd)
        if bool(bad.any()):
            i, t = bad.nonzero()[0].tolist()
            ctx.violation(dict(site="time_distributed_return", kind="value_gamma_zero" if p == 0 else "value"),
                          "R[%d] = %r, spec %d/%d (r = %r, gamma = %d/%d, %r)" % (t, gd[i, t].item(), g[i]["R"][t][0], g[i]["R"][t][1],
                                                                                  g[i]["r"], p, q, info),
                          case_of(i, gd[i].tolist()))
    ctx.traces += N


# =====================================================================================
# time_distributed_return on long sequences (FeatStatsReturn!EmbedLemma / SuperposeLemma)
# =====================================================================================
LONG_T = (1000, 1024, 1500, 2048, 2500)
LONG_GAMMAS = ((0, 1), (1, 2), (7, 8), (31, 32), (1, 1), (33, 32), (2, 1))
LONG_SITE = "time_distributed_return"


def long_columns(rng, T, cases, ncols, rot, max_offset=None):
    """-> list of columns; a column is a list of (offset, case) with disjoint, increasing spans.  The offsets sit at
    the start, at the very end, next to and across every power of two p and T - p (where an implementation that
    works in blocks would put a boundary), and at seeded random places; different columns, different offsets."""
    hi = T if max_offset is None else min(T, max_offset)
    anchors = [0, 1, 2, hi, hi - 1]
    for p in (32, 64, 100, 128, 256, 500, 512, 1000, 1024, 2048):
        anchors += [p, p + 1, hi - p, hi - p + 1, T - p, T - p + 1]
    anchors = sorted({a for a in anchors if 0 <= a <= hi})
    cols = []
    for j in range(ncols):
        c = cases[(j + rot) % len(cases)]
        n = len(c["r"])
        if j < 2 * len(anchors):
            # the case ends at / straddles / starts at the anchor
            o = anchors[j % len(anchors)] - ((j // len(anchors)) * 2 + j) % (n + 1)
        else:
            o = rng.randrange(0, hi)
        o = max(0, min(o, hi - n))
        col = [(o, c)]
        if j % 3 == 2:
            # a second case to the right of the first, separated by zeros (SuperposeLemma)
            c2 = cases[(j * 7 + rot + 1) % len(cases)]
            lo = o + n
            if lo + len(c2["r"]) <= hi:
                o2 = rng.choice([lo, lo + 1, hi - len(c2["r"]), rng.randrange(lo, hi - len(c2["r"]) + 1)])
                o2 = min(o2, hi - len(c2["r"]))  # lo + 1 may leave no room for the whole case
                col.append((o2, c2))
        cols.append(col)
    return cols


def long_expected(T, p, q, cols, absolute=False):
    """what EmbedLemma / SuperposeLemma prescribe: sum over the embedded cases of  gamma^(o - t) * R[0] before the case,
    R[t - o] inside it, 0 after it (R = the specification's exact returns of the case); float64.
    absolute=True: the same with |r| for r, i.e. sum_t' gamma^(t' - t) |r_t'|: the magnitude of the terms of the return,
    which bounds the rounding error of ANY floating-point evaluation (for gamma > 1 the terms of two cases can cancel)"""
    gamma = p / q
    with warnings.catch_warnings():
        warnings.simplefilter("ignore")
        pw = torch.pow(torch.tensor(gamma, dtype=torch.double), torch.arange(T + 1, dtype=torch.double))
    exp = torch.zeros(T, len(cols), dtype=torch.double)
    for j, col in enumerate(cols):
        for o, c in col:
            R = [a / b for a, b in c["R"]]
            if absolute:
                R = [0.0] * len(R)
                for i in range(len(R) - 1, -1, -1):
                    R[i] = abs(c["r"][i]) + gamma * (R[i + 1] if i + 1 < len(R) else 0.0)
            if o > 0 and R[0] != 0:
                exp[:o, j] += R[0] * pw[1:o + 1].flip(0)
            exp[o:o + len(R), j] += torch.tensor(R, dtype=torch.double)
    return exp


def long_input(T, cols, dtype):
    r = torch.zeros(T, len(cols), dtype=dtype)
    for j, col in enumerate(cols):
        for o, c in col:
            r[o:o + len(c["r"]), j] = torch.tensor(c["r"], dtype=dtype)
    return r


def replay_returns_long(ctx, T, p, q, cols, bf, dtype, module, family="long"):
    """one call: column j of a (T, N) reward tensor holds cols[j].  Returns False after a violation."""
    from pydrobert.torch import functional as F, modules as M

    gamma = p / q
    exp = long_expected(T, p, q, cols)
    fin = torch.finfo(dtype)
    if not bool(torch.isfinite(exp).all()) or float(exp.abs().max()) >= fin.max / 16:
        raise MachineryError("long return case outside the range of %s (T=%d, gamma=%d/%d)" % (dtype, T, p, q))
    r = long_input(T, cols, dtype)
    rin = r.t().contiguous() if bf else r
    info = dict(T=T, gamma_float=gamma, batch_first=bf, dtype=str(dtype), module=module, family=family)

    def case_of(j, got):
        return dict(kind="return_long", gamma=[p, q], col=[[o, dict(r=c["r"], R=c["R"])] for o, c in cols[j]], got=got, **info)

    try:
        if module:
            got = quiet(M.TimeDistributedReturn(float(gamma), bf), rin)
        else:
            got = quiet(F.time_distributed_return, rin, float(gamma), bf)
    except Exception as ex:
        ctx.violation(dict(site=LONG_SITE, kind="exception_long_sequence"), "raised %r (%r)" % (ex, info), case_of(0, repr(ex)))
        return False
    ctx.case(n=len(cols))
    ctx.traces += len(cols)
    if tuple(got.shape) != tuple(rin.shape):
        ctx.violation(dict(site=LONG_SITE, kind="shape"), "shape %s for input %s" % (tuple(got.shape), tuple(rin.shape)), case_of(0, None))
        return False
    gd = (got.t() if bf else got).double()
    # float32: pow(gamma, k) for k up to 2500 may carry a relative error of k * 2^-24; float64: as for the short cases
    tol = 2e-4 if dtype == torch.float else 1e-6
    nonfinite = ~torch.isfinite(gd)
    scale = long_expected(T, p, q, cols, absolute=True) if p > q else exp.abs()
    bad = ((gd - exp).abs() > tol * scale.clamp_min(1.0)) | nonfinite
    if not bool(bad.any()):
        return True
    if bool(nonfinite.any()):
        t, j = nonfinite.nonzero()[0].tolist()
        kind = "nan_long_sequence_growing_gamma" if p > q else "nan_long_sequence_power_ratio"
    else:
        ratio = (gd - exp).abs() / scale.clamp_min(1.0)
        t, j = divmod(int(ratio.argmax()), ratio.size(1))  # the worst entry
        kind = "value_long_sequence"
    o0, c0 = cols[j][0]
    oL, cL = cols[j][-1]
    region = "before_case" if t < o0 else "after_case" if t >= oL + len(cL["r"]) else "inside_case"
    if kind == "value_long_sequence":
        sig = dict(site=LONG_SITE, kind=kind, region=region)
    else:
        sig = dict(site=LONG_SITE, kind=kind, gamma=str(p) if q == 1 else "%d/%d" % (p, q), T=T,
                   dtype=str(dtype).replace("torch.", ""))
    ctx.violation(sig,
                  "R[%d] = %r, specification (EmbedLemma/SuperposeLemma) %r; column holds %s in %d zero rewards, gamma = %d/%d; "
                  "%d of %d entries differ (%r)" % (t, gd[t, j].item(), exp[t, j].item(),
                                                      ", ".join("r=%r at offset %d" % (c["r"], o) for o, c in cols[j]), T, p, q,
                                                      int(bad.sum()), bad.numel(), info),
                  case_of(j, gd[max(0, t - 3):t + 4, j].tolist()))
    return False


def run_returns_long(ctx, records):
    """every exported case of the long gammas, embedded: one (gamma, T, layout) per call, cases and offsets spread over
    the batch columns, dtype and functional/module rotating"""
    q = ctx.quick
    by_gamma = {}
    for r in records:
        g = tuple(r["gamma"])
        if g in LONG_GAMMAS:
            by_gamma.setdefault(g, {})[tuple(r["r"])] = r
    missing = [g for g in LONG_GAMMAS if g not in by_gamma]
    if missing:
        raise MachineryError("no exported return cases for gamma in %r" % (missing,))
    ncols = 96 if q else 192
    call = 0
    broken = set()
    for gi, g in enumerate(LONG_GAMMAS):
        p, qq = g
        cases = [by_gamma[g][k] for k in sorted(by_gamma[g])]
        # cases whose returns are all zero say nothing about where they sit
        cases = [c for c in cases if any(c["r"])] + [c for c in cases if not any(c["r"])][:1]
        for ti, T in enumerate(LONG_T):
            layouts = (False, True) if (not q or T % 1024 or p == 0) else ((gi + ti) % 2 == 1,)
            for bf in layouts:
                for rep in range(1 if q else 2):
                    dtype = torch.double if (call + gi) % 2 else torch.float
                    module = bool(((call + gi) // 2) % 2)
                    call += 1
                    max_offset = None
                    if p > qq:
                        # the returns in front of a case grow like gamma^(offset - t): keep them (and the library's powers
                        # gamma^(T-1)) inside the dtype -- unless that is impossible for this length
                        lim = math.log(torch.finfo(dtype).max) / math.log(p / qq) - 8
                        if T - 1 > lim:
                            if dtype == torch.float and T - 1 <= math.log(torch.finfo(torch.double).max) / math.log(p / qq) - 8:
                                dtype = torch.double
                            else:
                                continue
                    if (g, dtype) in broken:
                        continue
                    cols = long_columns(ctx.rng, T, cases, ncols, rot=call * 5, max_offset=max_offset)
                    if not replay_returns_long(ctx, T, p, qq, cols, bf, dtype, module):
                        broken.add((g, dtype))  # one report per gamma and dtype
    # gamma > 1 beyond the reach of the dtype's powers: a short case near the START of a long sequence; every true return
    # is at most 2^20 (and 0 after the case), so the input is as legal as the short gamma = 2 cases
    g = (2, 1)
    cases = [by_gamma[g][k] for k in sorted(by_gamma[g]) if any(k)]
    for T, dtype in ((1500, torch.double), (200, torch.float)):
        for bf in (False, True):
            call += 1
            cols = long_columns(random.Random(T), T, cases, 48, rot=0, max_offset=16)
            replay_returns_long(ctx, T, 2, 1, cols, bf, dtype, bool(call % 2), family="growing")
    ctx.extra["long_return_calls"] = call


# =====================================================================================
# driver
# =====================================================================================
def _quota(ctx, machine, limit=2):
    qd = ctx.extra.setdefault("_quota", {})
    if qd.get(machine, 0) >= limit:
        return False
    qd[machine] = qd.get(machine, 0) + 1
    return True


def run(ctx):
    q = ctx.quick
    ctx.max_samples = 12
    torch.set_num_threads(1)  # tensors are tiny; intra-op threads only add contention
    ctx.rule = (
        "every behaviour of FeatStatsAcc.tla (data of 1..MaxN frames x 2 coefficients, every ordered partition = order and "
        "chunking of accumulate calls) through MeanVarianceNormalization for a normalised dim / chunk shape / dtype cycled "
        "over all legal ones, a seeded subset as directories through the command; every FeatStatsDelta.tla case under each of "
        "the 84 (time_dim, dim, concatenate) layouts of FeatStatsLayout.tla; every FeatStatsReturn.tla case in both layouts, and "
        "(EmbedLemma / SuperposeLemma) the cases with gamma in {0, 1/2, 7/8, 31/32, 1, 33/32, 2} embedded at up to 192 offsets "
        "(start, end, across powers of two p and T - p, seeded random; one or two cases per batch column) of all-zero "
        "sequences of 1000, 1024, 1500, 2048 and 2500 steps.  "
        "Non-trivial = statistics case with >= 2 chunks and a non-zero variance, delta case of order >= 1 on a non-constant "
        "sequence, return case with gamma != 0, length >= 2 and a non-zero reward; distinct by the abstract case.")
    ctx.assumptions += [
        "data, rewards and padding values are small integers (float32/float64 arithmetic of sums and squares exact); "
        "means/variances/deltas/returns are compared with the specification's exact rationals (1e-12 / 1e-9 for float64 "
        "statistics, 1e-5 for float32 deltas, 1e-6 for returns)",
        "unit variance is judged for coefficients whose pooled variance is non-zero, in the convention of the stored "
        "standard deviation (sum of squares = n, or n - 1 with Bessel's correction); constant coefficients must normalise to 0",
        "reflect padding needs width*order < T and circular width*order <= T (torch.nn.functional.pad); other pad modes any",
        "the command is run in-process with --num-workers 0; multi-worker runs are not covered",
        "gamma in {0, 1/2, 1, 3/2, 2, 3} (short sequences), {0, 1/2, 7/8, 31/32, 1, 33/32, 2} (long sequences; gamma = 2 only "
        "where gamma^(T-1) is a finite number of the dtype, i.e. float64 with T <= 1024; plus the family 'growing': gamma = 2, "
        "cases within the first 16 steps of 1500 (float64) / 200 (float32) zero rewards, all true returns <= 2^20)",
        "long sequences: values in front of an embedded case are gamma^(offset - t) * R[0] (FeatStatsReturn!EmbedLemma), "
        "compared at 1e-6 (float64) / 2e-4 (float32) relative to max(1, |value|) (for gamma > 1: relative to the "
        "magnitude of the terms sum gamma^(t'-t) |r_t'|, which can exceed the value when two embedded cases cancel)",
    ]
    S = _fs.spec
    kw = dict(workers=16, timeout=3000)
    jobs = [
        ("acc", S("FeatStatsMC.tla"), S("FeatStatsAcc_quick.cfg" if q else "FeatStatsAcc_thorough.cfg"), kw),
        ("delta", S("FeatStatsDeltaMC.tla"), S("FeatStatsDelta_quick.cfg" if q else "FeatStatsDelta_thorough.cfg"), kw),
        ("layout", S("FeatStatsLayout.tla"), S("FeatStatsLayout.cfg"), dict(workers=4, timeout=600)),
        ("ret", S("FeatStatsReturnMC.tla"), S("FeatStatsReturn_quick.cfg" if q else "FeatStatsReturn_thorough.cfg"), kw),
        ("retl", S("FeatStatsReturnMC.tla"), S("FeatStatsReturn_long.cfg"), dict(workers=4, timeout=600)),
    ]
    if not q:
        jobs.append(("acc5", S("FeatStatsMC.tla"), S("FeatStatsAcc_thorough5.cfg"), kw))
    import time as _time
    _t0 = _time.time()

    def lap(what):
        if os.environ.get("VF_TIMING"):
            print("  [timing] %-10s %.1fs" % (what, _time.time() - _t0), file=sys.stderr)

    results = _fs.run_parallel(jobs)
    lap("tlc")
    actions = dict(acc=["Init", "Next"], delta=["Init", "BuildFilter", "Apply"],
                   layout=["Init", "TimeLast", "Convolve", "Restore", "MoveOrder", "Flatten"], ret=["Init", "Row"],
                   retl=["Init", "Row"])
    for name, res in results.items():
        tlc.require_ok(res, "FeatStats/" + name)
        tlc.require_covered(res, actions[name.rstrip("0123456789")], "FeatStats/" + name)
        ctx.add_tlc("FeatStats/" + name, res)
        if not res.records:
            raise MachineryError("FeatStats/%s exported nothing" % name)
    ctx.exhaustive = True

    # ---- accumulate / store
    acc = sorted(results["acc"].records + (results["acc5"].records if "acc5" in results else []),
                 key=lambda r: (r["n"], r["data"], r["chunks"]))
    broken = set()
    for j, rec in enumerate(acc):
        nt = len(rec["chunks"]) >= 2 and any(v > 0 for v in rec["varnum"])
        ctx.case(key=("acc", rec["data"], rec["chunks"]), nontrivial=nt, n=0,
                 sample=dict(machine="FeatStatsAcc", **rec) if (nt and rec["n"] == 4 and len(rec["chunks"]) == 3 and ctx.rng.random() < 0.003 and _quota(ctx, "acc")) else None)
        layout = _fs.ACC_LAYOUTS[(j + ctx.seed) % len(_fs.ACC_LAYOUTS)]
        if all(len(ch) == 1 for ch in rec["chunks"]) and j % 2 == 0:
            layout = (1, 0 if j % 4 == 0 else -1)  # single frames as 1-D tensors
        dtype = torch.double if (j // len(_fs.ACC_LAYOUTS)) % 2 else torch.float
        if ("acc", layout) in broken:
            continue
        good = replay_acc(ctx, rec, layout, dtype, split=j // 7, full=(j % 3 == 0) or not q)
        if good and j % 2 == 1:
            # the same behaviour through a module with a LARGE floor eps = 1/4 for the standard deviation (integer data
            # has pooled deviations between 1/4 and 1/2): the stored statistics do not depend on eps
            good = replay_acc(ctx, rec, layout, dtype, split=j // 7, full=False, eps=0.25)
        ctx.traces += 1
        if not good:
            broken.add(("acc", layout))  # one report per layout is enough; other layouts keep being explored

    lap("acc")
    # ---- the command on directories built from behaviours
    ncmd = 160 if q else 1200
    picks = [acc[ctx.rng.randrange(len(acc))] for _ in range(ncmd)]
    singles = [r for r in acc if r["n"] == 1]
    picks[:len(singles)] = singles[: len(picks)]
    stop = False
    for j, rec in enumerate(picks):
        if stop:
            break
        opts = dict(bessel=bool(j % 2), dtype=torch.double if j % 3 == 0 else torch.float)
        v = j % 5
        if v == 1:
            opts.update(dim=0, ndim=2)
        elif v == 2:
            opts.update(ndim=3, split=j // 5)
        elif v == 3:
            opts.update(prefix="feat_", suffix=".bin", decoys=True)
        elif v == 4:
            opts.update(dim=-2, ndim=3, split=j // 5, decoys=True)
        recs = [rec]
        if j % 4 == 3:
            recs = [rec, picks[(j * 7 + 1) % len(picks)], picks[(j * 11 + 2) % len(picks)]][: 2 + (j // 4) % 2]
        elif j % 8 == 0:
            opts["force_groups"] = True
        if not run_command(ctx, recs, opts, "c%d" % j):
            stop = any(s.get("site", "").startswith("compute-mvn") and s.get("kind") != "exception_store_single_sample"
                       for s, _, _ in ctx.violations)
        ctx.traces += 1

    lap("cmd")
    # ---- deltas
    layouts = sorted(results["layout"].records, key=lambda r: (r["concatenate"], r["time_dim"], r["dim"]))
    if len(layouts) != 84:
        raise MachineryError("expected 84 layouts, got %d" % len(layouts))
    groups = {}
    for r in results["delta"].records:
        groups.setdefault((len(r["x"]), r["order"], r["width"], r["pad"], r["cval"]), []).append(r)
        ctx.case(key=("delta", r["x"], r["order"], r["width"], r["pad"], r["cval"]),
                 nontrivial=r["order"] >= 1 and len(set(r["x"])) > 1, n=0,
                 sample=dict(machine="FeatStatsDelta", **r) if (r["order"] == 2 and len(r["x"]) == 4 and ctx.rng.random() < 0.002 and _quota(ctx, "delta")) else None)
    bad_groups = 0
    for key in sorted(groups):
        g = sorted(groups[key], key=lambda r: r["x"])
        if not replay_deltas(ctx, key, g, layouts, q):
            bad_groups += 1
            if bad_groups >= 6:
                break

    lap("deltas")
    # ---- returns
    groups = {}
    seen_ret = set()
    ret_records = []
    for r in results["ret"].records + results["retl"].records:
        if (tuple(r["r"]), tuple(r["gamma"])) in seen_ret:
            continue
        seen_ret.add((tuple(r["r"]), tuple(r["gamma"])))
        ret_records.append(r)
    for r in ret_records:
        groups.setdefault((len(r["r"]), r["gamma"][0], r["gamma"][1]), []).append(r)
        ctx.case(key=("ret", r["r"], r["gamma"]), nontrivial=r["gamma"][0] != 0 and len(r["r"]) >= 2 and any(r["r"]), n=0,
                 sample=dict(machine="FeatStatsReturn", **r) if (len(r["r"]) == 4 and r["gamma"] == [3, 2] and ctx.rng.random() < 0.03 and _quota(ctx, "ret")) else None)
    for key in sorted(groups):
        replay_returns(ctx, key, sorted(groups[key], key=lambda r: r["r"]))
    lap("returns")
    run_returns_long(ctx, results["retl"].records)  # the universe on which TLC checked the lemmas
    lap("returns_long")
    ctx.samples.append(dict(machine="FeatStatsLayout", **layouts[len(layouts) // 2]))
    ctx.extra.pop("_quota", None)


def replay(ctx, case):
    kind = case.get("kind")
    if kind == "acc":
        dtype = torch.double if "64" in case["dtype"] else torch.float
        ok = replay_acc(ctx, case, (case["ndim"], case["dim"]), dtype, case["split"], True, eps=case.get("eps"))
        print("replay MeanVarianceNormalization: %s" % ("agrees with the spec" if ok and not ctx.violations else "differs"))
    elif kind == "cmd":
        opts = dict(case["opts"])
        if "dtype" in opts:
            opts["dtype"] = torch.double if "64" in opts["dtype"] else torch.float
        ok = run_command(ctx, case["recs"], opts, "replay")
        print("replay command: %s" % ("agrees with the spec" if ok and not ctx.violations else "differs"))
    elif kind == "delta":
        rec = dict(x=case["x"], out=case["out"], z=case["z"])
        lay = dict(time_dim=case["time_dim"], dim=case["dim"], concatenate=case["concatenate"], axes=case["axes"])
        key = (len(case["x"]), case["order"], case["width"], case["pad_mode"], int(case["value"]))
        ok = replay_deltas(ctx, key, [rec], [lay] * 4, False)
        print("replay feat_deltas: %s" % ("agrees with the spec" if ok else "differs"))
    elif kind == "return":
        rec = dict(r=case["r"], gamma=case["gamma"], R=case["R"])
        replay_returns(ctx, (len(case["r"]), case["gamma"][0], case["gamma"][1]), [rec])
        print("replay time_distributed_return: %s" % ("differs" if ctx.violations else "agrees with the spec"))
    elif kind == "return_long":
        cols = [[(o, c) for o, c in case["col"]]]
        dtype = torch.double if "64" in case["dtype"] else torch.float
        ok = replay_returns_long(ctx, case["T"], case["gamma"][0], case["gamma"][1], cols, case["batch_first"], dtype, case["module"],
                                 case.get("family", "long"))
        print("replay time_distributed_return (long sequence): %s" % ("agrees with the spec" if ok else "differs"))
    else:
        raise MachineryError("unknown case kind %r" % kind)


if __name__ == "__main__":
    sys.exit(main(PROP, "model_checking", run, replay))
