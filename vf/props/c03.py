"""C03 -- optimal-completion targets are exactly the distance-preserving next tokens.

TLC checks (EditDistance_decl_*.cfg) that the targets read off the row minima equal, for every
case and prefix, the declaratively defined set {t : best reachable distance of prefix.t = best
reachable distance of prefix} (minimum over ALL completions, all alignments).  spec -> code: each
exported behaviour's per-prefix target sets are compared with functional.optimal_completion (sorted,
duplicate free, then padding only; prefixes past the end all padding) and with the hard OCD loss
computed from integer-weight logits."""
import math
import sys

import torch

from ..harness import main
from . import _ed

PROP = "C03"


def _call_oc(ref, hyp, eos, inc, bf, cost, pad, excl, module):
    from pydrobert.torch import functional as F, modules as M

    if bf:
        ref, hyp = ref.t().contiguous(), hyp.t().contiguous()
    if module:
        out = _ed.quiet(M.OptimalCompletion(eos, inc, bf, cost[0], cost[1], cost[2], pad, excl, False), ref, hyp)
    else:
        out = _ed.quiet(F.optimal_completion, ref, hyp, eos, inc, bf, cost[0], cost[1], cost[2], pad, excl, False)
    return out.transpose(0, 1) if not bf else out  # (N, P, C)


def expected_sets(r, tmap, excl):
    """per prefix k: sorted list of implementation tokens, [] past the hypothesis's end"""
    H = len(r["hyp"])
    P = H if excl else H + 1
    out = []
    for k in range(P):
        valid = k < r["hyplen"] + (0 if excl else 1)
        out.append(sorted(tmap[s] for s in r["out"][k]["next"]) if valid else [])
    return out


def check_group(ctx, key, g, tmap, scale, settings, tag):
    mode, c, R, H = key
    eos, inc = _ed.eos_args(mode, tmap)
    cost = [x * scale for x in c]
    ref = _ed.tensors([r["ref"] for r in g], tmap)
    hyp = _ed.tensors([r["hyp"] for r in g], tmap)
    N = len(g)

    def case_of(i, kw, exp, got):
        return dict(fn="optimal_completion", ref=[tmap[s] for s in g[i]["ref"]], hyp=[tmap[s] for s in g[i]["hyp"]],
                    eos=eos, include_eos=inc, cost=cost, kwargs=kw, expected=exp, got=got,
                    spec_case=dict(ref=g[i]["ref"], hyp=g[i]["hyp"], mode=mode, c=list(c)), batch=tag)

    for bf, excl, pad, module in settings:
        kw = dict(batch_first=bf, exclude_last=excl, padding=pad, module=module)
        # the property excludes the empty hypothesis combined with exclude_last
        idx = [i for i, r in enumerate(g) if not (excl and r["hyplen"] == 0)]
        if not idx:
            continue
        sub = [g[i] for i in idx]
        try:
            got = _call_oc(ref[:, idx], hyp[:, idx], eos, inc, bf, cost, pad, excl, module)
        except Exception as ex:
            ctx.violation(dict(site="optimal_completion", kind="exception"), "raised %r" % ex, case_of(idx[0], kw, None, repr(ex)))
            continue
        ctx.case(n=len(idx))
        P = H if excl else H + 1
        if got.dim() != 3 or got.shape[0] != len(idx) or got.shape[1] != P:
            ctx.violation(dict(site="optimal_completion", kind="shape"), "shape %s" % (tuple(got.shape),), case_of(idx[0], kw, None, None))
            continue
        C = got.shape[2]
        gl = got.tolist()
        for j, r in enumerate(sub):
            exp = expected_sets(r, tmap, excl)
            for k in range(P):
                want = exp[k] + [pad] * (C - len(exp[k]))
                if len(exp[k]) > C or gl[j][k] != want:
                    kind = "targets" if k < r["hyplen"] + (0 if excl else 1) else "past_end"
                    ctx.violation(dict(site="optimal_completion", kind=kind, batch=tag),
                                  "prefix %d: got %r expected %r then padding %r" % (k, gl[j][k], exp[k], pad),
                                  case_of(idx[j], kw, exp, gl[j]))
                    break


def check_loss(ctx, key, g, tmap, ncalls):
    """hard OCD loss with logits = log(integer weights): expected from the spec's target sets"""
    from pydrobert.torch import functional as F, modules as M

    mode, c, R, H = key
    if mode == "incl" and tmap[0] < 0:
        return  # eos must be a class index for the loss when it is counted
    eos, inc = _ed.eos_args(mode, tmap)
    rng = ctx.rng
    V = max(tmap.values()) + 1
    cand = [r for r in g if r["hyplen"] > 0] if True else g
    if not cand:
        return
    for _ in range(ncalls):
        N = rng.choice((1, 2, 4))
        rows = [rng.choice(cand) for _ in range(N)]
        ref = _ed.tensors([r["ref"] for r in rows], tmap)
        hyp = _ed.tensors([r["hyp"] for r in rows], tmap)
        if ref.min() < 0 or ref.max() >= V:
            continue
        w = torch.tensor([[[rng.choice((1, 2, 3, 4, 6)) for _ in range(V)] for _ in range(N)] for _ in range(H)], dtype=torch.double)
        # a class the model rules out (weight 0, logit -inf) that is no target of any prefix: the loss stays finite
        all_targets = set(t for r in rows for st in expected_sets(r, tmap, True) for t in st)
        dead = [z for z in range(V) if z not in all_targets]
        if dead and rng.random() < 0.5:
            w[..., 0 if 0 in dead else rng.choice(dead)] = 0.0
        logits = w.log() + torch.tensor(rng.choice((0.0, 1.25)), dtype=torch.double)
        logp = (w / w.sum(-1, keepdim=True)).log()
        # expected per (k, n): - mean over targets of logp
        exp = torch.zeros(H, N, dtype=torch.double)
        has = torch.zeros(H, N, dtype=torch.bool)
        for n, r in enumerate(rows):
            sets = expected_sets(r, tmap, True)
            for k in range(H):
                if sets[k]:
                    exp[k, n] = -sum(logp[k, n, t].item() for t in sets[k]) / len(sets[k])
                    has[k, n] = True
        for bf in (False, True):
            for red in ("none", "sum", "mean"):
                if red == "none":
                    e = exp.t() if bf else exp
                elif red == "sum":
                    e = exp.sum()
                else:
                    e = (exp.sum(0) / has.sum(0).clamp_min(1)).mean()
                lg = logits.transpose(0, 1).contiguous() if bf else logits
                rf = ref.t().contiguous() if bf else ref
                hp = hyp.t().contiguous() if bf else hyp
                kw = dict(batch_first=bf, reduction=red)
                case = dict(fn="hard_optimal_completion_distillation_loss", logits=lg.tolist(), ref=rf.tolist(), hyp=hp.tolist(),
                            eos=eos, include_eos=inc, cost=[float(x) for x in c], kwargs=kw, expected=e.tolist())
                try:
                    if rng.random() < 0.3:
                        got = _ed.quiet(M.HardOptimalCompletionDistillationLoss(eos, inc, bf, float(c[0]), float(c[1]), float(c[2]), None, red),
                                        lg, rf, hp)
                    else:
                        got = _ed.quiet(F.hard_optimal_completion_distillation_loss, lg, rf, hp, eos, inc, bf,
                                        float(c[0]), float(c[1]), float(c[2]), None, red, -2, False)
                except Exception as ex:
                    ctx.violation(dict(site="hard_ocd_loss", kind="exception"), "raised %r" % ex, case)
                    continue
                ctx.case(n=1)
                ctx.count("loss_calls")
                got = got.double()
                if got.shape != e.shape or not bool(((got - e).abs() <= 1e-6 * e.abs().clamp_min(1)).all()):
                    case["got"] = got.tolist()
                    ctx.violation(dict(site="hard_ocd_loss", kind="value"), "loss %r expected %r" % (got.tolist(), e.tolist()), case)


FULL = [(b, e, p, m) for b in (False, True) for e in (False, True) for p, m in ((-1, False), (-9, True))]
LIGHT = [(False, False, -1, False), (True, True, -4, False)]


def run(ctx):
    ctx.rule = ("every behaviour of EditDistance.tla replayed through optimal_completion (functional and module) over "
                "batch_first x exclude_last x padding, one batch per shape and seeded small batches; hard OCD loss on "
                "seeded batches with integer-weight logits; non-trivial = some prefix has >= 2 targets or a target set "
                "that differs from the next reference token alone; distinct by (mode, costs, ref row, hyp row)")
    ctx.assumptions += ["dyadic costs; equal costs also times 0.1 / 0.3 / 0.7 (the library factors the common cost out, so the "
                        "targets are those of unit costs)", "R,H >= 1", "empty hypothesis x exclude_last excluded (as the property says)",
                        "long strings are chosen by the harness (seeded); their oracle is the specification's row machine, checked "
                        "against the declarative completion sets on the exhaustive universe of short rows only",
                        "loss: integer-weight logits, in half of the calls one class that is no target anywhere has weight 0 (logit -inf)"]
    recs = _ed.run_design(ctx, {"core", "decl"})
    groups = _ed.group_records(recs)
    ctx.exhaustive = True
    for key in sorted(groups):
        g = groups[key]
        for r in g:
            nt = any(len(o["next"]) >= 2 for o in r["out"][: r["hyplen"] + 1])
            ctx.case(key=(key[0], key[1], r["ref"], r["hyp"]), nontrivial=nt, n=0,
                     sample=dict(ref=r["ref"], hyp=r["hyp"], mode=key[0], costs=key[1],
                                 targets_per_prefix=[o["next"] for o in r["out"]]) if (nt and ctx.rng.random() < 0.002) else None)
        ti = ctx.rng.randrange(len(_ed.TOKEN_MAPS))
        for si, scale in enumerate(_ed.SCALES):
            tmap = _ed.TOKEN_MAPS[(ti + si) % len(_ed.TOKEN_MAPS)]
            check_group(ctx, key, g, tmap, scale, FULL if si == 0 else LIGHT, "all")
        for idxs in _ed.sub_batches(ctx.rng, len(g), 6 if ctx.quick else 40):
            check_group(ctx, key, [g[i] for i in idxs], _ed.TOKEN_MAPS[ti], 1.0, LIGHT, "small")
        check_loss(ctx, key, g, _ed.TOKEN_MAPS[ti if _ed.TOKEN_MAPS[ti][0] >= 0 else 0], 2 if ctx.quick else 10)
        ctx.traces += len(g)
    # LONG strings (harness-chosen, the specification's row machine is the oracle): 6..12 symbols over three tokens and
    # eos, short content padded beyond 256 symbols; equal costs also times non-dyadic factors (same targets: the library
    # factors the common cost out)
    lgroups = _ed.group_records(_ed.run_long(ctx))
    for n, key in enumerate(sorted(lgroups)):
        g = lgroups[key]
        c = key[1]
        for r in g:
            nt = any(len(o["next"]) >= 2 for o in r["out"][: r["hyplen"] + 1])
            ctx.case(key=("long", key[0], c, tuple(r["ref"]), tuple(r["hyp"])), nontrivial=nt, n=0)
        scales = [1.0] + (_ed.NONDYADIC if c[0] == c[1] == c[2] else [0.5])
        for si, scale in enumerate(scales):
            check_group(ctx, key, g, _ed.TOKEN_MAPS[(n + si) % len(_ed.TOKEN_MAPS)], scale, LIGHT, "long")
        if key[3] <= 12:
            check_loss(ctx, key, g, _ed.TOKEN_MAPS[0], 1)
        ctx.traces += len(g)
    if not ctx.samples:
        r = recs[len(recs) // 2]
        ctx.samples.append(dict(ref=r["ref"], hyp=r["hyp"], mode=r["mode"], costs=r["c"], targets_per_prefix=[o["next"] for o in r["out"]]))


def replay(ctx, case):
    from pydrobert.torch import functional as F

    cost = case["cost"]
    kw = dict(case["kwargs"])
    if case["fn"] == "optimal_completion":
        ref = torch.tensor([case["ref"]]).t()
        hyp = torch.tensor([case["hyp"]]).t()
        got = _ed.quiet(F.optimal_completion, ref, hyp, case["eos"], case["include_eos"], False, cost[0], cost[1], cost[2],
                        kw["padding"], kw["exclude_last"], False)[:, 0].tolist()
        exp = case["expected"]
        print("replay optimal_completion: got %r expected sets %r" % (got, exp))
        C = len(got[0]) if got else 0
        ok = exp is not None and len(got) == len(exp) and all(g == e + [kw["padding"]] * (C - len(e)) for g, e in zip(got, exp))
        if not ok:
            ctx.violation(dict(site="optimal_completion", kind="targets"), "replayed case still differs", case)
    else:
        got = _ed.quiet(F.hard_optimal_completion_distillation_loss, torch.tensor(case["logits"], dtype=torch.double),
                        torch.tensor(case["ref"]), torch.tensor(case["hyp"]), case["eos"], case["include_eos"], kw["batch_first"],
                        cost[0], cost[1], cost[2], None, kw["reduction"], -2, False).double()
        e = torch.tensor(case["expected"], dtype=torch.double)
        print("replay loss: got %r expected %r" % (got.tolist(), e.tolist()))
        if got.shape != e.shape or not bool(((got - e).abs() <= 1e-6 * e.abs().clamp_min(1)).all()):
            ctx.violation(dict(site="hard_ocd_loss", kind="value"), "replayed case still differs", case)


if __name__ == "__main__":
    sys.exit(main(PROP, "model_checking", run, replay))
