"""Shared machinery for X03: design runs of DistLoader.tla, real data directories, execution of one
distributed JOB (W loader objects, one per simulated rank, under FakeDist) with every pull / batch /
length recorded, and the trace records of DistLoaderTrace.tla."""
import os
import random
import shutil
import threading
import warnings

from .. import SPECS, tlc
from ..doubles.fakedist import FakeDist
from ..harness import MachineryError
from . import _batching as B

MOD = os.path.join(SPECS, "DistLoader.tla")
TRACE_MOD = os.path.join(SPECS, "DistLoaderTrace.tla")
TRACE_CFG = os.path.join(SPECS, "DistLoaderTrace.cfg")
TRACE_MAX_EPOCH = 2  # DistLoaderTrace.cfg: MaxEpoch
ACTIONS = ["DoLConstruct", "DoBeginEpoch", "DoPull", "DoExhaust", "DoFlush", "DoFinish"]
MODES = ("raise", "drop", "uneven", "ignore")
SITE = {"spect": "SpectDataLoader", "lang": "LangDataLoader", "window": "ContextWindowDataLoader"}
JOB_INVARIANTS = ["JobCover", "SharesAsDocumented", "RankDisjoint", "LenAgrees", "SameStepsWhenPromised",
                  "SameSamplesWhenPromised", "UnevenByOne", "EpochPermutationShared", "FedIsSharedOrder",
                  "IgnoreSameBatches", "BatchesWellFormed", "LenIsBatchingLen"]

# tier -> [(name, cfg, workers, role)]; role: "design" (must hold, actions covered), "stale" (LenNeverStale must FAIL)
DESIGN = {
    "quick": [("wide", "DistLoader_wide_quick.cfg", 10, "design"),
              ("free", "DistLoader_free_small.cfg", 4, "design"),
              ("stale", "DistLoader_stale.cfg", 2, "stale")],
    "thorough": [("wide", "DistLoader_wide_quick.cfg", 4, "design"),
                 ("free", "DistLoader_free_quick.cfg", 10, "design"),
                 ("stale", "DistLoader_stale.cfg", 2, "stale")],
}


def start_design(ctx):
    """start the design checks (TLC subprocesses, one thread each) -> handle for finish_design"""
    results, errs = {}, []

    def job(name, cfg, workers, role):
        try:
            results[name] = tlc.run(MOD, os.path.join(SPECS, cfg), workers=workers, timeout=3400,
                                    coverage=role == "design")
        except Exception as ex:  # reported by finish_design
            errs.append(ex)

    threads = [threading.Thread(target=job, args=j) for j in DESIGN[ctx.tier]]
    for t in threads:
        t.start()
    return threads, results, errs


def finish_design(ctx, handle):
    """-> (job records of the wide run, info records of all design runs)"""
    threads, results, errs = handle
    for t in threads:
        t.join()
    if errs:
        raise errs[0]
    jobs, infos = [], []
    for name, cfg, _, role in DESIGN[ctx.tier]:
        res = results[name]
        if role == "design":
            tlc.require_ok(res, "DistLoader/" + name)
            tlc.require_covered(res, ACTIONS, "DistLoader/" + name)
            ctx.add_tlc("DistLoader/%s (%s)" % (name, cfg), res)
            jobs += [r for r in res.records if r.get("what") == "job"]
            infos += [r for r in res.records if r.get("what") == "info"]
        else:
            # the cached length is NOT promised to stay exact: shuffled order + more than one length bucket +
            # a real split must produce a stale len(loader) -- otherwise the guard of LenAgrees is vacuous
            if res.ok:
                raise MachineryError("DistLoader/%s: TLC found no behaviour with a stale cached length in the bounded "
                                     "universe (%d states): the guard of LenAgrees would be vacuous" % (name, res.distinct))
            if "LenNeverStale" not in (res.error or ""):
                raise tlc.TLCFailure("DistLoader/%s: expected a violation of LenNeverStale only, got %s\n%s" % (
                    name, res.error, res.stdout[-2000:]))
            ctx.add_tlc("DistLoader/%s (%s: expected violation of LenNeverStale)" % (name, cfg), res,
                        count_states=False)
    if not jobs:
        raise MachineryError("the wide run exported no jobs")
    return jobs, infos


# ----------------------------------------------------------------------------- data directories
def ensure_dir(root, lens):
    """one real data directory per length vector under `root`: utterance i has lens[i] frames AND lens[i]
    reference tokens (LangDataLoader buckets by reference length), values encode (utterance, frame).
    Safe against concurrent builders (workers of par.pmap): built aside, renamed into place."""
    path = os.path.join(root, "L" + "_".join(str(int(x)) for x in lens))
    if os.path.isdir(path):
        return path
    tmp = "%s.tmp%d" % (path, os.getpid())
    shutil.rmtree(tmp, ignore_errors=True)
    B.build_dir(tmp, [int(x) for x in lens], [int(x) for x in lens], with_ali=True, with_ref=True)
    try:
        os.rename(tmp, path)
    except OSError:
        shutil.rmtree(tmp, ignore_errors=True)
        if not os.path.isdir(path):
            raise
    return path


# ----------------------------------------------------------------------------- recording
class RecordingSampler:
    """Proxy around a rank's utterance sampler: logs iter() (with the epoch the sampler reported), every
    utterance the batch sampler pulls and the exhaustion.  Everything else is forwarded (epoch,
    get_samples_for_epoch, len)."""

    def __init__(self, inner, log, rank):
        object.__setattr__(self, "_inner", inner)
        object.__setattr__(self, "_log", log)
        object.__setattr__(self, "_rank", rank)

    def __iter__(self):
        log, rank, inner = self._log, self._rank, self._inner
        before = int(inner.epoch)
        it = iter(inner)
        log(dict(op="begin", rank=rank, a=before))

        def gen():
            for x in it:
                log(dict(op="pull", rank=rank, a=int(x)))
                yield x
            log(dict(op="exhaust", rank=rank))

        return gen()

    def __len__(self):
        return len(self._inner)

    def __getattr__(self, name):
        return getattr(object.__getattribute__(self, "_inner"), name)

    def __setattr__(self, name, value):
        setattr(self._inner, name, value)


def _event(d):
    e = dict(op=d["op"], rank=int(d["rank"]), a=int(d.get("a", 0)), b=int(d.get("b", 0)),
             raised=bool(d.get("raised", False)), items=[int(x) for x in d.get("items", [])])
    return e


def make_loader(job, rank, init_epoch):
    """the loader of one rank (called inside FakeDist.as_rank)"""
    from pydrobert.torch import data as D

    d = job["dir"]
    shuffle = job["kind"] == "random"
    seed = job["seeds"][rank] if job.get("seeds") else job["seed"]  # (seeds: the self-test's deliberately wrong usage)
    which = job["loader"]
    if which == "window":
        p = D.ContextWindowDataLoaderParams(batch_size=job["bsz"], drop_last=job["dropLast"],
                                            context_left=0, context_right=0)
        return D.ContextWindowDataLoader(d, p, shuffle=shuffle, init_epoch=init_epoch, seed=seed,
                                         suppress_uttids=False, num_workers=0)
    if which == "spect":
        p = D.SpectDataLoaderParams(batch_size=job["bsz"], drop_last=job["dropLast"],
                                    num_length_buckets=job["nbreq"], size_batch_by_length=job["dyn"])
        return D.SpectDataLoader(d, p, shuffle=shuffle, sort_batch=False, init_epoch=init_epoch,
                                 on_uneven_distributed=job["lmode"], seed=seed, suppress_uttids=False,
                                 num_workers=0)
    p = D.LangDataLoaderParams(batch_size=job["bsz"], drop_last=job["dropLast"],
                               num_length_buckets=job["nbreq"], size_batch_by_length=job["dyn"])
    return D.LangDataLoader(os.path.join(d, "ref"), p, shuffle=shuffle, sort_batch=False, init_epoch=init_epoch,
                            on_uneven_distributed=job["lmode"], seed=seed, suppress_uttids=False,
                            num_workers=0)


def bucket_maps(loader, n, bsz):
    """the REAL idx2bucket / bucket2size as sequences (torch's BatchSampler: one bucket of size batch_size)"""
    from pydrobert.torch.data import BucketBatchSampler

    bs = loader.batch_sampler
    if isinstance(bs, BucketBatchSampler):
        keys = sorted(bs.bucket2size)
        num = dict((k, j) for j, k in enumerate(keys))
        return [num[bs.idx2bucket[i]] for i in range(n)], [int(bs.bucket2size[k]) for k in keys]
    return [0] * n, [int(bs.batch_size)]


class Job:
    """One distributed job on real loader objects.  job: dict(N, W, kind, cls, loader, lmode, dropLast, bsz,
    nbreq, dyn, lens, seed, dir, epochs, twin, sched[, sched_seed, seeds])."""

    def __init__(self, job):
        self.job = job
        self.events = []
        self.loaders = {}
        self.raised = {}
        self.failed = None
        self.fd_calls = 0
        self.asked = {}      # rank -> number of len() calls on the rank's current loader object
        self.lens_before = {}
        self.iters = {}
        self.recs = []       # finished epochs: dict(rank, epoch, fed, batches, len, fresh, obj)
        self.cur = {}
        self.maps = None
        self.obj = {}

    def log(self, d):
        self.events.append(_event(d))
        r = d["rank"]
        if d["op"] == "begin":
            self.cur[r] = dict(rank=r, epoch=int(d["a"]), fed=[], batches=[])
        elif d["op"] == "pull":
            self.cur[r]["fed"].append(int(d["a"]))

    def construct(self, rank, init_epoch):
        job = self.job
        names = dict((B.utt_name(i), i) for i in range(job["N"]))
        self.names = names
        self.loaders.pop(rank, None)
        raised = False
        with FakeDist(world_size=job["W"]) as fd:
            try:
                with fd.as_rank(rank):
                    try:
                        with warnings.catch_warnings():
                            warnings.simplefilter("ignore")
                            ld = make_loader(job, rank, init_epoch)
                        self.loaders[rank] = ld
                    except ValueError as ex:
                        raised = True
                        self.raised[rank] = repr(ex)
                    except Exception as ex:
                        self.failed = "constructor(rank=%d, init_epoch=%d): %s: %r" % (
                            rank, init_epoch, type(ex).__name__, ex)
            finally:
                self.fd_calls += sum(fd.calls.values())
        if self.failed:
            return False
        self.log(dict(op="construct", rank=rank, a=init_epoch, raised=raised))
        if not raised:
            if len(ld.dataset) != job["N"]:
                raise MachineryError("the data set holds %d utterances, the directory %d" % (len(ld.dataset), job["N"]))
            maps = bucket_maps(ld, job["N"], job["bsz"])
            if self.maps is None:
                self.maps = maps
            elif self.maps != maps:
                self.failed = "rank %d computed other length buckets than another rank: %r vs %r" % (rank, maps, self.maps)
                return False
            ld.batch_sampler.sampler = RecordingSampler(ld.batch_sampler.sampler, self.log, rank)
            self.asked[rank] = 0
            self.obj[rank] = self.obj.get(rank, -1) + 1
        return not raised

    def begin(self, rank):
        """len(loader) BEFORE the epoch (the first call on the object computes and caches), then iter(loader)"""
        ld = self.loaders[rank]
        try:
            self.lens_before[rank] = (int(len(ld)), self.asked[rank] == 0)
            self.asked[rank] += 1
            self.iters[rank] = iter(ld)
        except Exception as ex:
            self.failed = "len()/iter() on rank %d: %s: %r" % (rank, type(ex).__name__, ex)
            return False
        return True

    def step(self, rank):
        """one next() on the rank's loader iterator -> "yield" | "finish" | None (failure)"""
        try:
            batch = next(self.iters[rank])
        except StopIteration:
            self.iters.pop(rank)
            L, fresh = self.lens_before[rank]
            cur = self.cur.pop(rank, None)
            if cur is None:
                # the utterance sampler was never iterated: nothing the specification can follow
                self.failed = "rank %d: the loader finished an epoch without iterating its sampler" % rank
                return None
            self.log(dict(op="finish", rank=rank, a=L, b=1 if fresh else 0))
            cur.update(len=L, fresh=fresh, obj=self.obj[rank])
            self.recs.append(cur)
            return "finish"
        except Exception as ex:
            self.failed = "next() on rank %d: %s: %r" % (rank, type(ex).__name__, ex)
            return None
        try:
            items = [self.names[u] for u in batch[-1]]
        except Exception as ex:
            self.failed = "rank %d: cannot read the utterance ids of a batch: %r" % (rank, ex)
            return None
        self.log(dict(op="yield", rank=rank, items=items))
        if rank in self.cur:
            self.cur[rank]["batches"].append(items)
        return "yield"

    def drain(self, rank):
        while True:
            s = self.step(rank)
            if s != "yield":
                return s

    def run(self):
        job = self.job
        W, E = job["W"], job["epochs"]
        rng = random.Random(job.get("sched_seed", 0))
        live = [r for r in range(W) if self.construct(r, 0)]
        if self.failed:
            return self
        for _ in range(E):
            if job["sched"] == "ranks":  # one rank after the other
                for r in live:
                    if not self.begin(r) or self.drain(r) is None:
                        return self
            else:  # all ranks run the epoch together, next() calls interleaved at random
                for r in live:
                    if not self.begin(r):
                        return self
                pending = list(live)
                while pending:
                    r = pending[rng.randrange(len(pending))]
                    s = self.step(r)
                    if s is None:
                        return self
                    if s == "finish":
                        pending.remove(r)
        if job.get("twin") and live and E >= 2:
            # a second loader object on one rank, constructed with init_epoch = E - 1 (resuming): the same epoch again
            r = live[rng.randrange(len(live))]
            if self.construct(r, E - 1) and self.begin(r):
                self.drain(r)
        return self


def header(tid, job, maps, events):
    """the trace record of DistLoaderTrace.tla (maps: the real bucket maps; none when every constructor raised)"""
    i2b, size = maps if maps is not None else ([0] * job["N"], [job["bsz"]])
    return dict(tid=tid, N=job["N"], W=job["W"], kind=job["kind"], cls=job["cls"], lmode=job["lmode"],
                dropLast=bool(job["dropLast"]), bsz=job["bsz"], nbreq=job["nbreq"], dyn=bool(job["dyn"]),
                lens=[int(x) for x in job["lens"]], i2b=list(i2b), size=list(size), events=events)


def run_job(job):
    """module-level entry for par.pmap: -> picklable summary"""
    job = dict(job, dir=ensure_dir(job["root"], job["lens"]))
    j = Job(job).run()
    return dict(events=j.events, recs=j.recs, raised=j.raised, failed=j.failed, maps=j.maps,
                fd_calls=j.fd_calls, constructed=sorted(j.loaders))
