"""X05 helpers: abstract values of ArgCheck.tla <-> concrete python objects, one call of the real argcheck function per
exported case, and the comparison with the outcome the specification exported.

The verdict is always the specification's (`doc` / `res` of the exported record); this module only builds the concrete
arguments, abstracts what came back (type tag + exact rational / string / tensor payload) and compares."""
import argparse
import math
import os
from fractions import Fraction

from .. import SPECS

MOD = os.path.join(SPECS, "ArgCheckMC.tla")
ACTIONS = ["NoneShortCut", "PassWrapper", "Cast", "TypeStage", "NumlikeStage", "ConditionStage", "LeftBound", "RightBound",
           "PredicateStage", "Return"]
NAMES = dict(name="argname", other_name="othername", left_name="leftname", right_name="rightname")
N_FLAVOURS = 3
KEY_FIELDS = ("fn", "v", "an", "o", "l", "r", "li", "ri", "coll", "t", "eo", "ws", "nd", "ex")


def key_of(rec):
    return tuple(tuple(rec[f]) if isinstance(rec[f], list) else rec[f] for f in KEY_FIELDS)


# ---------------------------------------------------------------------------------------------- abstract -> concrete
def build(v, flavour=0):
    """the concrete python object for an abstract value record; flavour picks the numpy / torch dtype"""
    import numpy as np
    import torch

    k = v["k"]

    def num():
        if v["sp"] == "nan":
            return float("nan")
        if v["sp"] == "inf":
            return float("inf")
        if v["sp"] == "ninf":
            return float("-inf")
        return v["n"] / v["d"]

    if k == "int":
        return int(v["n"])
    if k == "bool":
        return bool(v["n"])
    if k == "float":
        return float(num())
    if k == "npint":
        ts = [np.int64, np.int32, np.uint8 if v["n"] >= 0 else np.int16]
        return ts[flavour % 3](v["n"])
    if k == "npfloat":
        ts = [np.float64, np.float32, np.float16]
        return ts[flavour % 3](num())
    if k == "str":
        return str(v["s"])
    if k == "none":
        return None
    if k == "tensor":
        if v["dt"] == "i":
            dt = [torch.long, torch.int32, torch.int16][flavour % 3]
        else:
            dt = [torch.float32, torch.float64, torch.float32][flavour % 3]
        vals = [n / d for n, d in v["el"]]
        if v["dt"] == "i":
            vals = [int(x) for x in vals]
        t = torch.tensor(vals, dtype=dt)
        if v["nd"] == 0:
            return t.reshape(())
        if v["nd"] == 2:
            return t.reshape(1, -1)
        return t
    raise ValueError("unknown abstract value %r" % (v,))


def tla_of(v):
    """the TLA+ constructor expression of an abstract value (replay writes a one-value universe)"""
    k = v["k"]
    if k == "int":
        return "IntV(%d)" % v["n"]
    if k == "npint":
        return "NpIntV(%d)" % v["n"]
    if k == "bool":
        return "BoolV(%s)" % ("TRUE" if v["n"] else "FALSE")
    if k in ("float", "npfloat"):
        pre = "Float" if k == "float" else "NpFloat"
        if v["sp"] != "fin":
            return '%sS("%s")' % (pre, v["sp"])
        return "%sV(%d, %d)" % (pre, v["n"], v["d"])
    if k == "str":
        if '"' in v["s"] or "\\" in v["s"]:
            raise ValueError("string not expressible: %r" % v["s"])
        return 'StrV("%s")' % v["s"]
    if k == "none":
        return "NoneV"
    if k == "tensor":
        return 'TensorV("%s", %d, <<%s>>)' % (v["dt"], v["nd"], ", ".join("<<%d, %d>>" % (n, d) for n, d in v["el"]))
    raise ValueError("unknown abstract value %r" % (v,))


# ---------------------------------------------------------------------------------------------- concrete -> abstract
def _num_abs(k, x):
    x = float(x)
    if math.isnan(x):
        return dict(k=k, sp="nan")
    if math.isinf(x):
        return dict(k=k, sp="inf" if x > 0 else "ninf")
    return dict(k=k, sp="fin", q=Fraction(x))


def alpha(x):
    """abstract a python object: exact type tag + exact payload"""
    import numpy as np
    import torch

    if x is None:
        return dict(k="none")
    t = type(x)
    if t is bool:
        return dict(k="bool", sp="fin", q=Fraction(int(x)))
    if t is int:
        return dict(k="int", sp="fin", q=Fraction(x))
    if t is float:
        return _num_abs("float", x)
    if t is str:
        return dict(k="str", s=x)
    if isinstance(x, np.integer):
        return dict(k="npint", sp="fin", q=Fraction(int(x)), np=t.__name__)
    if isinstance(x, np.floating):
        d = _num_abs("npfloat", x)
        d["np"] = t.__name__
        return d
    if isinstance(x, torch.Tensor):
        dt = "f" if x.is_floating_point() else ("b" if x.dtype == torch.bool else "i")
        flat = [float(y) for y in x.detach().reshape(-1).tolist()]
        if len(flat) == 1 and not math.isfinite(flat[0]):
            return dict(k="tensor", dt=dt, nd=x.dim(), sp=_num_abs("f", flat[0])["sp"], el=[])
        if any(not math.isfinite(y) for y in flat):
            return dict(k="tensor", dt=dt, nd=x.dim(), sp="mixed", el=[])
        return dict(k="tensor", dt=dt, nd=x.dim(), sp="fin", el=[Fraction(y) for y in flat])
    return dict(k="other:" + t.__name__)


def spec_abs(v):
    """the same abstraction for a value record exported by the specification"""
    k = v["k"]
    if k == "none":
        return dict(k="none")
    if k == "str":
        return dict(k="str", s=v["s"])
    if k == "tensor":
        return dict(k="tensor", dt=v["dt"], nd=v["nd"], sp=v["sp"], el=[Fraction(n, d) for n, d in v["el"]])
    if v["sp"] != "fin":
        return dict(k=k, sp=v["sp"])
    return dict(k=k, sp="fin", q=Fraction(v["n"], v["d"]))


def same_type(a, b):
    if a["k"] != b["k"]:
        return False
    if a["k"] == "tensor":
        return a["dt"] == b["dt"]
    return True


def same_value(a, b):
    ka = {k: v for k, v in a.items() if k not in ("np", "k", "dt")}
    kb = {k: v for k, v in b.items() if k not in ("np", "k", "dt")}
    return ka == kb


def show(a):
    if a is None:
        return "-"
    if a["k"] in ("none",):
        return "None"
    if a["k"] == "str":
        return "str %r" % a["s"]
    if a["k"] == "tensor":
        return "tensor(%s, ndim %d, %s)" % (a["dt"], a["nd"], a["sp"] if a["sp"] != "fin" else [str(e) for e in a["el"]])
    if a["k"].startswith("other"):
        return a["k"]
    return "%s %s" % (a.get("np", a["k"]), a["sp"] if a["sp"] != "fin" else str(a["q"]))


# ---------------------------------------------------------------------------------------------- one call
A_TYPES = None


def _a_types():
    global A_TYPES
    if A_TYPES is None:
        import torch

        A_TYPES = dict(int=int, float=float, str=str, bool=bool, tensor=torch.Tensor)
    return A_TYPES


def make_call(rec, vals, named, flavour):
    """(function, args, kwargs, val) for the exported case; defaults are left to the function whenever the case has the
    default (so that a changed default is observable)"""
    from pydrobert.torch import argcheck

    f = getattr(argcheck, rec["fn"])
    val = build(vals[rec["v"]], flavour)
    fam = rec["fam"]
    args, kw = [val], {}
    if named:
        kw["name"] = NAMES["name"]
    if fam == "cmp":
        args.append(build(vals[rec["o"]], flavour))
        if named:
            kw["other_name"] = NAMES["other_name"]
    elif fam == "btw":
        args += [build(vals[rec["l"]], flavour), build(vals[rec["r"]], flavour)]
        if named:
            kw["left_name"] = NAMES["left_name"]
            kw["right_name"] = NAMES["right_name"]
        if rec["cond"] == "btw":
            if rec["li"]:
                kw["left_inclusive"] = True
            if rec["ri"]:
                kw["right_inclusive"] = True
    elif fam == "in":
        args.append([build(vals[i], flavour) for i in rec["coll"]])
    elif fam == "a":
        args.append(_a_types()[rec["t"]])
    elif fam == "exactly":
        other = val if rec["ex"] == "same" else (build(vals[rec["v"]], flavour) if rec["ex"] == "copy" else "another object")
        args.append(other)
        if named:
            kw["other_name"] = NAMES["other_name"]
    elif fam == "token":
        if rec["eo"]:
            kw["empty_okay"] = True
        if rec["ws"] == "b":
            kw["whitespace"] = "b"
    elif fam == "ndim":
        args.append(int(rec["nd"]))
    if rec["an"]:
        kw["allow_none"] = True
    return f, args, kw, val


def run_call(rec, vals, named, flavour):
    """outcome of the real function: dict(out='acc'|'rej', res=abstract, exc=type name, msg, ident, base)"""
    f, args, kw, val = make_call(rec, vals, named, flavour)
    try:
        r = f(*args, **kw)
    except Exception as ex:  # the documentation does not name the exception type: any Exception is a rejection
        return dict(out="rej", res=None, exc=type(ex).__name__, msg=str(ex), ident=False, base=False)
    except BaseException as ex:  # SystemExit & co are not a way to reject an argument
        return dict(out="rej", res=None, exc=type(ex).__name__, msg=str(ex), ident=False, base=True)
    return dict(out="acc", res=alpha(r), exc=None, msg=None, ident=r is val, base=False)


def run_argparse(rec, vals):
    """the documented use of as_*: ArgumentParser().add_argument(type=as_x) on the string form"""
    from pydrobert.torch import argcheck

    f = getattr(argcheck, rec["fn"])
    s = vals[rec["v"]]["s"]
    p = argparse.ArgumentParser(prog="x05", exit_on_error=False, add_help=False)
    p.add_argument("x", type=f)
    try:
        ns = p.parse_args(["--", s])
    except argparse.ArgumentError as ex:
        return dict(out="rej", res=None, exc="ArgumentError", msg=str(ex), ident=False, base=False, usage=True)
    except Exception as ex:
        return dict(out="rej", res=None, exc=type(ex).__name__, msg=str(ex), ident=False, base=False, usage=False)
    except BaseException as ex:
        return dict(out="rej", res=None, exc=type(ex).__name__, msg=str(ex), ident=False, base=True, usage=False)
    return dict(out="acc", res=alpha(ns.x), exc=None, msg=None, ident=False, base=False, usage=False)


# ---------------------------------------------------------------------------------------------- comparison
def compare(expect_out, expect_res, got):
    """[] or [(kind, detail)]: the outcome `got` against an expected verdict + abstract result record"""
    if got.get("base"):
        return [("raises_base_exception", "raised %s (%s), which is not an Exception" % (got["exc"], got["msg"]))]
    if expect_out == "rej":
        if got["out"] == "acc":
            return [("accepts_documented_reject", "returned %s where the specification rejects" % show(got["res"]))]
        return []
    if got["out"] == "rej":
        return [("rejects_documented_accept", "raised %s(%r) where the specification returns %s" % (
            got["exc"], got["msg"], show(spec_abs(expect_res))))]
    want = spec_abs(expect_res)
    if not same_type(want, got["res"]):
        return [("result_type", "returned %s, the specification says %s" % (show(got["res"]), show(want)))]
    if not same_value(want, got["res"]):
        return [("result_value", "returned %s, the specification says %s" % (show(got["res"]), show(want)))]
    return []


def matches(out, res, got):
    return not compare(out, res, got)


def value_class(v):
    """coarse class of an input value for the informational table"""
    k = v["k"]
    if k in ("float", "npfloat") and v["sp"] != "fin":
        return k + ":" + ("nan" if v["sp"] == "nan" else "inf")
    if k in ("float", "npfloat"):
        return k + (":integral" if v["d"] == 1 else ":fraction")
    if k == "str":
        s = v["s"]
        if s in ("True", "False"):
            return "str:boolean-looking"
        try:
            float(s)
            return "str:numeric-looking"
        except ValueError:
            return "str:plain"
    if k == "tensor":
        n = len(v["el"])
        return "tensor:%dd%s" % (v["nd"], ":empty" if n == 0 else "")
    return k


def replay_chunk(job):
    """worker: job = dict(recs=[...], vals={id: record}) -> per record the list of (route, named, flavour, outcome)"""
    import warnings

    vals, out = job["vals"], []
    with warnings.catch_warnings():
        warnings.simplefilter("ignore")
        for rec in job["recs"]:
            runs = []
            for fl in rec["_fl"]:  # dtype flavours only where a numpy / tensor value takes part
                for named in (False, True):
                    runs.append(("direct", named, fl, run_call(rec, vals, named, fl)))
            if rec["fam"] == "as" and vals[rec["v"]]["k"] == "str":
                runs.append(("argparse", False, 0, run_argparse(rec, vals)))
            out.append(runs)
    return out
