"""C13 -- epoch samplers are reproducible and split the data exactly across processes.

Sampler.tla models one sampler object per rank (coordinates as __init__ computes them, cursor
iterators, the code's __len__ formula) over an UNINTERPRETED per-(seed, epoch) permutation and TLC
checks the property's clauses on every reachable log of completed epochs (disjoint, exact cover,
equal shares when dropping, len = number yielded, raise exactly when indivisible, ignore = all,
path independence) for every N <= 8, W <= 4, mode, kind.

spec -> code: the exported outcome table (refuses / share of positions per rank) for every
(N, W, mode) is replayed into real EpochRandomSampler / EpochSequentialSampler objects built under
FakeDist.  code -> spec: TLC-simulated behaviours (interleaved iterators, re-construction at
init_epoch, get_samples_for_epoch, whole orders), canonical histories for every case and seeded
random drivers are executed on the real objects; every call is recorded and SamplerTrace.tla (TLC)
must accept every recorded trace, inferring the never-logged Perm[seed, epoch].

SEVERAL iterators of one sampler object may be alive at once (Sampler.tla: slots it[r][h], design
run Sampler_live_*): an epoch partially consumed, then another epoch requested from the same object
(iter() again, get_samples_for_epoch(sampler.epoch) - what len() of a bucketed loader does -, the
whole order), then the first iterator continued.  The live histories, the TLC-simulated behaviours
and the random drivers interleave such iterators; every iterator's yields must follow the order of
the (seed, epoch) it was created for."""
import copy
import os
import sys

from ..harness import MachineryError, main
from . import _sampler as S
from . import _tracecheck

PROP = "C13"
SITE = {"random": "EpochRandomSampler", "seq": "EpochSequentialSampler"}


# ----------------------------------------------------------------------------- spec -> code
def check_case(ctx, rec, kind, epoch=0, seed_id=1):
    """One exported case of the outcome table against real objects.  Returns list of problems
    (kind, detail) -- the caller reports."""
    N, W, mode = rec["N"], rec["W"], rec["mode"]
    w = S.World(N, W, mode, kind)
    problems = []
    try:
        _check_case(w, rec, kind, epoch, seed_id, problems)
    except S.ImplError as ex:
        problems.append(("exception", str(ex)))
    if W > 1 and mode != "ignore" and w.calls == 0:
        raise MachineryError("FakeDist was never queried: the double is not bound")
    return problems


def _check_case(w, rec, kind, epoch, seed_id, problems):
    N, W, mode = rec["N"], rec["W"], rec["mode"]
    for r in range(W):
        want = rec["positions"][str(r)]
        ok = w.construct(r, seed_id, epoch)
        if ok == rec["refuses"]:
            problems.append(("raise-not-refused" if ok else "raise-unexpected",
                             "rank %d: constructor %s; the specification says %s" % (
                                 r, "succeeded" if ok else "raised ValueError",
                                 "refuse" if rec["refuses"] else "accept")))
            continue
        if not ok:
            continue
        s = w.smp[r]
        full = [int(x) for x in s.get_samples_for_epoch_ignoring_distributed(epoch)]
        if sorted(full) != list(range(N)):
            problems.append(("order-not-a-permutation", "rank %d: whole order %r" % (r, full)))
            continue
        if kind == "seq" and full != list(range(N)):
            problems.append(("order-not-sequential", "rank %d: whole order %r" % (r, full)))
        n = len(s)
        got = [int(x) for x in s]
        exp = [full[p] for p in want]
        if n != len(want) or n != len(got):
            problems.append(("len", "rank %d: len()=%d, yielded %d, share of positions %d" % (
                r, n, len(got), len(want))))
        if got != exp:
            problems.append(("slice", "rank %d yielded %r; positions %r of the epoch order %r are %r" % (
                r, got, want, full, exp)))
        if s.epoch != epoch + 1:
            problems.append(("epoch-counter", "rank %d: epoch %r after one iteration from %d" % (r, s.epoch, epoch)))


# ----------------------------------------------------------------------------- code -> spec
def guarded(fn):
    """a driver that stops at an undocumented exception returns the trace so far, marked failed"""
    def wrapped(*a):
        try:
            return fn(*a)
        except S.ImplError:
            return S.World.last.header(a[-1] if isinstance(a[-1], str) else a[1])
    return wrapped


@guarded
def canonical(N, W, mode, kind, tid):
    """construct everywhere, two epochs with round-robin interleaved iterators, the whole order,
    re-construction at epoch 1, get_samples_for_epoch(0)"""
    w = S.World(N, W, mode, kind)
    live = [r for r in range(W) if w.construct(r, 1, 0)]
    for _ in range(2):
        for r in live:
            w.begin("iter", r)
        pending = list(live)
        while pending:
            pending = [r for r in pending if w.step(r) == "yield"]
    for r in live[:1]:
        w.begin("full", r, 0)
        w.drain(r)
    for r in live:
        w.construct(r, 1, 1)
        w.begin("iter", r)
        w.drain(r)
    for r in live[-1:]:
        w.begin("get", r, 0)
        w.drain(r)
        w.begin("full", r, 1)
        w.drain(r)
    return w.header(tid)


@guarded
def live_history(N, W, mode, kind, tid):
    """several iterators of ONE sampler object alive at once, on every rank: (a) epoch 0 partially
    consumed, the upcoming epoch peeked at completely through get_samples_for_epoch(sampler.epoch)
    (what len() of a bucketed loader does mid-epoch), epoch 0 continued; (b) two consecutive epochs
    consumed side by side (zip); (c) three iterators: an epoch, the same epoch again and the whole
    order of another one, round robin; then every epoch touched once more from a FRESH object started
    at that epoch."""
    w = S.World(N, W, mode, kind)
    live = [r for r in range(W) if w.construct(r, 2, 0)]
    for r in live:
        share = len(w.smp[r])
        h0 = w.begin("iter", r)  # epoch 0
        alive0 = True
        for _ in range((share + 1) // 2):  # `share` is the implementation's own len(): it may be wrong
            if w.step(r, h0) == "end":
                alive0 = False
                break
        h1 = w.begin("get", r, w.smp[r].epoch)  # epoch 1, the counter stays
        w.drain(r, h1)
        if alive0:
            w.drain(r, h0)
    for r in live:
        ha, hb = w.begin("iter", r), w.begin("iter", r)  # epochs 1 and 2
        pending = [ha, hb]
        while pending:
            pending = [h for h in pending if w.step(r, h) == "yield"]
    for r in live[:2]:
        hs = [w.begin("iter", r), w.begin("get", r, 3), w.begin("full", r, 0)]  # epoch 3 twice, order of 0
        pending = list(reversed(hs))
        if w.step(r, hs[0]) == "end":
            pending.remove(hs[0])
        while pending:
            pending = [h for h in pending if w.step(r, h) == "yield"]
    for e0 in (0, 1, 2, 3):
        for r in live:
            w.construct(r, 2, e0)
            w.begin("iter", r)
            w.drain(r)
    return w.header(tid)


@guarded
def nondistributed(N, mode, kind, dist, tid):
    """no process group / not a member: the sampler must act as rank 0 of 1 whatever the mode"""
    w = S.World(N, 1, mode, kind, dist=dist, fake_world=3)
    if w.construct(0, 2, 0):
        w.begin("iter", 0)
        w.drain(0)
        w.begin("full", 0, 0)
        w.drain(0)
    tr = w.header(tid)
    # outside a process group nothing is uneven: the specification's case is W = 1
    return tr


@guarded
def random_driver(rng, tid, maxN, maxW):
    N = rng.choice([0, 1, 2, 3, 5, 7, 8, 9, 12, 16, maxN])
    W = rng.randint(1, maxW)
    mode = rng.choice(S.MODES)
    kind = rng.choice(["random", "seq"])
    w = S.World(N, W, mode, kind)
    budget = 60 + 4 * N
    for _ in range(rng.randint(5, 40)):
        if budget <= 0:
            break
        r = rng.randrange(W)
        c = rng.random()
        if r not in w.smp or c < 0.15:
            if w.live(r):
                continue
            w.construct(r, rng.choice([1, 2, 3]), rng.randint(0, S.MAX_TRACE_EPOCH - 1))
        elif w.live(r) and (w.free_slot(r) is None or rng.random() < 0.65):
            h = rng.choice(w.live(r))
            if c > 0.85:
                w.abandon(r, h)  # break out of the loop / islice(len): the iterator is never exhausted
                continue
            for _ in range(rng.randint(1, max(1, N))):
                budget -= 1
                if w.step(r, h) == "end":
                    break
        # (else: a new iterator, possibly next to live ones of the same object)
        elif c < 0.6:
            if w.smp[r].epoch <= S.MAX_TRACE_EPOCH:
                w.begin("iter", r)
        elif c < 0.8:
            w.begin("get", r, rng.randint(0, S.MAX_TRACE_EPOCH))
        else:
            w.begin("full", r, rng.randint(0, S.MAX_TRACE_EPOCH))
    for r in sorted(w.its):
        for h in w.live(r):
            if rng.random() < 0.7:
                w.drain(r, h)
    return w.header(tid)


def classify(tr, verdict):
    """Label a rejected trace by the first event TLC could not match (labelling only; the verdict
    is TLC's)."""
    ev = verdict.get("event") or {}
    why = verdict["why"]
    if why.startswith("invariant"):
        name = why.split()[1]
        return {"Disjoint": "overlap", "Cover": "gap-or-unequal-share", "PathIndependent": "order-depends-on-path",
                "LivePrefixes": "order-depends-on-path",
                "LenIsYielded": "len", "IgnoreGivesAll": "ignore-not-everything",
                "SequentialIsIdentity": "order-not-sequential", "SliceOfFull": "slice-not-strided",
                "RefusesExactly": "raise", "CoordinatesAgree": "coordinates"}.get(name, "invariant-" + name)
    op = ev.get("op")
    if op == "construct":
        return "raise-unexpected" if ev.get("raised") else "raise-not-refused"
    if op == "iter":
        return "epoch-counter"
    if op == "yield":
        # the spec rejects a yield because the share is exhausted or because it contradicts the
        # one permutation of that (seed, epoch) (other position, or an index another rank holds);
        # if another iterator of the SAME object was created or advanced since this iterator's
        # previous step, the order depends on the interleaving
        k = verdict["matched"]
        for e in reversed(tr["events"][:k]):
            if e["rank"] != ev["rank"]:
                continue
            if e.get("h", 0) == ev.get("h", 0):
                break
            if e["op"] in ("iter", "get", "full", "yield"):
                return "order-depends-on-interleaved-iterators"
        return "order-or-overlap"
    if op == "end":
        k = verdict["matched"]
        n = 0
        for e in reversed(tr["events"][:k]):
            if e["rank"] != ev["rank"] or e.get("h", 0) != ev.get("h", 0):
                continue
            if e["op"] != "yield":
                break
            n += 1
        return "share-size" if n == ev.get("a") else "len-differs-from-yielded"
    return "rejected"


def for_tlc(tr):
    return dict((k, tr[k]) for k in ("tid", "N", "W", "mode", "kind", "events"))


def validate_and_report(ctx, traces, name):
    bad = 0
    for tr in traces:
        if tr.get("failed"):
            bad += 1
            ctx.violation(dict(site=SITE[tr["kind"]], kind="exception", mode=tr["mode"]),
                          "N=%d W=%d mode=%s: %s" % (tr["N"], tr["W"], tr["mode"], tr["failed"]),
                          dict(type="trace", trace=tr))
    traces = [tr for tr in traces if not tr.get("failed")]
    verdicts = _tracecheck.validate(ctx, name, S.TRACE_MOD, S.TRACE_CFG, [for_tlc(t) for t in traces], chunk=450)
    for tr in traces:
        v = verdicts[tr["tid"]]
        if v is None:
            continue
        bad += 1
        kind = classify(tr, v)
        case = dict(type="trace", trace=dict(tr, events=tr["events"][: v["matched"] + 1]))
        ctx.violation(dict(site=SITE[tr["kind"]], kind=kind, mode=tr["mode"]),
                      "N=%d W=%d mode=%s: TLC rejects the recorded run at event %d %r (%s)" % (
                          tr["N"], tr["W"], tr["mode"], v["matched"], v.get("event"), v["why"]), case)
    ctx.traces += len(traces)
    return bad


def selftest(ctx, traces, lives):
    """Binding self-test: corrupted copies of accepted traces must be rejected by TLC."""
    picks = [t for t in traces if t["W"] >= 2 and t["mode"] in ("uneven", "drop") and t["N"] >= 4
             and t["kind"] == "random"][:3]
    if len(picks) < 3:
        raise MachineryError("self-test: not enough suitable traces")
    bad = []
    a = copy.deepcopy(picks[0])  # a rank yields an index another rank has yielded in that epoch
    ys = [e for e in a["events"] if e["op"] == "yield"]
    r0 = ys[0]["rank"]
    other = next(e for e in ys if e["rank"] != r0)
    ys[0]["a"] = other["a"]
    a["tid"] = "self-overlap"
    bad.append(a)
    b = copy.deepcopy(picks[1])  # reported length off by one
    next(e for e in b["events"] if e["op"] == "end")["a"] += 1
    b["tid"] = "self-len"
    bad.append(b)
    c = copy.deepcopy(picks[2])  # an iterator stops one element early
    i = next(i for i, e in enumerate(c["events"]) if e["op"] == "yield")
    del c["events"][i]
    c["tid"] = "self-short"
    bad.append(c)
    # two iterators of one object side by side: from the moment the second exists, the first continues
    # with the second's elements (a shared buffer reshuffled under it)
    d = copy.deepcopy(next((t for t in lives if t["W"] == 1 and t["N"] >= 6 and t["kind"] == "random"), None))
    if d is None:
        raise MachineryError("self-test: no live history to corrupt")
    i1 = next(i for i, e in enumerate(d["events"]) if e["op"] == "get")
    other = [e["a"] for e in d["events"][i1:] if e["op"] == "yield" and e["h"] == d["events"][i1]["h"]]
    k = sum(1 for e in d["events"][:i1] if e["op"] == "yield")
    for e in d["events"][i1:]:
        if e["op"] == "yield" and e["h"] == 0 and k < len(other):
            e["a"] = other[k]
            k += 1
        elif e["op"] == "end" and e["h"] == 0:
            break
    d["tid"] = "self-shared-buffer"
    bad.append(d)
    sub = type(ctx)(ctx.prop, ctx.tier, ctx.seed, ctx.level)
    try:
        v = _tracecheck.validate(sub, "SamplerTrace/selftest", S.TRACE_MOD, S.TRACE_CFG, [for_tlc(t) for t in bad])
    finally:
        import shutil

        shutil.rmtree(sub.workdir, ignore_errors=True)
    missed = [t for t, x in v.items() if x is None]
    if missed:
        raise MachineryError("self-test: corrupted traces were accepted: %r" % missed)
    ctx.extra["selftest"] = dict((t, x["why"] + " @%d" % x["matched"]) for t, x in v.items())


# ----------------------------------------------------------------------------- entry points
def unbounded_share_lemma(ctx):
    """TLC samples data-set sizes up to 8; the per-rank share formula (i - r + W - 1) div W -- AbstractEpochSampler.__len__
    -- is an inductive invariant of the round-robin deal for EVERY size (specs/SamplerInd.tla, Apalache, symbolic position
    counter): base case, inductive step, and the consequences (disjoint cover, equal shares when W divides the size,
    otherwise shares differing by at most one in favour of the low ranks).  A copy with an off-by-one formula must be
    refuted (non-vacuity)."""
    import shutil
    from concurrent.futures import ThreadPoolExecutor

    from .. import SPECS, apalache

    ws = (3,) if ctx.quick else (1, 2, 3, 4)
    jobs = []
    for w in ws:
        mod = os.path.join(SPECS, "SamplerInd_W%d.tla" % w)
        jobs += [(w, "base", mod, dict(init="Init", inv="IndInv", length=0)),
                 (w, "step", mod, dict(init="IndInit", inv="IndInv", length=1)),
                 (w, "consequences", mod, dict(init="IndInit", inv="Consequences", length=0))]
    bad_dir = ctx.subdir("samplerind_bad")
    with open(os.path.join(SPECS, "SamplerInd.tla")) as f:
        txt = f.read()
    good = "LenFormula(n, r) == (n - r + W - 1) \\div W"
    if good not in txt:
        raise MachineryError("SamplerInd.tla: formula line not found")
    with open(os.path.join(bad_dir, "SamplerInd.tla"), "w") as f:
        f.write(txt.replace(good, "LenFormula(n, r) == (n - r + W) \\div W"))
    shutil.copy(os.path.join(SPECS, "SamplerInd_W3.tla"), bad_dir)
    jobs.append((3, "off_by_one_must_fail", os.path.join(bad_dir, "SamplerInd_W3.tla"), dict(init="IndInit", inv="IndInv", length=1)))
    with ThreadPoolExecutor(max_workers=4) as pool:
        results = list(pool.map(lambda j: apalache.check(j[2], **j[3]), jobs))
    for (w, what, _, _), res in zip(jobs, results):
        d = res.as_dict()
        d["name"] = "SamplerInd W=%d %s" % (w, what)
        ctx.tlc_runs.append(d)
        if what == "off_by_one_must_fail":
            if res.ok:
                raise MachineryError("Apalache accepted an off-by-one share formula: the inductive check is vacuous")
        elif not res.ok:
            raise MachineryError("Apalache refutes the share lemma (W=%d, %s):\n%s" % (w, what, res.tail))
    ctx.count("apalache_inductive_obligations_discharged", len(jobs) - 1)


def run(ctx):
    ctx.rule = ("spec->code: every case (N<=8, W<=4, mode) x {random, sequential} of the exported outcome "
                "table on real objects, every rank; code->spec: canonical histories for every case, live "
                "histories (several iterators of one sampler object in flight: peek at the next epoch "
                "mid-epoch, two epochs side by side, three iterators round robin), "
                "TLC-simulated behaviours, seeded random drivers (N up to 40, W up to 6), non-distributed "
                "variants, all validated by SamplerTrace; non-trivial = W > 1, N > 0 and mode != ignore "
                "(a real split), distinct by (N, W, mode, kind[, history])")
    ctx.assumptions += [
        "one process simulates all ranks: torch.distributed.is_available/is_initialized/get_rank/"
        "get_world_size are replaced by the FakeDist double (exactly what AbstractEpochSampler.__init__ reads)",
        "data sources are range(N) (only len() is used by the samplers)",
        "base seeds 0, 12345, 2^31-1; epochs 0..4",
        "at most 3 iterators of one sampler object alive at the same time; a sampler object is not "
        "re-constructed while one of its iterators is alive",
    ]
    cases = S.run_design(ctx)
    unbounded_share_lemma(ctx)
    table = dict(((c["N"], c["W"], c["mode"]), c) for c in cases if c["kind"] == "seq")
    ctx.exhaustive = True
    # --- spec -> code
    for key in sorted(table):
        rec = table[key]
        for kind in ("random", "seq"):
            for epoch, seed_id in ((0, 1), (2, 3)):
                probs = check_case(ctx, rec, kind, epoch, seed_id)
                N, W, mode = key
                ctx.case(key=(N, W, mode, kind), nontrivial=W > 1 and N > 0 and mode != "ignore",
                         sample=dict(N=N, W=W, mode=mode, kind=kind, refuses=rec["refuses"],
                                     positions=rec["positions"]) if (N, W, mode, kind, epoch) in (
                             (5, 2, "drop", "random", 0), (7, 3, "uneven", "seq", 0)) else None)
                for k, detail in probs:
                    ctx.violation(dict(site=SITE[kind], kind=k, mode=mode),
                                  "N=%d W=%d mode=%s epoch=%d: %s" % (N, W, mode, epoch, detail),
                                  dict(type="case", rec=rec, kind=kind, epoch=epoch, seed_id=seed_id))
                ctx.traces += 1
    # --- code -> spec
    traces = []
    maxN = 8 if ctx.quick else 12
    for N in range(maxN + 1):
        for W in range(1, 5):
            for mode in S.MODES:
                for kind in ("random", "seq"):
                    traces.append(canonical(N, W, mode, kind, "canon-%d-%d-%s-%s" % (N, W, mode, kind)))
    for N in ((0, 1, 2, 3, 4, 5, 7, 8, 13) if ctx.quick else tuple(range(maxN + 1)) + (13, 16, 23)):
        for W in (1, 2, 3):
            for mode in (("uneven",) if W == 1 else S.MODES if W == 2 or not ctx.quick else ("drop", "uneven")):
                for kind in ("random", "seq"):
                    traces.append(live_history(N, W, mode, kind, "live-%d-%d-%s-%s" % (N, W, mode, kind)))
    for N in (0, 1, 5):
        for mode in S.MODES:
            for kind in ("random", "seq"):
                for dist in ("uninit", "unavail", "norank"):
                    traces.append(nondistributed(N, mode, kind, dist, "nodist-%d-%s-%s-%s" % (N, mode, kind, dist)))
    skels = S.simulate_skeletons(ctx, 60 if ctx.quick else 600, ctx.seed + 1)
    nmatch = 0
    for i, sk in enumerate(skels):
        w = S.World(sk["N"], sk["W"], sk["mode"], sk["kind"])
        w.run_skeleton(sk["ops"])
        tr = w.header("sim-%d" % i)
        traces.append(tr)
        if sk["kind"] == "seq" and w.diverged is None:
            # sequential order is determined: the behaviour's values must be the implementation's
            want = [(o["op"], o["rank"], o["a"]) for o in sk["ops"] if o["op"] in ("yield", "end")]
            got = [(e["op"], e["rank"], e["a"]) for e in tr["events"] if e["op"] in ("yield", "end")]
            if want != got:
                ctx.violation(dict(site=SITE["seq"], kind="replay-differs", mode=sk["mode"]),
                              "TLC behaviour %r, implementation %r" % (want[:12], got[:12]),
                              dict(type="trace", trace=tr))
            nmatch += 1
    ctx.count("tlc_behaviours_executed", len(skels))
    ctx.count("tlc_sequential_behaviours_compared_stepwise", nmatch)
    nrand = 300 if ctx.quick else 3000
    for i in range(nrand):
        traces.append(random_driver(ctx.rng, "rand-%d" % i, 40, 6))
    for tr in traces:
        nyield = sum(1 for e in tr["events"] if e["op"] == "yield")
        ctx.case(key=(tr["N"], tr["W"], tr["mode"], tr["kind"], tr["tid"].split("-")[0],
                      [(e["op"], e["rank"], e["a"]) for e in tr["events"]]),
                 nontrivial=tr["W"] > 1 and tr["N"] > 0 and tr["mode"] != "ignore" and nyield > 0,
                 sample=dict(N=tr["N"], W=tr["W"], mode=tr["mode"], kind=tr["kind"],
                             events=[(e["op"], e["rank"], e["a"]) for e in tr["events"][:14]])
                 if tr["tid"] in ("canon-5-2-drop-random", "sim-3") else None)
    ctx.count("events_validated", sum(len(t["events"]) for t in traces))
    validate_and_report(ctx, traces, "SamplerTrace")
    selftest(ctx, [t for t in traces if t["tid"].startswith("canon")],
             [t for t in traces if t["tid"].startswith("live")])


def replay(ctx, case):
    if case.get("type") == "case":
        probs = check_case(ctx, case["rec"], case["kind"], case["epoch"], case["seed_id"])
        for k, detail in probs:
            print("replay:", k, detail)
            ctx.violation(dict(site=SITE[case["kind"]], kind=k), detail, case)
        return
    tr = case["trace"]
    w = S.World(tr["N"], tr["W"], tr["mode"], tr["kind"], dist=tr.get("dist", "on"),
                fake_world=tr.get("fake_world"))
    w.run_skeleton(tr["events"])
    new = w.header(tr["tid"])
    v = _tracecheck.validate(ctx, "SamplerTrace/replay", S.TRACE_MOD, S.TRACE_CFG, [for_tlc(new)])[tr["tid"]]
    print("replay: re-executed %d operations, TLC %s" % (len(new["events"]), "accepts" if v is None else "rejects: %r" % v))
    if v is not None:
        ctx.violation(dict(site=SITE[tr["kind"]], kind=classify(new, v)), "replayed run is still rejected", case)


if __name__ == "__main__":
    sys.exit(main(PROP, "model_checking", run, replay))
