"""X04 (extra, beyond the listed properties) -- a whole training job: controller + data loader + restarts.

TrainLoop.tla: the canonical loop of the documentation (controller and loader constructed from the files, checkpoint
loaded, `while continue_training(): for batch in loader: train; update_for_epoch`) as a process image over a disk, with
Crash (a) between epochs, (b) mid-epoch, (c) at any file-system call of update_for_epoch (refined as in TrainCtlFs), and
Start = a fresh image on the same files.  The epoch order Perm(S, k) is uninterpreted: the abstract weight is the
sequence of (epoch key, batch position) applied.  The decisions are TrainCtl's (instantiated).  TLC checks over ALL
crash/restart placements (<= 3 epochs, <= 3 batches per epoch, <= 2 crashes, <= 1 inside update_for_epoch):
ResumeIsTransparent, NoEpochTwiceNoEpochSkipped, LoaderEpochMatchesController, SameStopDecision (+ NeverBroken,
MemoryIsReference, MemoryIsDisk), Termination under fairness; and that the classic mistake (loader constructed with
init_epoch = 0 after a restart) violates ResumeIsTransparent.

spec -> code: every behaviour of the bounded model (parameters, keep mode, metric history, batches per epoch, crash
placement) is exported and replayed on the REAL TrainingStateController + SpectDataLoader on temporary directories, the
job being killed exactly where the behaviour says (mid-epoch: every object abandoned; inside update_for_epoch: FsInterposer
at the call index) and restarted from the top; the recorded history must be the behaviour's rows.
code -> spec: every replay records its events (start with the epoch read from disk and the loader's epoch, batches as
utterance numbers with the integer weight after them, every file-system call with what was written, rows appended,
crashes, the best epoch loaded at the end); TrainLoopTrace.tla (TLC) must accept every trace, inferring Perm(S, k) and
the initial weight from their first observation and interpreting the abstract weight through them."""
import copy
import hashlib
import json
import os
import shutil
import sys
import threading

from .. import SPECS, par, tlc
from ..harness import MachineryError, main
from . import _tc
from . import _tracecheck
from . import _trainloop as TL

PROP = "X04"
SITE = "TrainingStateController+SpectDataLoader"


def _h(*parts):
    return int.from_bytes(hashlib.blake2b(json.dumps(parts, sort_keys=True).encode(), digest_size=4).digest(), "big")


def group_key(spec):
    return (tuple(sorted(spec["p"].items())), bool(spec["keep"]), tuple(spec["M"]), spec["nb"])


def conf_for(ctx_seed, spec, dirs):
    """everything the specification leaves free, fixed per (parameters, keep, history, batches): data set size, loader
    seed, params.seed -- the same for a job and its uninterrupted twin"""
    g = group_key(spec)
    h = _h(ctx_seed, g)
    n = TL.n_for(spec["nb"], odd=bool(h & 1))
    seed = [0, 1, 12345, 2 ** 31 - 1][(h >> 1) % 4] if (h >> 3) % 3 == 0 else (h >> 5) % 100000
    # where inside update_for_epoch the job dies: right after call k or right before call k + 1 (the same program point)
    side = "after" if _h(ctx_seed, g, spec["sched"]) & 1 else "before"
    return dict(data_dir=dirs.get(n), n=n, seed=seed, pseed=(h >> 7) % 1000, side=side)


# ----------------------------------------------------------------------------- design
def run_design(ctx):
    tag = ctx.tier
    got, errs = {}, []

    def job(name, cfg, workers, coverage=True):
        try:
            got[name] = tlc.run(TL.MOD, os.path.join(SPECS, cfg), workers=workers, timeout=3000, coverage=coverage)
        except Exception as ex:
            errs.append(ex)

    ths = [threading.Thread(target=job, args=("design", "TrainLoop_%s.cfg" % tag, 8)),
           threading.Thread(target=job, args=("live", "TrainLoop_live.cfg", 4)),
           threading.Thread(target=job, args=("mistake", "TrainLoop_mistake.cfg", 2, False))]
    for th in ths:
        th.start()
    for th in ths:
        th.join()
    if errs:
        raise errs[0]
    res = got["design"]
    tlc.require_ok(res, "TrainLoop/" + tag)
    tlc.require_covered(res, TL.ACTIONS, "TrainLoop/" + tag)
    ctx.add_tlc("TrainLoop/" + tag, res)
    tlc.require_ok(got["live"], "TrainLoop/live (Termination, no deadlock)")
    tlc.require_covered(got["live"], TL.ACTIONS, "TrainLoop/live")
    ctx.add_tlc("TrainLoop/live (Termination under fairness)", got["live"])
    bad = got["mistake"]
    if bad.ok or "ResumeIsTransparent" not in (bad.error or ""):
        raise MachineryError("TrainLoop with init_epoch = 0 after a restart does not violate ResumeIsTransparent: the "
                             "invariant is vacuous (%r)" % bad.error)
    ctx.add_tlc("TrainLoop/mistake init_epoch=0 (expected violation of ResumeIsTransparent)", bad, count_states=False)
    recs, seen = [], set()
    for r in res.records:
        spec = dict(p=r["p"], keep=r["keep"], M=list(r["M"]), nb=r["nb"], sched=r["sched"], rows=r["rows"], best=r["best"])
        k = json.dumps([sorted(spec["p"].items()), spec["keep"], spec["M"], spec["nb"], spec["sched"]], sort_keys=True)
        if k in seen:  # (the same placement reached through another order of the clean-up deletions)
            continue
        seen.add(k)
        recs.append(spec)
    if not recs:
        raise MachineryError("no behaviours exported")
    recs.sort(key=lambda s: json.dumps([sorted(s["p"].items()), s["keep"], s["M"], s["nb"], s["sched"]], sort_keys=True))
    return recs


# ----------------------------------------------------------------------------- verdicts
def classify(tr, v):
    """label a rejected trace (labelling only; the verdict is TLC's)"""
    why = v["why"]
    e = v.get("event") or {}
    op = e.get("op")
    if why.startswith("invariant"):
        name = why.split()[1]
        return {"ResumeIsTransparent": "checkpoint_not_reference_weight", "MemoryIsReference": "weight_not_reference",
                "NoEpochTwiceNoEpochSkipped": "epoch_twice_or_skipped", "LoaderEpochMatchesController": "loader_epoch",
                "SameStopDecision": "stop_decision", "MemoryIsDisk": "controller_memory", "NeverBroken": "restart_load_failed",
                "PermOK": "epoch_order_not_a_permutation"}.get(name, "invariant_" + name)
    if op == "start":
        k = v["matched"]
        prev = [x for x in tr["events"][:k] if x["op"] == "append"]
        last = prev[-1]["e"] if prev else 0
        if e.get("e") != last:
            return "last_epoch"
        if e.get("a") != e.get("e"):
            return "loader_epoch"
        if e.get("e") == 0:
            return "initial_weight_not_reproduced"
        return "restart_weight_or_rate"
    if op == "start_failed":
        return "restart_load_failed"
    if op == "begin":
        return "loader_epoch" if e.get("a") != e.get("e") else "stop_decision"
    if op == "finish":
        return "stop_decision"
    if op == "batch":
        return "epoch_order_or_weight"
    if op == "update":
        return "epoch_length"
    if op in ("makedirs", "mktemp", "write", "replace", "append", "remove"):
        return "update_" + op
    if op == "updated":
        return "stop_decision"
    if op == "best":
        return "best_epoch"
    if op == "crash":
        return "crash_point"
    return "rejected"


class _Capture:
    """ctx proxy for _tracecheck.validate that also keeps the records TLC exported"""

    def __init__(self, ctx):
        object.__setattr__(self, "_ctx", ctx)
        object.__setattr__(self, "records", [])

    def __getattr__(self, name):
        return getattr(self._ctx, name)

    def __setattr__(self, name, value):
        setattr(self._ctx, name, value)

    def add_tlc(self, name, res, count_states=True):
        self.records.extend(res.records)
        self._ctx.add_tlc(name, res, count_states)


def validate(ctx, traces, meta, name):
    """TLC accepts or rejects every trace -> the 'accepted' records (tid, nkeys, allsame); meta: tid -> case"""
    cap = _Capture(ctx)
    verdicts = _tracecheck.validate(cap, name, TL.TRACE_MOD, TL.TRACE_CFG, traces, chunk=1500, timeout=3000)
    for tr in traces:
        v = verdicts[tr["tid"]]
        if v is None:
            continue
        case = meta[tr["tid"]]
        ctx.violation(dict(site=SITE, kind=classify(tr, v)),
                      "TLC rejects the recorded job at event %d %r (%s); crashes %r, params %r, keep_last_and_best_only=%s, "
                      "metrics %r, %d batches/epoch" % (v["matched"], v.get("event"), v["why"], case["spec"]["sched"],
                                                        case["spec"]["p"], case["spec"]["keep"], case["spec"]["M"],
                                                        case["spec"]["nb"]),
                      dict(case, rejected_at=v["matched"], prefix=tr["events"][max(0, v["matched"] - 6):v["matched"] + 1]))
    ctx.traces += len(traces)
    return [r for r in cap.records if r.get("what") == "accepted"]


def reshuffled(ctx, accepted, meta):
    """the one statistical clause: `shuffle=True` re-shuffles at every epoch.  Perm(S, k) is uninterpreted, so a single
    job whose epochs share one order is legal; EVERY job doing so (many seeds, >= 24 possible orders each) is not."""
    multi, same = set(), set()
    for r in accepted:
        conf = meta[r["tid"]]["conf"]
        if r["nkeys"] >= 2 and conf["n"] >= 4:
            multi.add((conf["seed"], conf["n"]))
            if r["allsame"]:
                same.add((conf["seed"], conf["n"]))
    ctx.extra["loader_seeds_with_two_or_more_complete_epochs"] = len(multi)
    ctx.extra["of_which_every_epoch_in_one_order"] = len(same)
    if len(multi) >= 8 and same == multi:
        ctx.violation(dict(site="SpectDataLoader", kind="epochs_not_reshuffled"),
                      "in all %d (seed, data set) combinations every epoch was delivered in one and the same order "
                      "although shuffle=True" % len(multi), dict(type="aggregate", seeds=sorted(multi)))


def selftest(ctx, jobs_by_tid, traces, dirs):
    """Binding self-test: (1) corrupted copies of accepted traces and (2) the REAL job run with the classic mistake
    (loader constructed with init_epoch = 0 after a restart) must be rejected by TLC."""
    bad = []
    pick = next((t for t in traces if t["nb"] >= 2 and any(e["op"] == "start" and e["e"] > 0 for e in t["events"])
                 and sum(1 for e in t["events"] if e["op"] == "append") >= 2), None)
    if pick is None:
        raise MachineryError("self-test: no suitable trace")
    a = copy.deepcopy(pick)  # two batches of an epoch swapped in one image only
    bs = [i for i, e in enumerate(a["events"]) if e["op"] == "batch"]
    a["events"][bs[-1]]["ids"], a["events"][bs[-2]]["ids"] = a["events"][bs[-2]]["ids"], a["events"][bs[-1]]["ids"]
    a["tid"] = "self-swapped-batches"
    bad.append(a)
    b = copy.deepcopy(pick)  # a checkpoint holding a weight one batch short
    wr = [e for e in b["events"] if e["op"] == "write"]
    wr[-1]["w"] = (wr[-1]["w"] + 1) % TL.MODULUS
    b["tid"] = "self-wrong-checkpoint"
    bad.append(b)
    c = copy.deepcopy(pick)  # the loader one epoch behind at a restart
    st = [e for e in c["events"] if e["op"] == "start" and e["e"] > 0]
    st[-1]["a"] -= 1
    c["tid"] = "self-loader-behind"
    bad.append(c)
    # the real job, wrong usage
    def restarts_mid_job(j):
        sp = j[0]
        if not sp["sched"] or sp["nb"] < 2 or sp["sched"][0]["at"] == "fs":
            return False
        c = sp["sched"][0]
        last = c["e"] if c["at"] == "check" else c["e"] - 1
        return last >= 1 and len(sp["rows"]) > last

    spec, conf, base = next(j for j in jobs_by_tid.values() if restarts_mid_job(j))
    mis = dict(conf, mistake=True)
    out = TL.run_job((spec, mis, base))
    d = TL.trace_of("self-real-job-init-epoch-0", spec, mis, out["events"])
    bad.append(d)
    sub = type(ctx)(ctx.prop, ctx.tier, ctx.seed, ctx.level)
    try:
        v = _tracecheck.validate(sub, "TrainLoopTrace/selftest", TL.TRACE_MOD, TL.TRACE_CFG, bad)
    finally:
        shutil.rmtree(sub.workdir, ignore_errors=True)
    missed = [t for t, x in v.items() if x is None]
    if missed:
        raise MachineryError("self-test: traces that must be rejected were accepted: %r" % missed)
    ctx.extra["selftest"] = dict((t, "%s @%d" % (x["why"], x["matched"])) for t, x in v.items())


# ----------------------------------------------------------------------------- entry points
def check_results(ctx, items, results):
    """spec -> code comparisons; returns (traces, meta)"""
    traces, meta = [], {}
    free = {}
    for (spec, conf, _), out in zip(items, results):
        if not spec["sched"]:
            free[group_key(spec)] = out
    for n, ((spec, conf, _), out) in enumerate(zip(items, results)):
        tid = "job-%d" % n
        case = dict(type="job", spec=spec, conf=dict((k, v) for k, v in conf.items() if k != "data_dir"))
        ncr = len(spec["sched"])
        ctx.case(key=(group_key(spec), spec["sched"]), nontrivial=ncr > 0,
                 sample=dict(params=spec["p"], keep_last_and_best_only=spec["keep"], val_metrics=spec["M"],
                             batches_per_epoch=spec["nb"], crashes=spec["sched"], epochs_recorded=len(spec["rows"]),
                             events=len(out["events"])) if (n % 977 == 5 and ncr == 2) else None)
        if out["failed"]:
            if out.get("known_c16"):
                ctx.count("informational_known_c16_window")
                continue
            ctx.violation(dict(site=SITE, kind="restart_load_failed" if out["events"] and out["events"][-1]["op"] == "start_failed"
                               else "exception"),
                          "the job failed: %s (crashes %r, params %r, keep_last_and_best_only=%s, metrics %r)" % (
                              out["failed"], spec["sched"], spec["p"], spec["keep"], spec["M"]), case)
            continue
        traces.append(TL.trace_of(tid, spec, conf, out["events"]))
        meta[tid] = case
        # the recorded history is the behaviour's history
        want = [_tc.row_as_csv(r, entries=False) for r in spec["rows"]]
        got = out["rows"]
        if got is None or [g["epoch"] for g in got] != [w["epoch"] for w in want]:
            ctx.violation(dict(site=SITE, kind="history_epochs"),
                          "the job recorded epochs %r, the specification's behaviour %r (crashes %r)" % (
                              None if got is None else [g["epoch"] for g in got], [w["epoch"] for w in want], spec["sched"]), case)
        else:
            for g, w in zip(got, want):
                diff = [k for k in ("lr", "train_met", "val_met", "es_patience_cd", "es_resume_cd", "rlr_patience_cd", "rlr_resume_cd")
                        if abs(g[k] - w[k]) > 1e-12 * max(1.0, abs(w[k]))]
                if diff:
                    ctx.violation(dict(site=SITE, kind="history_row"),
                                  "epoch %d recorded %r, the specification's behaviour says %r (crashes %r)" % (
                                      w["epoch"], dict((k, g[k]) for k in diff), dict((k, w[k]) for k in diff), spec["sched"]), case)
                    break
        if out.get("best") != spec["best"]:
            ctx.violation(dict(site=SITE, kind="best_epoch"), "get_best_epoch()=%r at the end of the job, the specification says %r"
                          % (out.get("best"), spec["best"]), case)
        if out["unreached"]:
            ctx.violation(dict(site=SITE, kind="crash_point_not_reached"),
                          "the job ended without reaching the crash point(s) %r of the behaviour (crashes %r)" % (
                              out["unreached"], spec["sched"]), case)
        # same files, history and weights as the uninterrupted run of the same job
        f = free.get(group_key(spec))
        if f is not None and f is not out and not f["failed"]:
            if out["csv"] != f["csv"]:
                ctx.violation(dict(site=SITE, kind="history_differs_from_uninterrupted"),
                              "history file after crashes %r differs from the uninterrupted job's" % (spec["sched"],),
                              dict(case, uninterrupted=f["csv"], restarted=out["csv"]))
            if (out.get("final_w"), out.get("best_w")) != (f.get("final_w"), f.get("best_w")):
                ctx.violation(dict(site=SITE, kind="weights_differ_from_uninterrupted"),
                              "last/best checkpoint weights %r after crashes %r, uninterrupted job %r" % (
                                  (out.get("final_w"), out.get("best_w")), spec["sched"], (f.get("final_w"), f.get("best_w"))), case)
            if not set(f["files"]) <= set(out["files"]):
                ctx.violation(dict(site=SITE, kind="checkpoint_missing"),
                              "checkpoints %r after crashes %r; the uninterrupted job keeps %r" % (out["files"], spec["sched"], f["files"]), case)
            elif out["files"] != f["files"]:
                ctx.count("informational_stale_checkpoints_left_after_crash")
    return traces, meta


def run(ctx):
    ctx.rule = ("every behaviour of TrainLoop (see tlc_runs: parameters x keep mode x metric history over 2 levels x batches per "
                "epoch x every placement of <= 2 crashes between epochs / after any batch / after any file-system call of "
                "update_for_epoch, <= 1 inside update_for_epoch) replayed as a real job (quick: every uninterrupted and "
                "single-crash behaviour, a seeded half of the two-crash ones); each replay is one trace validated by "
                "TrainLoopTrace; non-trivial = at least one crash; distinct by (parameters, keep mode, history, batches, crashes)")
    ctx.assumptions += [
        "a crash discards every Python object (torch's generator is re-seeded with an unrelated value per process image); "
        "inside update_for_epoch it is a BaseException raised right after / before a file-system mutating call (FsInterposer)",
        "default checkpoint name formats (with the epoch field); at most one crash inside update_for_epoch per job (the epoch-less "
        "formats and the two-crash window of keep-everything are the recorded findings of C16, outside this check)",
        "loader: SpectDataLoader(shuffle=True, seed given, batch_size 2, no length buckets, num_workers 0, single process); "
        "params.seed set; a re-run epoch measures the same metrics",
        "this check is not tied to a listed property (extra coverage)"]
    recs = run_design(ctx)
    ctx.extra["behaviours_exported"] = len(recs)
    ctx.exhaustive = not ctx.quick
    if ctx.quick:
        two = [r for r in recs if len(r["sched"]) == 2]
        keep = set(id(r) for r in ctx.rng.sample(two, len(two) // 2))
        recs = [r for r in recs if len(r["sched"]) < 2 or id(r) in keep]
        ctx.extra["replayed_fraction_of_two_crash_behaviours"] = 0.5
    base = ctx.subdir("jobs")
    dirs = TL.DataDirs(ctx.subdir("data"))
    items = [(spec, conf_for(ctx.seed, spec, dirs), base) for spec in recs]
    results = par.pmap(TL.run_job, items)
    traces, meta = check_results(ctx, items, results)
    ctx.count("events_validated", sum(len(t["events"]) for t in traces))
    ctx.count("process_images", sum(len(s["sched"]) + 1 for s, _, _ in items))
    if traces:
        accepted = validate(ctx, traces, meta, "TrainLoopTrace")
        reshuffled(ctx, accepted, meta)
    if not ctx.violations:
        selftest(ctx, dict(("job-%d" % n, it) for n, it in enumerate(items)), traces, dirs)


def replay(ctx, case):
    spec, conf = case["spec"], dict(case["conf"])
    dirs = TL.DataDirs(ctx.subdir("data"))
    conf["data_dir"] = dirs.get(conf["n"])
    item = (spec, conf, ctx.subdir("jobs"))
    out = TL.run_job(item)
    print("replayed the job: %d events, %d crash(es), failed=%r" % (len(out["events"]), len(spec["sched"]), out["failed"]))
    traces, meta = check_results(ctx, [item], [out])
    if traces:
        validate(ctx, traces, meta, "TrainLoopTrace/replay")


if __name__ == "__main__":
    sys.exit(main(PROP, "model_checking", run, replay))
