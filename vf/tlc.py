"""Run TLC and read back what it did: totals, per-action coverage, exported JSON records.

Export convention: a spec prints records with

    Emit(rec) == PrintT(<<"VFJ", ToJson(rec)>>)

from an INVARIANT (evaluated on every distinct state, initial states included) in a config
that is run with ``-workers 1``.  ``TLCResult.records`` holds the decoded records.
"""
import json
import os
import re
import shutil
import subprocess
import tempfile
import time

JAR = "/opt/veriftools/tla/tla2tools.jar"
DEPS = "/opt/veriftools/tla/CommunityModules-deps.jar"


class TLCFailure(Exception):
    """TLC could not be run / crashed / timed out (machinery failure, exit 2)."""


class TLCResult:
    def __init__(self):
        self.stdout = ""
        self.generated = 0
        self.distinct = 0
        self.depth = 0
        self.coverage = {}  # action name -> (distinct, generated)
        self.records = []
        self.ok = False  # finished without reporting an error
        self.error = None  # text of the first TLC error (invariant violation, ...)
        self.wall_s = 0.0
        self.cmd = ""

    def as_dict(self):
        return dict(
            generated=self.generated,
            distinct=self.distinct,
            depth=self.depth,
            coverage={k: list(v) for k, v in self.coverage.items()},
            ok=self.ok,
            wall_s=round(self.wall_s, 2),
            cmd=self.cmd,
        )


_COV = re.compile(r"^<(\w+) line \d+, col \d+ to line \d+, col \d+ of module (\w+)(?: \([\d ]+\))?>: (\d+):(\d+)")
_TOT = re.compile(r"^(\d+) states generated, (\d+) distinct states found")
_DEPTH = re.compile(r"depth of the complete state graph search is (\d+)")
_VFJ_PREFIX = '<<"VFJ", "'


def _decode_vfj(line):
    inner = line[len(_VFJ_PREFIX) : line.rindex('">>')]
    return json.loads(json.loads('"' + inner + '"'))


def write_cfg(path, *, init="Init", next="Next", spec=None, constants=None, invariants=(),
              properties=(), constraints=(), action_constraints=(), postcondition=None,
              view=None, deadlock=False, symmetry=None):
    """Write a TLC config.  constants: dict name -> literal text (e.g. '3', '{1,2}', 'TRUE')
    or ('<-', 'DefName') for a substitution."""
    lines = []
    if spec:
        lines.append("SPECIFICATION %s" % spec)
    else:
        lines.append("INIT %s" % init)
        lines.append("NEXT %s" % next)
    if constants:
        lines.append("CONSTANTS")
        for k, v in constants.items():
            if isinstance(v, tuple) and v[0] == "<-":
                lines.append("  %s <- %s" % (k, v[1]))
            else:
                lines.append("  %s = %s" % (k, v))
    for i in invariants:
        lines.append("INVARIANT %s" % i)
    for p in properties:
        lines.append("PROPERTY %s" % p)
    for c in constraints:
        lines.append("CONSTRAINT %s" % c)
    for c in action_constraints:
        lines.append("ACTION_CONSTRAINT %s" % c)
    if postcondition:
        lines.append("POSTCONDITION %s" % postcondition)
    if view:
        lines.append("VIEW %s" % view)
    if symmetry:
        lines.append("SYMMETRY %s" % symmetry)
    lines.append("CHECK_DEADLOCK %s" % ("TRUE" if deadlock else "FALSE"))
    with open(path, "w") as f:
        f.write("\n".join(lines) + "\n")
    return path


try:
    import ctypes

    _LIBC = ctypes.CDLL("libc.so.6", use_errno=True)
except Exception:  # pragma: no cover
    _LIBC = None


def _die_with_parent():
    """child side of fork: have the kernel kill TLC when the check that started it dies (no orphan model checkers)"""
    if _LIBC is not None:
        try:
            _LIBC.prctl(1, 9)  # PR_SET_PDEATHSIG, SIGKILL
        except Exception:
            pass


def run(module, cfg, *, workers=16, timeout=900, coverage=True, simulate=None, depth=None,
        seed=None, env=None, extra=(), heap="8g", keep_stdout=True, on_record=None,
        dfs=False, lib=None):
    """Run TLC on `module` (path to .tla) with config `cfg` (path).

    simulate: None, or a string like 'num=1000' (adds -simulate num=1000).
    on_record: optional callback(record) used instead of collecting records in memory.
    Raises TLCFailure on timeout / crash / parse errors; an invariant or property violation is
    *not* a failure: result.ok is False and result.error holds TLC's message.
    """
    module = os.path.abspath(module)
    cfg = os.path.abspath(cfg)
    moddir = os.path.dirname(module)
    meta = tempfile.mkdtemp(prefix="vf_tlc_")
    jopts = ["-XX:+UseParallelGC", "-Xmx" + heap, "-Xss64m"]
    if dfs:
        jopts.append("-Dtlc2.tool.queue.IStateQueue=StateDeque")
    if lib:
        jopts.append("-DTLA-Library=" + os.path.abspath(lib))
    cmd = ["java"] + jopts + ["-cp", JAR + ":" + DEPS, "tlc2.TLC", "-workers", str(workers),
                                "-metadir", meta, "-noGenerateSpecTE"]
    if coverage and not simulate:
        cmd += ["-coverage", "1"]
    if simulate:
        cmd += ["-simulate", simulate]
    if depth is not None:
        cmd += ["-depth", str(depth)]
    if seed is not None:
        cmd += ["-seed", str(seed)]
    cmd += list(extra)
    cmd += ["-config", cfg, module]
    res = TLCResult()
    res.cmd = " ".join(cmd)
    e = dict(os.environ)
    e.pop("JAVA_TOOL_OPTIONS", None)
    if env:
        e.update({k: str(v) for k, v in env.items()})
    t0 = time.time()
    out_lines = []
    err_lines = []
    try:
        proc = subprocess.Popen(cmd, cwd=moddir, env=e, stdout=subprocess.PIPE,
                                stderr=subprocess.STDOUT, text=True, bufsize=1 << 20, preexec_fn=_die_with_parent)
        import threading

        def killer():
            try:
                proc.kill()
            except Exception:
                pass

        timer = threading.Timer(timeout, killer)
        timer.start()
        in_error = False
        try:
            for line in proc.stdout:
                line = line.rstrip("\n")
                if line.startswith(_VFJ_PREFIX):
                    try:
                        rec = _decode_vfj(line)
                    except Exception as ex:  # pragma: no cover
                        raise TLCFailure("cannot decode exported record: %r (%s)" % (line[:200], ex))
                    if on_record is not None:
                        on_record(rec)
                    else:
                        res.records.append(rec)
                    continue
                if keep_stdout:
                    out_lines.append(line)
                m = _TOT.match(line)
                if m:
                    res.generated, res.distinct = int(m.group(1)), int(m.group(2))
                    continue
                m = _DEPTH.search(line)
                if m:
                    res.depth = int(m.group(1))
                    continue
                m = _COV.match(line)
                if m:
                    name = m.group(1)
                    d, g = int(m.group(3)), int(m.group(4))
                    od, og = res.coverage.get(name, (0, 0))
                    res.coverage[name] = (od + d, og + g)
                    continue
                if line.startswith("Error:") or "is violated" in line or "Exception" in line:
                    err_lines.append(line)
        finally:
            timer.cancel()
        rc = proc.wait()
    finally:
        shutil.rmtree(meta, ignore_errors=True)
    res.wall_s = time.time() - t0
    res.stdout = "\n".join(out_lines)
    if rc in (-9, 137):
        raise TLCFailure("TLC timed out or was killed after %.0fs: %s" % (res.wall_s, res.cmd))
    if simulate and res.generated == 0:
        m = re.search(r"(\d+) states checked", res.stdout)
        if m:
            res.generated = int(m.group(1))
    if rc == 0 and not err_lines:
        res.ok = True
        return res
    # 12 = safety violation, 13 = liveness violation, 11 = deadlock, 10 = assumption failure
    res.error = "\n".join(err_lines) or ("TLC exit code %d" % rc)
    if rc in (10, 11, 12, 13):
        return res
    raise TLCFailure("TLC failed (exit %d): %s\n%s" % (rc, res.cmd, "\n".join(out_lines[-40:])))


def require_ok(res, what):
    if not res.ok:
        raise TLCFailure("design check failed for %s: %s\n%s" % (what, res.error, res.stdout[-3000:]))
    return res


def require_covered(res, actions, what):
    """Vacuity guard: every named action must have been taken at least once."""
    missing = [a for a in actions if res.coverage.get(a, (0, 0))[1] == 0]
    if missing:
        raise TLCFailure("vacuous model for %s: actions never taken: %s" % (what, missing))
