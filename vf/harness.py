"""Common entry point for property drivers: tiers, seeds, violations, known findings, evidence."""
import argparse
import hashlib
import json
import os
import random
import shutil
import sys
import tempfile
import time
import traceback

from . import EVIDENCE, FINDINGS, REPLAYS, ROOT
from .tlc import TLCFailure

LEVELS = ("exploration", "fault_enumeration", "model_checking", "proof", "translation_validation", "other")


class MachineryError(Exception):
    """Something in /verif is broken (exit 2); never a finding about the code."""


def _jsonable(x):
    try:
        import torch

        if isinstance(x, torch.Tensor):
            return x.tolist()
    except Exception:
        pass
    if isinstance(x, (set, frozenset)):
        return sorted(_jsonable(v) for v in x)
    if isinstance(x, tuple):
        return [_jsonable(v) for v in x]
    if isinstance(x, list):
        return [_jsonable(v) for v in x]
    if isinstance(x, dict):
        return {str(k): _jsonable(v) for k, v in x.items()}
    if isinstance(x, float):
        if x != x:
            return "NaN"
        if x in (float("inf"), float("-inf")):
            return "inf" if x > 0 else "-inf"
        return x
    if isinstance(x, (int, str, bool)) or x is None:
        return x
    return repr(x)


class Context:
    def __init__(self, prop, tier, seed, level):
        self.prop = prop
        self.tier = tier
        self.seed = seed
        self.level = level
        self.rng = random.Random(seed)
        self.workdir = tempfile.mkdtemp(prefix="vf_%s_" % prop)
        self.t0 = time.time()
        self.evaluations = 0
        self._nontrivial = set()
        self.samples = []
        self.max_samples = 6
        self.violations = []  # (sig, detail, case)
        self.known_hits = {}  # finding id -> count
        self.tlc_runs = []
        self.states = 0
        self.transitions = 0
        self.traces = 0
        self.assumptions = []
        self.extra = {}
        self.rule = ""
        self.exhaustive = False
        self.counters = {}
        self._known = _load_known(prop)
        self.max_violation_files = 10

    # ---- bookkeeping
    @property
    def quick(self):
        return self.tier == "quick"

    def count(self, name, n=1):
        self.counters[name] = self.counters.get(name, 0) + n

    def case(self, key=None, nontrivial=False, sample=None, n=1):
        """Register `n` evaluated cases.  key: hashable/JSON-able identity used for the
        distinct-nontrivial count (only when nontrivial)."""
        self.evaluations += n
        if nontrivial and key is not None:
            h = hashlib.blake2b(json.dumps(_jsonable(key), sort_keys=True).encode(), digest_size=8).digest()
            self._nontrivial.add(h)
        if sample is not None and len(self.samples) < self.max_samples:
            self.samples.append(_jsonable(sample))

    def add_tlc(self, name, res, count_states=True):
        d = res.as_dict()
        d["name"] = name
        self.tlc_runs.append(d)
        if count_states:
            self.states += res.distinct
            self.transitions += res.generated

    def subdir(self, name):
        p = os.path.join(self.workdir, name)
        os.makedirs(p, exist_ok=True)
        return p

    # ---- verdicts
    def violation(self, sig, detail, case=None):
        """Report a failed clause.  sig: dict with at least 'site' and 'kind' (used for the
        known-findings match); detail: human text; case: JSON-able reproduction."""
        sig = dict(sig)
        for f in self._known:
            want = f.get("signature", {})
            if all(sig.get(k) == v for k, v in want.items()):
                self.known_hits[f["id"]] = self.known_hits.get(f["id"], 0) + 1
                return "known"
        self.violations.append((sig, detail, _jsonable(case)))
        return "violation"

    def check(self, cond, sig, detail, case=None):
        if not cond:
            self.violation(sig, detail() if callable(detail) else detail, case)
        return cond

    # ---- finish
    def coverage(self):
        cov = dict(
            evaluations=self.evaluations,
            distinct_nontrivial=len(self._nontrivial),
            rule=self.rule,
            samples=self.samples,
            states=self.states,
            transitions=self.transitions,
            traces_validated_against_impl=self.traces,
            exhaustive=self.exhaustive,
            tlc_runs=self.tlc_runs,
            counters=self.counters,
            known_findings_hit=self.known_hits,
        )
        cov.update(self.extra)
        return cov


def _load_known(prop):
    if not os.path.exists(FINDINGS):
        return []
    with open(FINDINGS) as f:
        data = json.load(f)
    return [k for k in data.get("known", []) if k["property"] == prop]


def _scratch():
    """runs against another copy of the sources (VF_REPO_SRC: hand mutants, seeded changes) must not touch the
    evidence / replay files of /verif, which describe runs against /repo itself"""
    return bool(os.environ.get("VF_REPO_SRC"))


def _write_evidence(ctx, nviol):
    evdir = os.path.join(tempfile.gettempdir(), "vf_scratch_evidence") if _scratch() else EVIDENCE
    os.makedirs(evdir, exist_ok=True)
    ev = dict(
        property_id=ctx.prop,
        tier=ctx.tier,
        seed=ctx.seed,
        level=ctx.level,
        coverage=ctx.coverage(),
        assumptions=ctx.assumptions,
        wall_s=round(time.time() - ctx.t0, 2),
        violations=nviol,
    )
    path = os.path.join(evdir, ctx.prop + ".json")
    tmp = path + ".tmp"
    with open(tmp, "w") as f:
        json.dump(ev, f, indent=1, sort_keys=True)
        f.write("\n")
    os.replace(tmp, path)
    return path


def main(prop, level, run, replay=None, argv=None):
    """run(ctx) explores; replay(ctx, case) re-runs one stored case (optional)."""
    ap = argparse.ArgumentParser(prog="check " + prop)
    ap.add_argument("tier", nargs="?", default=os.environ.get("VERIF_TIER", "quick"),
                    choices=["quick", "thorough"])
    ap.add_argument("--replay", default=None)
    ap.add_argument("--seed", type=int, default=None)
    args = ap.parse_args(argv)
    seed = args.seed if args.seed is not None else int(os.environ.get("VERIF_SEED", "0") or 0)
    assert level in LEVELS
    ctx = Context(prop, args.tier, seed, level)
    rc = 0
    try:
        try:
            if args.replay:
                if replay is None:
                    raise MachineryError("no replay function for %s" % prop)
                with open(args.replay) as f:
                    stored = json.load(f)
                replay(ctx, stored["case"])
            else:
                run(ctx)
        except (TLCFailure, MachineryError) as ex:
            print("MACHINERY-FAILURE property=%s %s" % (prop, ex), file=sys.stderr)
            traceback.print_exc()
            return 2
        except Exception as ex:  # a bug in the driver is not a finding
            print("MACHINERY-FAILURE property=%s unexpected %s: %s" % (prop, type(ex).__name__, ex), file=sys.stderr)
            traceback.print_exc()
            return 2
        # known findings
        known_by_id = {k["id"]: k for k in ctx._known}
        for fid, n in sorted(ctx.known_hits.items()):
            print("KNOWN-FINDING: property=%s %s [%s; %d occurrence(s) this run]" % (
                prop, known_by_id[fid]["what"], fid, n))
        # violations
        if ctx.violations:
            rc = 1
            replays = os.path.join(tempfile.gettempdir(), "vf_scratch_replays") if _scratch() else REPLAYS
            os.makedirs(replays, exist_ok=True)
            seen = set()
            written = 0
            for sig, detail, case in ctx.violations:
                key = (sig.get("site"), sig.get("kind"))
                if key in seen and written >= 1:
                    continue
                seen.add(key)
                if written >= ctx.max_violation_files:
                    break
                name = "%s-%s-%s-%d.json" % (prop, str(sig.get("site", "x")).replace("/", "_").replace(" ", "_")[:40],
                                             str(sig.get("kind", "x")).replace(" ", "_")[:40], written)
                path = os.path.join(replays, name)
                with open(path, "w") as f:
                    json.dump(dict(property=prop, signature=_jsonable(sig), detail=detail, case=case,
                                   tier=ctx.tier, seed=ctx.seed), f, indent=1, sort_keys=True)
                print("VIOLATION property=%s replay=%s" % (prop, path))
                print("  %s: %s" % (json.dumps(_jsonable(sig), sort_keys=True), str(detail)[:600]))
                written += 1
            tally = {}
            for sg, _, _ in ctx.violations:
                kk = json.dumps(_jsonable(sg), sort_keys=True)
                tally[kk] = tally.get(kk, 0) + 1
            for kk, n in sorted(tally.items(), key=lambda x: -x[1])[:25]:
                print("  signature x%d: %s" % (n, kk))
            print("  (%d violating case(s) in total, %d distinct site/kind)" % (
                len(ctx.violations), len({(s.get("site"), s.get("kind")) for s, _, _ in ctx.violations})))
        if not args.replay:
            if ctx.evaluations < 1 or len(ctx._nontrivial) < 2:
                print("MACHINERY-FAILURE property=%s explored too little (evaluations=%d, nontrivial=%d)" % (
                    prop, ctx.evaluations, len(ctx._nontrivial)), file=sys.stderr)
                return 2
            p = _write_evidence(ctx, len(ctx.violations))
            print("%s %s: %s  evaluations=%d nontrivial=%d states=%d traces=%d wall=%.1fs evidence=%s" % (
                prop, ctx.tier, "VIOLATED" if rc else "ok", ctx.evaluations, len(ctx._nontrivial),
                ctx.states, ctx.traces, time.time() - ctx.t0, p))
        else:
            print("%s replay: %s" % (prop, "VIOLATED" if rc else "ok"))
        return rc
    finally:
        shutil.rmtree(ctx.workdir, ignore_errors=True)
