"""Run Apalache (symbolic model checker for TLA+) on small integer specifications: inductive invariants for
UNBOUNDED parameters that TLC can only sample (`--init=IndInit --inv=IndInv --length=1`).

A failure to run (not installed, time-out, crash) is a machinery failure; `ok` is True iff Apalache reports
"no error", False iff it reports a violated invariant."""
import os
import re
import shutil
import subprocess
import tempfile
import time

from .harness import MachineryError

APALACHE = shutil.which("apalache-mc") or "/opt/veriftools/apalache/bin/apalache-mc"


class ApalacheResult:
    def __init__(self, ok, wall_s, cmd, tail):
        self.ok, self.wall_s, self.cmd, self.tail = ok, wall_s, cmd, tail

    def as_dict(self):
        return dict(ok=self.ok, wall_s=round(self.wall_s, 2), cmd=self.cmd, engine="apalache")


def check(module, *, init, inv, length, next_="Next", timeout=600):
    """apalache-mc check --init=<init> --next=<next_> --inv=<inv> --length=<length> <module>"""
    out = tempfile.mkdtemp(prefix="vf_apa_")
    cmd = [APALACHE, "check", "--init=" + init, "--next=" + next_, "--inv=" + inv, "--length=%d" % length,
           "--out-dir=" + out, os.path.abspath(module)]
    t0 = time.time()
    try:
        p = subprocess.run(cmd, cwd=os.path.dirname(os.path.abspath(module)), stdout=subprocess.PIPE,
                           stderr=subprocess.STDOUT, text=True, timeout=timeout)
    except subprocess.TimeoutExpired:
        raise MachineryError("apalache timed out after %ds: %s" % (timeout, " ".join(cmd)))
    except OSError as ex:
        raise MachineryError("apalache could not be run: %s" % ex)
    finally:
        shutil.rmtree(out, ignore_errors=True)
    tail = "\n".join(p.stdout.splitlines()[-12:])
    m = re.search(r"EXITCODE: (\w+)", p.stdout)
    if m and m.group(1) == "OK" and "no error" in p.stdout:
        return ApalacheResult(True, time.time() - t0, " ".join(cmd), tail)
    if m and m.group(1) == "ERROR" and "invariant" in p.stdout and "violated" in p.stdout:
        return ApalacheResult(False, time.time() - t0, " ".join(cmd), tail)
    raise MachineryError("apalache failed: %s\n%s" % (" ".join(cmd), tail))
