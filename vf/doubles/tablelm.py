"""TableLM -- a sequential language model double whose scores depend on the WHOLE history through
state threaded in `prev` (never recomputed from `hist`).

prev = {'elem': (N,) id of the batch element / table, 'code': (N,) integer code of the path so far,
        'len': (N,) number of tokens folded into 'code'}
tables[elem][code] -> list of V positive weights (unnormalised; log_softmax is NOT applied, the
caller chooses weights that sum to D and reads probabilities as w/D).  Unknown codes get uniform
weights.  If a search mis-routes state (extract_by_src / mix_by_mask / missing batch offset), the
scores it obtains are those of another path and chained-score checks fail.
"""
import torch

from pydrobert.torch.modules import (
    ExtractableSequentialLanguageModel,
    MixableSequentialLanguageModel,
)


def code_of(path, V):
    c = 0
    for t in path:
        c = c * (V + 1) + int(t) + 1
    return c


class TableLM(MixableSequentialLanguageModel):
    def __init__(self, V, tables, D=None, dtype=torch.double, strict=False, inplace=False):
        """strict: never look at more of `hist` than the single token at idx - 1; the threaded state is
        trusted to describe everything before it (as a recurrent model would).  A stale or mis-routed
        state then yields the scores of a different path."""
        super().__init__(V)
        self.strict = strict
        # inplace: the model writes its recurrent state INTO the dictionary it was handed (and returns that same
        # dictionary), as a model caching hidden state may do; callers must therefore never share one state
        # dictionary between independent searches / draws
        self.inplace = inplace
        self.tables = tables
        self.D = D
        self.dtype = dtype
        self.calls = 0

    def update_input(self, prev, hist):
        if "code" in prev:
            return prev
        N = hist.size(1)
        elem = prev.get("elem", torch.zeros(N, dtype=torch.long))
        if elem.numel() == 1 and N != 1:
            elem = elem.reshape(1).expand(N)  # an unbatched initial state conditions every sample alike
        new = {
            "elem": elem,
            "code": torch.zeros(N, dtype=torch.long),
            "len": torch.zeros(N, dtype=torch.long),
        }
        if self.inplace:
            prev.update(new)
            return prev
        return new

    def calc_idx_log_probs(self, hist, prev, idx):
        self.calls += 1
        N = hist.size(1)
        V = self.vocab_size
        idx = idx.expand(N) if idx.dim() == 0 else idx
        code, ln = prev["code"].clone(), prev["len"].clone()
        for j in range(N):
            i = int(idx[j])
            if self.strict:
                if i > 0:
                    tok = int(hist[i - 1, j]) if i - 1 < hist.size(0) else 0
                    code[j] = code[j] * (V + 1) + min(max(tok, 0), V - 1) + 1
                    ln[j] += 1
                continue
            # fold in the tokens between the threaded length and idx (normally exactly one)
            while int(ln[j]) < i:
                code[j] = code[j] * (V + 1) + int(hist[int(ln[j]), j]) + 1
                ln[j] += 1
        out = torch.empty(N, V, dtype=self.dtype)
        for j in range(N):
            tab = self.tables[int(prev["elem"][j])]
            w = tab.get(int(code[j]))
            if w is None:
                w = [1.0] * V
            out[j] = torch.tensor(w, dtype=self.dtype).log()
            if self.D is not None:
                out[j] -= torch.tensor(float(self.D), dtype=self.dtype).log()
        if self.inplace:
            prev["code"], prev["len"] = code, ln
            return out, prev
        return out, {"elem": prev["elem"], "code": code, "len": ln}

    def extract_by_src(self, prev, src):
        return {k: v.index_select(0, src) for k, v in prev.items()}

    def mix_by_mask(self, prev_true, prev_false, mask):
        return {k: torch.where(mask, prev_true[k], prev_false[k]) for k in prev_true}
