"""TableLM -- a sequential language model double whose scores depend on the WHOLE history through
state threaded in `prev` (never recomputed from `hist`).

prev = {'elem': (N,) id of the batch element / table, 'code': (N,) integer code of the path so far,
        'len': (N,) number of tokens folded into 'code'}
tables[elem][code] -> list of V positive weights (unnormalised; log_softmax is NOT applied, the
caller chooses weights that sum to D and reads probabilities as w/D).  Unknown codes get uniform
weights.  If a search mis-routes state (extract_by_src / mix_by_mask / missing batch offset), the
scores it obtains are those of another path and chained-score checks fail.
"""
import torch

from pydrobert.torch.modules import (
    ExtractableSequentialLanguageModel,
    MixableSequentialLanguageModel,
)


def code_of(path, V):
    c = 0
    for t in path:
        c = c * (V + 1) + int(t) + 1
    return c


class TableLM(MixableSequentialLanguageModel):
    def __init__(self, V, tables, D=None, dtype=torch.double, strict=False, inplace=False, after_eos=None,
                 keep_idx=False):
        """strict: never look at more of `hist` than the single token at idx - 1; the threaded state is
        trusted to describe everything before it (as a recurrent model would).  A stale or mis-routed
        state then yields the scores of a different path."""
        super().__init__(V)
        self.strict = strict
        # inplace: the model writes its recurrent state INTO the dictionary it was handed (and returns that same
        # dictionary), as a model caching hidden state may do; callers must therefore never share one state
        # dictionary between independent searches / draws
        self.inplace = inplace
        # after_eos = (eos id, mode): what the model predicts AFTER a path has emitted eos is its own business -- a search
        # must not depend on it.  mode "zero_eos": the eos entry is -inf (the model never predicts eos twice);
        # "dead": the whole row is -inf; "nan": the whole row is NaN
        self.after_eos = after_eos
        # keep_idx: the model keeps the very `idx` tensor it was handed in its state (a recurrent model may) and derives
        # its position from it at the next step; if that stored tensor was changed behind its back (or a stale state is
        # handed in) the position is off and the scores are those of another context (the row rotated by one)
        self.keep_idx = keep_idx
        self.tables = tables
        self.D = D
        self.dtype = dtype
        self.calls = 0

    def update_input(self, prev, hist):
        if "code" in prev:
            return prev
        N = hist.size(1)
        elem = prev.get("elem", torch.zeros(N, dtype=torch.long))
        if elem.numel() == 1 and N != 1:
            elem = elem.reshape(1).expand(N)  # an unbatched initial state conditions every sample alike
        new = {
            "elem": elem,
            "code": torch.zeros(N, dtype=torch.long),
            "len": torch.zeros(N, dtype=torch.long),
        }
        if self.after_eos is not None:
            new["fin"] = torch.zeros(N, dtype=torch.bool)
        if self.inplace:
            prev.update(new)
            return prev
        return new

    def calc_idx_log_probs(self, hist, prev, idx):
        self.calls += 1
        N = hist.size(1)
        V = self.vocab_size
        idx_arg = idx
        idx = idx.expand(N) if idx.dim() == 0 else idx
        code, ln = prev["code"].clone(), prev["len"].clone()
        fin = prev["fin"].clone() if "fin" in prev else None
        off = False
        if self.keep_idx and "last_idx" in prev:
            off = bool((prev["last_idx"].reshape(-1) + 1 != idx_arg.reshape(-1)).any())
        for j in range(N):
            i = int(idx[j])
            if self.strict:
                if i > 0:
                    tok = int(hist[i - 1, j]) if i - 1 < hist.size(0) else 0
                    code[j] = code[j] * (V + 1) + min(max(tok, 0), V - 1) + 1
                    ln[j] += 1
                    if fin is not None and tok == self.after_eos[0]:
                        fin[j] = True
                continue
            # fold in the tokens between the threaded length and idx (normally exactly one)
            while int(ln[j]) < i:
                code[j] = code[j] * (V + 1) + int(hist[int(ln[j]), j]) + 1
                ln[j] += 1
        out = torch.empty(N, V, dtype=self.dtype)
        for j in range(N):
            tab = self.tables[int(prev["elem"][j])]
            w = tab.get(int(code[j]))
            if w is None:
                w = [1.0] * V
            out[j] = torch.tensor(w, dtype=self.dtype).log()
            if self.D is not None:
                out[j] -= torch.tensor(float(self.D), dtype=self.dtype).log()
            if fin is not None and bool(fin[j]):
                mode = self.after_eos[1]
                if mode == "zero_eos":
                    out[j, self.after_eos[0]] = -float("inf")
                elif mode == "dead":
                    out[j] = -float("inf")
                else:
                    out[j] = float("nan")
        if off:
            out = out.roll(1, 1)
        extra = {}
        if fin is not None:
            extra["fin"] = fin
        if self.keep_idx:
            extra["last_idx"] = idx_arg  # the tensor itself, not a copy
        if self.inplace:
            prev["code"], prev["len"] = code, ln
            prev.update(extra)
            return out, prev
        return out, dict({"elem": prev["elem"], "code": code, "len": ln}, **extra)

    def extract_by_src(self, prev, src):
        return {k: (v if v.dim() == 0 else v.index_select(0, src)) for k, v in prev.items()}

    def mix_by_mask(self, prev_true, prev_false, mask):
        return {k: (prev_true[k] if prev_true[k].dim() == 0 else torch.where(mask, prev_true[k], prev_false[k]))
                for k in prev_true}
