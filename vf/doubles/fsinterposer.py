"""FsInterposer -- observe (and optionally kill) pydrobert.torch.training at every file-system
mutating call: os.makedirs, tempfile.NamedTemporaryFile, torch.save, os.replace, append-mode
open (effect = the close), os.remove.

Every call gets a sequence number.  Events are recorded AFTER the effect.  With
crash_at=(k, "before"|"after") a `Crash` (BaseException, so no `except OSError`/`except Exception`
can swallow it) is raised immediately before / after the k-th call's effect, which models the
process dying there: nothing after it runs, files stay as they are.
"""
import builtins
import os
import tempfile

import torch


class Crash(BaseException):
    pass


class _AppendProxy:
    def __init__(self, real, interposer, path):
        self._real = real
        self._ip = interposer
        self._path = path

    def __getattr__(self, name):
        return getattr(self._real, name)

    def write(self, s):
        return self._real.write(s)

    def __enter__(self):
        return self

    def __exit__(self, *exc):
        self.close()
        return False

    def close(self):
        if not self._real.closed:
            self._real.close()
            self._ip._after("append", dict(path=self._ip.abstract(self._path)))


class FsInterposer:
    def __init__(self, namer, crash_at=None, observer=None, reads=False):
        """namer(path) -> JSON-able abstract name; observer(event) is called after every recorded event;
        reads=True also records torch.load and read-mode opens (not numbered as crash points)"""
        self.namer = namer
        self.crash_at = crash_at
        self.observer = observer
        self.reads = reads
        self.k = 0
        self.events = []
        self.crashed = False
        self._saved = {}

    def abstract(self, path):
        return self.namer(path)

    # -- call protocol
    def _before(self, what):
        self.k += 1
        if self.crash_at == (self.k, "before"):
            self.crashed = True
            raise Crash("before #%d %s" % (self.k, what))

    def _after(self, what, info):
        ev = dict(k=self.k, op=what)
        ev.update(info)
        self.events.append(ev)
        if self.observer is not None:
            self.observer(ev)
        if self.crash_at == (self.k, "after"):
            self.crashed = True
            raise Crash("after #%d %s" % (self.k, what))

    # -- patches
    def __enter__(self):
        import pydrobert.torch.training as tr

        ip = self
        real_replace, real_remove, real_makedirs = os.replace, os.remove, os.makedirs
        real_ntf, real_save, real_open = tempfile.NamedTemporaryFile, torch.save, builtins.open
        real_load = torch.load
        self._saved = dict(replace=real_replace, remove=real_remove, makedirs=real_makedirs, ntf=real_ntf,
                           save=real_save, had_open=hasattr(tr, "open"), open=getattr(tr, "open", None), load=real_load)

        def note_read(what, path):
            ev = dict(k=ip.k, op=what, path=ip.abstract(path))
            ip.events.append(ev)
            if ip.observer is not None:
                ip.observer(ev)

        def load(f, *a, **kw):
            out = real_load(f, *a, **kw)
            if ip.reads:
                note_read("load", getattr(f, "name", f))
            return out

        def replace(src, dst, *a, **kw):
            ip._before("replace")
            real_replace(src, dst, *a, **kw)
            ip._after("replace", dict(src=ip.abstract(src), dst=ip.abstract(dst)))

        def remove(path, *a, **kw):
            ip._before("remove")
            real_remove(path, *a, **kw)
            ip._after("remove", dict(path=ip.abstract(path)))

        def makedirs(path, *a, **kw):
            ip._before("makedirs")
            existed = os.path.isdir(path)
            real_makedirs(path, *a, **kw)
            ip._after("makedirs", dict(created=not existed, raw=str(path)))

        def ntf(*a, **kw):
            ip._before("mktemp")
            f = real_ntf(*a, **kw)
            ip._after("mktemp", dict(path=ip.abstract(f.name)))
            return f

        def save(obj, f, *a, **kw):
            ip._before("write")
            real_save(obj, f, *a, **kw)
            try:
                f.flush()
            except Exception:
                pass
            name = getattr(f, "name", f)
            ip._after("write", dict(path=ip.abstract(name), content=ip.content_of(obj), lr=ip.lr_of(obj)))

        def open_(path, mode="r", *a, **kw):
            if "a" in mode or "w" in mode or "+" in mode:
                ip._before("append")
                return _AppendProxy(real_open(path, mode, *a, **kw), ip, path)
            f = real_open(path, mode, *a, **kw)
            if ip.reads:
                note_read("read", path)
            return f

        os.replace, os.remove, os.makedirs = replace, remove, makedirs
        tempfile.NamedTemporaryFile = ntf
        torch.save = save
        torch.load = load
        tr.open = open_
        return self

    def __exit__(self, *exc):
        import pydrobert.torch.training as tr

        os.replace, os.remove, os.makedirs = self._saved["replace"], self._saved["remove"], self._saved["makedirs"]
        tempfile.NamedTemporaryFile = self._saved["ntf"]
        torch.save = self._saved["save"]
        torch.load = self._saved["load"]
        if self._saved["had_open"]:
            tr.open = self._saved["open"]
        else:
            try:
                del tr.open
            except AttributeError:
                pass
        return False

    @staticmethod
    def lr_of(obj):
        """the learning rate an optimizer state dict carries (None for a model state dict)"""
        try:
            if "param_groups" in obj:
                return float(obj["param_groups"][0]["lr"])
        except Exception:
            pass
        return None

    @staticmethod
    def content_of(obj):
        """which epoch's parameters a state dict holds (the harness sets weight = epoch)"""
        try:
            if "weight" in obj:
                return int(round(float(obj["weight"].flatten()[0])))
            if "param_groups" in obj:
                return int(round(float(obj["param_groups"][0].get("vf_epoch", -1))))
        except Exception:
            pass
        return -1
