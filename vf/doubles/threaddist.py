"""ThreadDist -- run W "ranks" of a torch.distributed program as cooperatively scheduled threads.

Each rank is a Python thread; exactly one thread runs at a time.  A thread gives up control only at
*scheduling points*: the fake collectives below (barrier, all_reduce) and whatever the harness
routes through `point(...)` (file-system calls intercepted by the caller).  The scheduler (the main
thread) then picks which rank runs next according to a policy, so a run is a deterministic,
replayable interleaving -- the unit that the TLA+ trace specification validates.

The fake torch.distributed is installed on the `torch.distributed` module attributes that
pydrobert.torch.training uses at call time:
    is_available, is_initialized, get_rank, get_world_size, get_backend, barrier, all_reduce
`all_reduce(t, op, async_op=True)` returns a handle whose wait() completes the collective.
Collectives are matched by arrival order per rank (the k-th collective of every rank is the same
collective), as torch.distributed requires.
"""
import threading

import torch
import torch.distributed as _dist

_NAMES = ("is_available", "is_initialized", "get_rank", "get_world_size", "get_backend", "barrier", "all_reduce")


class Deadlock(Exception):
    pass


class _Handle:
    def __init__(self, td, rank, tensor, op, idx):
        self.td, self.rank, self.tensor, self.op, self.idx = td, rank, tensor, op, idx

    def wait(self):
        self.td._complete_collective(self.rank, self.idx, self.tensor)


class ThreadDist:
    def __init__(self, world_size, policy, log):
        """policy(runnable_ranks, step_no) -> rank to run next; log(event dict) records an event"""
        self.W = world_size
        self.policy = policy
        self.log = log
        self.local = threading.local()
        self.cv = threading.Condition()
        self.turn = None  # rank allowed to run; None = scheduler's turn
        self.state = ["new"] * world_size  # new | ready | running | blocked | done
        self.blocked_on = [None] * world_size
        self.ncoll = [0] * world_size  # collectives started per rank
        self.coll = {}  # idx -> dict(kind, arrived: {rank: tensor}, done)
        self.errors = [None] * world_size
        self.steps = 0
        self._saved = None

    # ---- rank-side API
    def rank(self):
        return getattr(self.local, "rank", -1)

    def point(self, event):
        """a scheduling point: record the event (already effective) and hand control back"""
        r = self.rank()
        if r < 0:
            return
        ev = dict(event)
        ev["rank"] = r
        self.log(ev)
        self._yield(r, "ready")

    def _yield(self, r, new_state, blocked_on=None):
        with self.cv:
            self.state[r] = new_state
            self.blocked_on[r] = blocked_on
            self.turn = None
            self.cv.notify_all()
            while self.turn != r:
                self.cv.wait()
            self.state[r] = "running"

    def _start_collective(self, r, kind, tensor):
        idx = self.ncoll[r]
        self.ncoll[r] += 1
        c = self.coll.setdefault(idx, dict(kind=kind, arrived={}, done=False))
        if c["kind"] != kind:
            raise RuntimeError("collective mismatch: rank %d calls %s where others call %s" % (r, kind, c["kind"]))
        c["arrived"][r] = tensor
        self.log(dict(rank=r, op=kind + "_enter", idx=idx))
        return idx

    def _complete_collective(self, r, idx, tensor):
        c = self.coll[idx]
        # block until every rank has arrived
        while len(c["arrived"]) < self.W:
            self._yield(r, "blocked", idx)
        if not c["done"]:
            if c["kind"] == "all_reduce":
                tot = sum(t.detach().clone() for t in c["arrived"].values())
                c["result"] = tot
            c["done"] = True
        if c["kind"] == "all_reduce":
            tensor.copy_(c["result"])
        self.log(dict(rank=r, op=c["kind"] + "_exit", idx=idx))
        self._yield(r, "ready")

    # ---- fake torch.distributed
    def _install(self):
        td = self
        self._saved = {n: getattr(_dist, n) for n in _NAMES}
        _dist.is_available = lambda: True
        _dist.is_initialized = lambda: td.rank() >= 0
        _dist.get_rank = lambda group=None: td.rank()
        _dist.get_world_size = lambda group=None: td.W
        _dist.get_backend = lambda group=None: "gloo"

        def barrier(*a, **kw):
            r = td.rank()
            idx = td._start_collective(r, "barrier", None)
            td._complete_collective(r, idx, None)

        def all_reduce(tensor, op=None, group=None, async_op=False):
            r = td.rank()
            idx = td._start_collective(r, "all_reduce", tensor)
            h = _Handle(td, r, tensor, op, idx)
            if async_op:
                return h
            h.wait()
            return None

        _dist.barrier = barrier
        _dist.all_reduce = all_reduce

    def _uninstall(self):
        for n, f in self._saved.items():
            setattr(_dist, n, f)
        self._saved = None

    # ---- scheduler
    def run(self, programs, max_steps=100000):
        """programs[r]() is rank r's program.  Returns when all are done; raises Deadlock if every
        unfinished rank is blocked."""
        assert len(programs) == self.W

        def body(r):
            self.local.rank = r
            with self.cv:
                self.state[r] = "ready"
                self.cv.notify_all()
                while self.turn != r:
                    self.cv.wait()
                self.state[r] = "running"
            try:
                programs[r]()
            except BaseException as ex:  # reported to the scheduler
                self.errors[r] = ex
            with self.cv:
                self.state[r] = "done"
                self.turn = None
                self.cv.notify_all()

        self._install()
        threads = [threading.Thread(target=body, args=(r,), daemon=True) for r in range(self.W)]
        try:
            for t in threads:
                t.start()
            with self.cv:
                while any(s == "new" for s in self.state):
                    self.cv.wait()
            while True:
                with self.cv:
                    while self.turn is not None:
                        self.cv.wait()
                    if all(s == "done" for s in self.state):
                        break
                    runnable = []
                    for r in range(self.W):
                        if self.state[r] == "ready":
                            runnable.append(r)
                        elif self.state[r] == "blocked":
                            c = self.coll[self.blocked_on[r]]
                            if len(c["arrived"]) >= self.W:
                                runnable.append(r)
                    if not runnable:
                        raise Deadlock("ranks %r" % ([(r, self.state[r], self.blocked_on[r]) for r in range(self.W)],))
                    self.steps += 1
                    if self.steps > max_steps:
                        raise Deadlock("step limit")
                    nxt = self.policy(runnable, self.steps)
                    self.turn = nxt
                    self.cv.notify_all()
        finally:
            self._uninstall()
        return self.errors
