"""FakeDist -- make code that asks torch.distributed "who am I" believe it is rank r of W.

pydrobert.torch._dataloaders.AbstractEpochSampler.__init__ queries exactly

    torch.distributed.is_available()
    torch.distributed.is_initialized()
    torch.distributed.get_rank()
    torch.distributed.get_world_size()

through attribute look-ups on the ``torch.distributed`` module at call time, so replacing those
four module attributes is enough (no process group, no sockets).  Nothing else of
torch.distributed is touched; everything is restored on exit.

    with FakeDist(world_size=3) as fd:
        with fd.as_rank(1):
            sampler = EpochRandomSampler(ds, base_seed=5, on_uneven_distributed="uneven")

``calls`` counts the queries per function so a driver can assert the double was actually used
(binding self-test).  ``initialized=False`` / ``available=False`` / ``rank=-1`` model the
non-distributed situations the sampler must treat as "rank 0 of 1".
"""
import contextlib

import torch
import torch.distributed as _dist

_NAMES = ("is_available", "is_initialized", "get_rank", "get_world_size")


class FakeDist:
    def __init__(self, world_size=1, rank=0, available=True, initialized=True):
        self.world_size = int(world_size)
        self.rank = int(rank)
        self.available = bool(available)
        self.initialized = bool(initialized)
        self.calls = dict((n, 0) for n in _NAMES)
        self._saved = None

    # ---- the four patched functions (group arguments accepted and ignored, as the real ones allow)
    def _is_available(self):
        self.calls["is_available"] += 1
        return self.available

    def _is_initialized(self):
        self.calls["is_initialized"] += 1
        return self.available and self.initialized

    def _get_rank(self, group=None):
        self.calls["get_rank"] += 1
        if not (self.available and self.initialized):
            return -1
        return self.rank

    def _get_world_size(self, group=None):
        self.calls["get_world_size"] += 1
        if not (self.available and self.initialized):
            return -1
        return self.world_size

    # ---- install / remove
    def __enter__(self):
        if self._saved is not None:
            raise RuntimeError("FakeDist is not re-entrant")
        self._saved = dict((n, getattr(_dist, n)) for n in _NAMES)
        assert torch.distributed is _dist
        _dist.is_available = self._is_available
        _dist.is_initialized = self._is_initialized
        _dist.get_rank = self._get_rank
        _dist.get_world_size = self._get_world_size
        return self

    def __exit__(self, *exc):
        for n, f in self._saved.items():
            setattr(_dist, n, f)
        self._saved = None
        return False

    @contextlib.contextmanager
    def as_rank(self, rank):
        """Everything constructed inside believes it runs on `rank`."""
        if not (-1 <= rank < max(self.world_size, 1)):
            raise ValueError("rank %r outside world of %d" % (rank, self.world_size))
        old = self.rank
        self.rank = int(rank)
        try:
            yield self
        finally:
            self.rank = old
