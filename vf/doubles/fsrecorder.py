"""FsRecorder -- records the file-system operations one pool item's work performs.

FakePool runs the library's real per-item function in-process; while it does, `item(call, k)` patches
the entry points through which pydrobert.torch's commands touch files (builtins.open, torch.save,
torch.load, os.replace/rename/remove/unlink/link/symlink) and appends one abstract operation per call
to the item's list: ["w"|"a"|"r"|"rm", p, 0], ["mv"|"ln", p, q], with paths under `root` numbered in
order of first appearance (other paths -- libraries, /dev/null -- are not the command's data and are
ignored).  The lists are the programs specs/WorkerPoolFs.tla interleaves."""
import builtins
import contextlib
import os
import shutil

import torch


class FsRecorder:
    def __init__(self, root):
        self.root = os.path.realpath(root) + os.sep
        self.paths = {}
        self.items = {}  # (call number, item number) -> list of ops

    def pid(self, path):
        try:
            if hasattr(path, "name") and not isinstance(path, (str, bytes, os.PathLike)):
                path = path.name
            ap = os.path.realpath(os.fspath(path))
        except Exception:
            return None
        if isinstance(ap, bytes):
            ap = ap.decode("utf-8", "replace")
        if not (ap + os.sep).startswith(self.root) and not ap.startswith(self.root):
            return None
        return self.paths.setdefault(ap, len(self.paths) + 1)

    @contextlib.contextmanager
    def item(self, call, k):
        ops = self.items.setdefault((call, k), [])
        rec = self
        real = dict(open=builtins.open, save=torch.save, load=torch.load, replace=os.replace, rename=os.rename,
                    remove=os.remove, unlink=os.unlink, link=os.link, symlink=os.symlink, copy=shutil.copy,
                    copy2=shutil.copy2, copyfile=shutil.copyfile)
        depth = [0]  # only the outermost intercepted call counts (torch.save may call open itself)

        def note(op, p, q=None):
            if depth[0] > 1:
                return
            a = rec.pid(p)
            b = rec.pid(q) if q is not None else 0
            if op in ("mv", "ln"):
                if b in (None, 0):
                    return
                if a is None:  # source outside the command's directories: the destination just gets this item's data
                    ops.append(["w", b, 0])
                    return
                ops.append([op, a, b])
            elif a is not None:
                ops.append([op, a, 0])

        def wrap(name, fn):
            def inner(*a, **kw):
                depth[0] += 1
                try:
                    out = real[name](*a, **kw)
                    fn(*a, **kw)
                    return out
                finally:
                    depth[0] -= 1
            return inner

        def on_open(file, mode="r", *a, **kw):
            if isinstance(file, int):
                return
            if "a" in mode:
                note("a", file)
            elif "w" in mode or "x" in mode or "+" in mode:
                note("w", file)
            else:
                note("r", file)

        builtins.open = wrap("open", on_open)
        torch.save = wrap("save", lambda obj, f, *a, **kw: note("w", f))
        torch.load = wrap("load", lambda f, *a, **kw: note("r", f))
        os.replace = wrap("replace", lambda s, d, *a, **kw: note("mv", s, d))
        os.rename = wrap("rename", lambda s, d, *a, **kw: note("mv", s, d))
        os.remove = wrap("remove", lambda p, *a, **kw: note("rm", p))
        os.unlink = wrap("unlink", lambda p, *a, **kw: note("rm", p))
        os.link = wrap("link", lambda s, d, *a, **kw: note("ln", s, d))
        os.symlink = wrap("symlink", lambda s, d, *a, **kw: note("ln", s, d))
        shutil.copy = wrap("copy", lambda s, d, *a, **kw: note("ln", s, os.path.join(d, os.path.basename(s)) if os.path.isdir(d) else d))
        shutil.copy2 = wrap("copy2", lambda s, d, *a, **kw: note("ln", s, os.path.join(d, os.path.basename(s)) if os.path.isdir(d) else d))
        shutil.copyfile = wrap("copyfile", lambda s, d, *a, **kw: note("ln", s, d))
        try:
            yield ops
        finally:
            builtins.open = real["open"]
            torch.save, torch.load = real["save"], real["load"]
            os.replace, os.rename, os.remove, os.unlink = real["replace"], real["rename"], real["remove"], real["unlink"]
            os.link, os.symlink = real["link"], real["symlink"]
            shutil.copy, shutil.copy2, shutil.copyfile = real["copy"], real["copy2"], real["copyfile"]
