"""FakePool -- a test double for multiprocessing.Pool that replays behaviours of specs/WorkerPool.tla.

The library creates its pools in exactly two ways, and exactly these are patched by `installed`:

    _parsing.py::read_trn_iter               torch.multiprocessing.Pool(processes).imap(f, it, chunk)
    command_line.py::_multiprocessor_pattern_generator
        torch.multiprocessing.get_context("spawn").Pool(n, initializer, initargs).imap_unordered(f, it, chunk)

The fake replaces only the scheduler.  The items are cut into chunks of `chunksize` as a real pool
does; a *behaviour* exported by TLC from WorkerPool.tla -- a list of events ["take", k],
["finish", k], ["deliver", k] over chunk numbers k = 1..nchunks -- is replayed literally:

    take k      chunk k leaves the task queue (must be the head of the queue, a worker must be free)
    finish k    the real per-item function is called, in-process, on the items of chunk k
    deliver k   the results of chunk k are handed to the consumer of the iterator

`imap` replays a behaviour of the "ordered" discipline, `imap_unordered` one of the "unordered"
discipline; which chunk is delivered when is therefore decided by the specification, not here.  The
fake only asserts that the behaviour it is given is well formed (FakePoolError otherwise: a bug of
the harness, never a finding).
"""
import contextlib


class FakePoolError(Exception):
    pass


class Plan:
    """Chooses the behaviour to replay.  `schedules`: dict (nchunks, W, mode) -> list of event
    lists; `pick`: integer index (taken modulo the number of behaviours available)."""

    def __init__(self, schedules, pick=0):
        self.schedules = schedules
        self.pick = pick
        self.calls = []  # one dict per imap/imap_unordered call
        self.recorder = None  # optional vf.doubles.fsrecorder.FsRecorder: per-item file-system operations

    def behaviour(self, nchunks, workers, mode):
        if nchunks == 0:
            return []
        # workers are interchangeable and at most nchunks of them can ever hold a chunk, so the
        # behaviours for W > nchunks are those for W = nchunks (WorkerPool.tla, AnonView)
        key = (nchunks, min(workers, nchunks), mode)
        lst = self.schedules.get(key)
        if not lst:
            raise FakePoolError("no exported behaviour for nchunks=%d W=%d mode=%s" % (nchunks, workers, mode))
        return lst[self.pick % len(lst)]


class _Raised:
    def __init__(self, ex):
        self.ex = ex


class FakePool:
    def __init__(self, plan, processes=None, initializer=None, initargs=(), maxtasksperchild=None,
                 context_method=None):
        if processes is None or processes < 1:
            raise FakePoolError("FakePool needs an explicit positive number of processes, got %r" % (processes,))
        self.plan = plan
        self.processes = processes
        self.context_method = context_method
        self.closed = False
        # a real pool runs the initializer once in every worker; in-process once is the same thing
        # for initializers that only store their arguments (command_line._worker_init)
        if initializer is not None:
            initializer(*initargs)

    # ---- context manager / life cycle (no-ops apart from bookkeeping)
    def __enter__(self):
        return self

    def __exit__(self, *exc):
        self.terminate()
        return False

    def close(self):
        self.closed = True

    def join(self):
        pass

    def terminate(self):
        self.closed = True

    # ---- the two iterators the library uses
    def imap(self, func, iterable, chunksize=1):
        return self._play(func, iterable, chunksize, "ordered", "imap")

    def imap_unordered(self, func, iterable, chunksize=1):
        return self._play(func, iterable, chunksize, "unordered", "imap_unordered")

    def map(self, *a, **kw):  # pragma: no cover
        raise FakePoolError("FakePool.map is not modelled by WorkerPool.tla")

    apply = apply_async = map_async = starmap = starmap_async = map

    def _play(self, func, iterable, chunksize, mode, method):
        if self.closed:
            raise ValueError("Pool not running")
        if chunksize < 1:
            raise ValueError("Chunksize must be 1+, not {0:n}".format(chunksize))
        # the task-feeder thread of a real pool drains the iterable on its own; draining it before
        # the first result is one of its legal timings
        items = list(iterable)
        chunks = [items[i:i + chunksize] for i in range(0, len(items), chunksize)]
        events = self.plan.behaviour(len(chunks), self.processes, mode)
        self.plan.calls.append(dict(method=method, mode=mode, nitems=len(items), chunksize=chunksize,
                                    nchunks=len(chunks), processes=self.processes,
                                    context=self.context_method, events=events))
        return self._run(func, chunks, events, mode)

    def _run(self, func, chunks, events, mode):
        n = len(chunks)
        head = 1  # next chunk in the queue
        busy = set()
        results = {}
        delivered = []
        for ev in events:
            kind, k = ev[0], ev[1]
            if kind == "take":
                if k != head or k > n or len(busy) >= self.processes:
                    raise FakePoolError("ill-formed behaviour: %r at head=%d busy=%r" % (ev, head, busy))
                busy.add(k)
                head += 1
            elif kind == "finish":
                if k not in busy:
                    raise FakePoolError("ill-formed behaviour: %r but chunk not in flight" % (ev,))
                busy.discard(k)
                out = []
                first = sum(len(ch) for ch in chunks[:k - 1])
                for j, x in enumerate(chunks[k - 1]):
                    try:
                        if self.plan.recorder is not None:
                            with self.plan.recorder.item(len(self.plan.calls), first + j + 1):
                                out.append(func(x))
                        else:
                            out.append(func(x))
                    except Exception as ex:  # a real pool ships the exception to the consumer
                        out.append(_Raised(ex))
                        break
                results[k] = out
            elif kind == "deliver":
                if k not in results or k in delivered:
                    raise FakePoolError("ill-formed behaviour: %r" % (ev,))
                if mode == "ordered" and k != len(delivered) + 1:
                    raise FakePoolError("ordered behaviour delivers %d out of turn" % k)
                delivered.append(k)
                for r in results[k]:
                    if isinstance(r, _Raised):
                        raise r.ex
                    yield r
            else:
                raise FakePoolError("unknown event %r" % (ev,))
        if len(delivered) != n:
            raise FakePoolError("behaviour ended with %d of %d chunks delivered" % (len(delivered), n))


class WrongFakePool(FakePool):
    """Deliberately wrong stubs for the drivers' binding self-tests (never used for a verdict):
    `imap` delivers in completion order, `imap_unordered` silently loses the last task."""

    def imap(self, func, iterable, chunksize=1):
        return self._play(func, iterable, chunksize, "unordered", "imap")

    def imap_unordered(self, func, iterable, chunksize=1):
        return self._play(func, list(iterable)[:-1], chunksize, "unordered", "imap_unordered")


class _FakeContext:
    def __init__(self, plan, method, pool_cls):
        self.plan = plan
        self.method = method
        self.pool_cls = pool_cls

    def Pool(self, processes=None, initializer=None, initargs=(), maxtasksperchild=None):
        return self.pool_cls(self.plan, processes, initializer, initargs, maxtasksperchild, context_method=self.method)


@contextlib.contextmanager
def installed(plan, pool_cls=FakePool):
    """Patch precisely the two pool constructors pydrobert.torch uses (both are looked up as
    attributes of the `torch.multiprocessing` module at call time)."""
    import torch.multiprocessing as tmp

    real_pool = tmp.Pool
    real_get_context = tmp.get_context

    def pool(processes=None, initializer=None, initargs=(), maxtasksperchild=None):
        return pool_cls(plan, processes, initializer, initargs, maxtasksperchild)

    def get_context(method=None):
        return _FakeContext(plan, method, pool_cls)

    tmp.Pool = pool
    tmp.get_context = get_context
    try:
        yield plan
    finally:
        tmp.Pool = real_pool
        tmp.get_context = real_get_context
