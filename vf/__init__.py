"""vf -- model-based verification framework for pydrobert-pytorch (TLA+/TLC + conformance)."""
import os

ROOT = os.path.dirname(os.path.dirname(os.path.abspath(__file__)))
SPECS = os.path.join(ROOT, "specs")
EVIDENCE = os.path.join(ROOT, "evidence")
REPLAYS = os.path.join(ROOT, "replays")
FINDINGS = os.path.join(ROOT, "known_findings.json")
REPO = os.environ.get("VF_REPO", "/repo")
